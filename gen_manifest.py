#!/usr/bin/env python3
"""Regenerates MANIFEST.json from the table below (kept in one place so it stays valid)."""
import json, subprocess
CLAIMED = json.load(open('/verif/claims.json'))
props = [json.loads(l) for l in open('/verif/properties.jsonl')]
hooks_commits = subprocess.run(['git','-C','/repo','log','--format=%h %s'],capture_output=True,text=True).stdout.splitlines()
hook_commits = [l.split()[0] for l in hooks_commits if l.split(' ',1)[1].startswith('verif:')]
checks=[]; na=[]
for p in props:
    pid=p['id']
    c=CLAIMED.get(pid)
    if c and c.get('claimed'):
        checks.append({
          "property_id": pid,
          "quick_cmd": f"./check {pid} quick",
          "thorough_cmd": f"./check {pid} thorough",
          "evidence_file": f"/verif/evidence/{pid}.json",
          "replay_cmd_template": f"./check {pid} --replay {{path}}",
          "engine": "dlverif",
          "level_claimed": {"category":"exploration","text":c['text'],"design_ref":c.get('design_ref','DESIGN.md §6 '+pid)},
          "level_note": c['note'],
          "technique": c['technique'],
        })
    else:
        na.append({"property_id":pid,"reason":(c or {}).get('reason','monitor not built yet in this session (planned, see DESIGN.md §6)')})
m={
 "version":1,
 "setup_cmd":"./check --setup",
 "hooks":{"guard":"cargo feature `verif` of the darklua crate (off by default)",
          "enable":"the harness crate /verif/harness depends on darklua by path with features=[\"verif\"]; ./check rebuilds it from /repo's working tree",
          "baseline_off_cmd":"cd /repo && cargo nextest run --workspace --no-fail-fast --tool-config-file pb:/w/lib/nextest.toml --profile pb --test-threads 8 --offline || cargo test --workspace --no-fail-fast --offline",
          "source_commits":hook_commits,"add_only":True},
 "engines":[{"name":"dlverif","path":"/verif/harness","serves_properties":[c['property_id'] for c in checks],
             "kind_free_text":"Rust harness: runs the real darklua library/CLI on generated, enumerated and mutated workloads in 16 worker processes; monitors (reference-model oracles, invariant hooks, crash/hang watchdog) decide each case; offline"}],
 "checks":checks,
 "notes":"Runtime monitoring only: every verdict is 'held on the executions observed'. Exit 0 held / 1 VIOLATION / 2 broken-or-inconclusive run. Known findings: /verif/known_findings.json.",
 "not_applicable":na,
}
json.dump(m,open('/verif/MANIFEST.json','w'),indent=1)
print(len(checks),'claimed',len(na),'not claimed')
