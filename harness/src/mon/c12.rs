//! C12 — no input or configuration crashes darklua (crash / hang monitor over worker processes).
//!
//! The framework supplies the observation: a panic inside `run` is caught and reported with its
//! location; a worker that dies (abort, stack overflow, signal) or exceeds the per-case CPU budget is
//! attributed to the journaled case, which is replayed alone in a fresh process before it counts.

use super::c19_model as model;
use crate::corpus;
use crate::dl;
use crate::framework::*;
use crate::gen::prog::{self, Feat};
use crate::gen::shrink::shrink_source;
use crate::reflua::lexer::lex;
use crate::reflua::print::print_block;
use crate::rng::{hash64, Rng};
use serde_json::{json, Value};

#[derive(Default)]
pub struct C12 {
    seeds: Vec<String>,
    loaded: bool,
}

const MAX_INPUT: usize = 4096;
/// documented nesting bound (DESIGN.md §6 C12): deeper nesting exhausts the native stack of the parser dependency
const MAX_NEST: usize = 64;

const FRAGMENTS: [&str; 60] = [
    "local", " ", "x", "=", "1", "(", ")", "function", "end", "\n", "\"", "--[[", "]]", "{", "}", "if", "then", "..", "-", "`", "\\", "else", "elseif", "while", "do", "repeat", "until", "for", "in", "return", "break", "continue", "type", "export", "::", ":", "->", "<", ">", "?", "|", "&", "...", "[", "]",
    "[[", "[=[", "'", ",", ";", "0x", "1e", "0b", "_", "@", "#", "not", "and", "nil", "\r",
];

const MULTIBYTE: [&str; 8] = ["é", "日", "😀", "\u{feff}", "\u{0}", "\u{7f}", "\u{2028}", "\u{a0}"];

impl C12 {
    fn load(&mut self) {
        if self.loaded {
            return;
        }
        self.loaded = true;
        for it in corpus::load() {
            if it.text.len() <= MAX_INPUT && !it.text.is_empty() {
                self.seeds.push(it.text);
            }
        }
    }
}

fn nested(kind: usize, depth: usize) -> String {
    match kind {
        0 => format!("{}{}", "do ".repeat(depth), "end ".repeat(depth)),
        1 => format!("return {}1{}", "(".repeat(depth), ")".repeat(depth)),
        2 => format!("return {}{}", "{".repeat(depth), "}".repeat(depth)),
        3 => format!("return {}1", "-".repeat(0) + &"not ".repeat(depth)),
        4 => format!("{}x(){}", "if a then ".repeat(depth), " end".repeat(depth)),
        5 => format!("return {}nil{}", "function() return ".repeat(depth), " end".repeat(depth)),
        6 => format!("local x: {}number{} = 1", "{".repeat(depth), "}".repeat(depth)),
        7 => format!("return {}x{}", "`{".repeat(depth), "}`".repeat(depth)),
        8 => format!("return {}1", "if a then 1 else ".repeat(depth)),
        9 => format!("return a{}", ".b".repeat(depth * 8)),
        10 => format!("return a{}", "()".repeat(depth * 8)),
        _ => format!("return a{}", "[1]".repeat(depth * 8)),
    }
}

fn chain(op: &str, n: usize, right_deep: bool, leaf: &str) -> String {
    if right_deep {
        let mut s = String::from("return ");
        for _ in 0..n {
            s.push_str(leaf);
            s.push_str(op);
            s.push('(');
        }
        s.push_str(leaf);
        s.push_str(&")".repeat(n));
        s
    } else {
        format!("return {}{}", format!("{}{}", leaf, op).repeat(n), leaf)
    }
}

/// deterministic structural inputs (within the documented bounds)
fn structural() -> Vec<String> {
    let mut v = vec![];
    for kind in 0..12 {
        for depth in [1, 2, 8, 32, MAX_NEST] {
            v.push(nested(kind, depth));
        }
    }
    for op in [" + ", " .. ", " and ", " or ", " == ", " ^ ", " // ", " < "] {
        for leaf in ["1", "x", "'a'", "f()", "nil", "true"] {
            for n in [2usize, 16, 40, 64] {
                v.push(chain(op, n, false, leaf));
                v.push(chain(op, n, true, leaf));
            }
        }
    }
    v.push(format!("return {{{}}}", "1,".repeat(10_000)));
    v.push(format!("return {{{}}}", "a=1;".repeat(2_000)));
    v.push(format!("local {} = 1", (0..200).map(|i| format!("v{}", i)).collect::<Vec<_>>().join(",")));
    v.push(format!("return '{}'", "x".repeat(100_000)));
    v.push(format!("return [[{}]]", "line\n".repeat(5_000)));
    v.push(format!("--{}\nreturn 1", "c".repeat(100_000)));
    v.push(format!("{}return 1", "\n".repeat(50_000)));
    v.push(format!("return {}", "x".repeat(10_000)));
    v.push(format!("f{}", "''".repeat(500)));
    v.push(format!("return 1{}", "0".repeat(400)));
    v.push(format!("return 0x{}", "f".repeat(400)));
    v.push(format!("return 0.{}1e-400", "0".repeat(400)));
    v.push(format!("local function f({}) end", (0..250).map(|i| format!("p{}", i)).collect::<Vec<_>>().join(",")));
    v.push(format!("return f({})", (0..300).map(|i| format!("{}", i)).collect::<Vec<_>>().join(",")));
    v.push(format!("{}", "local x = 1 ".repeat(3000)));
    v.push(format!("type T = {}number", "number | ".repeat(500)));
    v.push(format!("type T = {}number{}", "{".repeat(MAX_NEST), "}".repeat(MAX_NEST)));
    v.push(format!("return `{}`", "{x}".repeat(500)));
    // strings long enough to be rewritten between long brackets, holding every combination of closing brackets
    for mask in 0u32..16 {
        for tail in ["", "]", "]=", "]]"] {
            let mut text = String::from("a text that is long enough to be written between long brackets: ");
            for (lvl, closer) in ["]]", "]=]", "]==]", "]===]"].iter().enumerate() {
                if mask & (1 << lvl) != 0 {
                    text.push_str(&format!("close {} then ", closer));
                }
            }
            text.push_str("the end");
            text.push_str(tail);
            v.push(format!("return \"{}\"", text));
            v.push(format!("local t = {{ [\"{}\"] = 1 }}\nreturn t[\"{}\"]", text, text));
        }
    }
    // every escape form, well-formed and malformed, in the three kinds of string (the reader of literals is code of
    // darklua itself, not of the parser dependency)
    for esc in [
        "\\u{D800}", "\\u{DFFF}", "\\u{DBFF}\\u{DC00}", "\\u{10FFFF}", "\\u{110000}", "\\u{FFFFFFFF}", "\\u{100000000}", "\\u{FFFFFFFFFFFFFFFFFFFF}", "\\u{}", "\\u{", "\\u{0", "\\u{g}", "\\u", "\\u{0000000000041}", "\\u{ 41 }",
        "\\x", "\\x4", "\\xZZ", "\\xFF", "\\x00", "\\255", "\\256", "\\999", "\\1234", "\\0", "\\00", "\\z", "\\z  \n  x", "\\\n", "\\\r\n", "\\\r", "\\q", "\\", "\\\\", "\\'", "\\\"", "\\`", "\\{", "\\a\\b\\f\\n\\r\\t\\v",
    ] {
        for q in ['"', '\'', '`'] {
            v.push(format!("return {q}{esc}{q}"));
            v.push(format!("return {q}a{esc}b{q}"));
            v.push(format!("return {q}{esc}"));
        }
        v.push(format!("return `{{x}}{esc}{{y}}`"));
        v.push(format!("local t: {{ [\"{esc}\"]: number }} = {{}}"));
    }
    v
}

fn run_batch(case: &Case, cov: &mut Cov) -> Verdict {
    let files: Vec<(String, String)> = case["files"].as_object().map(|m| m.iter().map(|(k, v)| (k.clone(), v.as_str().unwrap_or("").to_string())).collect()).unwrap_or_default();
    let config = case["config"].as_str().unwrap_or("{}");
    // which files darklua's own parser accepts decides who must have an output
    let mut parsable: Vec<&str> = vec![];
    let mut unparsable: Vec<&str> = vec![];
    // (retain_lines reads the file with its tokens, the other generators without: a shebang line is only rejected by the former)
    let with_tokens = config.contains("retain_lines");
    for (p, t) in &files {
        match guarded(|| if with_tokens { dl::parse_tokens(t).is_ok() } else { dl::parse(t).is_ok() }) {
            Ok(true) => parsable.push(p),
            Ok(false) => unparsable.push(p),
            Err(_) => return Verdict::discard("the parser panics on a file of the batch (judged by the single-file cases)"),
        }
    }
    let out = match guarded(|| dl::process_memory(&files, config, "src", Some("out"), "out")) {
        Ok(o) => o,
        Err(msg) => return Verdict::violated("batch:panic", format!("processing the batch panics: {}\nfiles {:?}", msg, files.iter().map(|(p, _)| p).collect::<Vec<_>>())),
    };
    if out.errors.iter().any(|e| e.starts_with("config:")) {
        return Verdict::discard("configuration rejected");
    }
    cov.hit("batch_cases");
    cov.add("batch_files", files.len() as u64);
    cov.add("batch_unparsable_files", unparsable.len() as u64);
    for p in &unparsable {
        let dest = format!("out/{}", &p[4..]);
        if out.files.contains_key(&dest) {
            return Verdict::violated("batch:output-for-unparsable-file", format!("`{}` cannot be parsed but `{}` was written", p, dest));
        }
        if !out.errors.iter().any(|e| e.contains(*p)) {
            return Verdict::violated("batch:failure-not-reported", format!("`{}` cannot be parsed but no reported error names it; errors: {:?}", p, out.errors));
        }
    }
    let mut rule_failures = 0;
    for p in &parsable {
        let dest = format!("out/{}", &p[4..]);
        if !out.files.contains_key(&dest) {
            // a rule may fail on a parsable file: then an error has to name it; otherwise the batch stopped half way
            if out.errors.iter().any(|e| e.contains(*p)) {
                rule_failures += 1;
                continue;
            }
            return Verdict::violated(
                "batch:file-skipped",
                format!("`{}` parses, is named by no error, and has no output: the batch did not process it (unparsable files of the batch: {:?}; errors: {:?})", p, unparsable, out.errors.iter().map(|e| e.lines().next().unwrap_or("").to_string()).collect::<Vec<_>>()),
            );
        }
    }
    if unparsable.is_empty() && rule_failures == 0 && !out.ok {
        return Verdict::violated("batch:error-without-cause", format!("every file parses and has an output but the run reports errors: {:?}", out.errors));
    }
    cov.eval(if !unparsable.is_empty() && !parsable.is_empty() { Some(hash64(format!("{:?}|{}", files, config).as_bytes())) } else { None });
    Verdict::Held
}

fn mutate(r: &mut Rng, seed: &str) -> String {
    let mut s: Vec<char> = seed.chars().collect();
    let n = 1 + r.below(4);
    for _ in 0..n {
        if s.is_empty() {
            break;
        }
        let i = r.below(s.len());
        match r.below(9) {
            0 => {
                s.remove(i);
            }
            1 => {
                let c = s[i];
                s.insert(i, c);
            }
            2 => {
                let frag = *r.pick(&FRAGMENTS);
                for (k, c) in frag.chars().enumerate() {
                    s.insert((i + k).min(s.len()), c);
                }
            }
            3 => {
                let mb = *r.pick(&MULTIBYTE);
                for (k, c) in mb.chars().enumerate() {
                    s.insert((i + k).min(s.len()), c);
                }
            }
            4 => {
                s.truncate(i);
            }
            5 => {
                let j = r.below(s.len());
                s.swap(i, j);
            }
            6 => {
                // delete a span
                let j = (i + 1 + r.below(20)).min(s.len());
                s.drain(i..j);
            }
            7 => {
                // duplicate a span
                let j = (i + 1 + r.below(30)).min(s.len());
                let span: Vec<char> = s[i..j].to_vec();
                for (k, c) in span.into_iter().enumerate() {
                    s.insert(j + k, c);
                }
            }
            _ => {
                s[i] = *r.pick(&['(', ')', '{', '}', '"', '\'', '`', '\\', '\n', '\r', '[', ']', '=', '-', '.', ':', '\0', ' ']);
            }
        }
    }
    let mut out: String = s.into_iter().collect();
    if out.len() > MAX_INPUT {
        let mut cut = MAX_INPUT;
        while !out.is_char_boundary(cut) {
            cut -= 1;
        }
        out.truncate(cut);
    }
    out
}

fn token_mutate(r: &mut Rng, seed: &str) -> Option<String> {
    let lx = lex(seed, true).ok()?;
    let toks: Vec<(usize, usize)> = lx.tokens.iter().filter(|t| t.end > t.start).map(|t| (t.start, t.end)).collect();
    if toks.len() < 2 {
        return None;
    }
    let i = r.below(toks.len());
    let (a, b) = toks[i];
    let mut out = String::new();
    match r.below(5) {
        0 => {
            out.push_str(&seed[..a]);
            out.push_str(&seed[b..]);
        }
        1 => {
            out.push_str(&seed[..b]);
            out.push(' ');
            out.push_str(&seed[a..b]);
            out.push_str(&seed[b..]);
        }
        2 => {
            let j = r.below(toks.len());
            let (c, d) = toks[j];
            if c >= b {
                out.push_str(&seed[..a]);
                out.push_str(&seed[c..d]);
                out.push_str(&seed[b..c]);
                out.push_str(&seed[a..b]);
                out.push_str(&seed[d..]);
            } else {
                return None;
            }
        }
        3 => {
            // multi-byte character at the token boundary
            out.push_str(&seed[..a]);
            out.push_str(*r.pick(&MULTIBYTE));
            out.push_str(&seed[a..]);
        }
        _ => {
            out.push_str(&seed[..a]);
            out.push_str(*r.pick(&FRAGMENTS));
            out.push_str(&seed[b..]);
        }
    }
    Some(out)
}

fn sanitize_rule(v: &Value) -> Value {
    // rules reading real files are given inline text instead (the memory back end has no such file)
    match v {
        Value::Object(o) if o.contains_key("file") => {
            let mut m = o.clone();
            m.remove("file");
            m.insert("text".into(), json!("banner"));
            Value::Object(m)
        }
        other => other.clone(),
    }
}

fn random_pipeline(r: &mut Rng) -> (String, Vec<String>) {
    let n = 1 + r.below(6);
    let mut rules = vec![];
    let mut names = vec![];
    for _ in 0..n {
        let rule = sanitize_rule(&model::random_rule(r));
        let name = rule.as_str().map(|s| s.to_string()).or_else(|| rule["rule"].as_str().map(|s| s.to_string())).unwrap_or_default();
        // filters would make the rule skip the single file under test: drop them
        let rule = match rule {
            Value::Object(mut o) => {
                o.remove("apply_to_files");
                o.remove("skip_files");
                Value::Object(o)
            }
            other => other,
        };
        names.push(name);
        rules.push(rule);
    }
    let generator = match r.below(8) {
        0 => json!("dense"),
        1 => json!("readable"),
        2 => json!({"name": "dense", "column_span": *r.pick(&[0, 1, 2, 3, 5, 10, 40, 80, 200])}),
        3 => json!({"name": "readable", "column_span": *r.pick(&[0, 1, 2, 3, 5, 10, 40, 80, 200])}),
        _ => json!("retain_lines"),
    };
    let cfg = json!({"rules": rules, "generator": generator});
    (model::to_text(&cfg, None), names)
}

impl Monitor for C12 {
    fn id(&self) -> &'static str {
        "C12"
    }
    fn rule_text(&self) -> String {
        format!("parse cases (both parser modes): deterministic structural inputs within the documented bounds (12 nesting shapes at depths 1..{}, left- and right-deep operator chains of up to 64 operands for 8 operators x 6 leaf kinds, 10^4-element tables, very long tokens/lines/parameter lists), every seed of the corpus truncated at every 1/64th of its length, random fragment soups, corpus seeds and generated programs mutated at character level (delete / duplicate / swap / insert fragment or multi-byte character / truncate / span delete / span duplicate) and at token level (delete / duplicate / swap / multi-byte character at the token boundary / replace by fragment), inputs <= {} bytes. process cases: parsable corpus seeds and generated programs (plain, Luau, typed) x pipelines of 1-6 rules drawn from all 32 rules with randomised valid properties x retain_lines / dense / readable with column spans incl. 0 and 1: process must return (no panic, abort or hang), a successful output must parse again, an error must format. Non-trivial = the input is accepted by the parser (parse cases) or at least one rule ran (process cases); distinct = hash of (input, configuration).", MAX_NEST, MAX_INPUT)
    }
    fn assumptions(&self) -> Vec<String> {
        vec![
            format!("nesting is bounded by {} (measured: the parser dependency overflows an 8 MiB stack between 200 and 400 nested `do` blocks); deeper inputs are outside the claim", MAX_NEST),
            "a hang is a case exceeding 20 s of CPU time that does so again (60 s) when replayed alone in a fresh process".into(),
            "workers run the library on a thread with an 8 MiB stack, like the CLI's main thread".into(),
        ]
    }
    fn plan(&self, tier: Tier) -> Plan {
        let mut me = C12::default();
        me.load();
        let det = structural().len() + me.seeds.len().min(400);
        Plan { deterministic: det as u64, max_cases: u64::MAX, budget_s: if tier == Tier::Quick { 45.0 } else { 900.0 } }
    }
    fn floors(&self, _tier: Tier) -> Vec<(String, u64)> {
        vec![("parse_cases".into(), 5000), ("process_cases".into(), 1000), ("process:ok".into(), 300)]
    }
    fn gen(&mut self, _tier: Tier, seed: u64, index: u64) -> Option<Case> {
        self.load();
        let st = structural();
        let i = index as usize;
        if i < st.len() {
            return Some(json!({"kind": "parse", "class": "structural", "text": st[i], "also_process": i % 3 == 0 || st[i].contains("long enough to be written between long brackets")}));
        }
        let i = i - st.len();
        let nseed = self.seeds.len().min(400);
        if i < nseed {
            // truncation of a seed at every 1/64th of its length (one case = one seed, all cuts)
            return Some(json!({"kind": "truncations", "text": self.seeds[i]}));
        }
        let mut r = case_rng("C12", seed, index);
        if r.chance(1, 12) && !self.seeds.is_empty() {
            // a batch: several files in one run, some of which cannot be parsed; every other file has to be written and
            // every failure has to come back as an error value naming its file
            let n = 2 + r.below(6);
            let mut files = serde_json::Map::new();
            let mut bad: Vec<String> = vec![];
            for i in 0..n {
                let dir = *r.pick(&["src", "src/a", "src/a/b", "src/z"]);
                let path = format!("{}/f{}.{}", dir, i, if r.chance(1, 4) { "luau" } else { "lua" });
                let text = if r.chance(1, 3) {
                    bad.push(path.clone());
                    (*r.pick(&["local = 1", "return (", "if x then", "x = = 2", "function f( end", "\"unterminated", "}", "local t = {1, 2", "for i = 1 do end", "return 1 2"])).to_string()
                } else if r.bool() {
                    self.seeds[r.below(self.seeds.len())].clone()
                } else {
                    let mut f = Feat::default();
                    f.max_stmts = 3 + r.below(10);
                    print_block(&prog::generate(&mut r, f).0)
                };
                files.insert(path, json!(text));
            }
            let rules: Vec<String> = if r.bool() { dl::DEFAULT_RULES.iter().map(|x| format!("'{}'", x)).collect() } else { vec![] };
            let g = *r.pick(&["'retain_lines'", "'dense'", "'readable'"]);
            return Some(json!({"kind": "batch", "files": files, "bad": bad, "config": dl::config_json(&rules, g), "text": ""}));
        }
        match r.below(10) {
            0 => {
                let n = r.below(60);
                let mut s = String::new();
                for _ in 0..n {
                    s.push_str(*r.pick(&FRAGMENTS));
                    if r.chance(1, 20) {
                        s.push_str(*r.pick(&MULTIBYTE));
                    }
                }
                Some(json!({"kind": "parse", "class": "fragment-soup", "text": s}))
            }
            1 | 2 | 3 => {
                let base = if r.bool() && !self.seeds.is_empty() {
                    self.seeds[r.below(self.seeds.len())].clone()
                } else {
                    let mut f = Feat::default();
                    f.luau = r.bool();
                    f.types = f.luau && r.bool();
                    f.max_stmts = 3 + r.below(15);
                    print_block(&prog::generate(&mut r, f).0)
                };
                let text = if r.bool() { token_mutate(&mut r, &base).unwrap_or_else(|| mutate(&mut r, &base)) } else { mutate(&mut r, &base) };
                Some(json!({"kind": "parse", "class": "mutated", "text": text, "also_process": r.chance(1, 4)}))
            }
            _ => {
                // process case
                let text = if r.chance(1, 3) && !self.seeds.is_empty() {
                    self.seeds[r.below(self.seeds.len())].clone()
                } else {
                    let mut f = Feat::default();
                    f.luau = r.bool();
                    f.types = f.luau && r.bool();
                    f.idioms_refactor = r.bool();
                    f.idioms_removal = r.bool();
                    f.inject_name = Some("INJ".into());
                    f.max_stmts = 3 + r.below(25);
                    let (b, _) = prog::generate(&mut r, f);
                    if r.chance(1, 3) {
                        super::textmon::generated_source(&mut r, true, true).0
                    } else {
                        print_block(&b)
                    }
                };
                let (config, names) = random_pipeline(&mut r);
                Some(json!({"kind": "process", "text": text, "config": config, "rules": names}))
            }
        }
    }

    fn run(&mut self, case: &Case, cov: &mut Cov) -> Verdict {
        let text = case["text"].as_str().unwrap_or("");
        match case["kind"].as_str() {
            Some("truncations") => {
                let n = text.len();
                let mut parsed = 0;
                for k in 0..=64usize {
                    let mut cut = n * k / 64;
                    while !text.is_char_boundary(cut) {
                        cut -= 1;
                    }
                    let t = &text[..cut];
                    let a = dl::parse(t).is_ok();
                    let _ = dl::parse_tokens(t);
                    if a {
                        parsed += 1;
                    }
                    cov.eval(if a { Some(hash64(t.as_bytes())) } else { None });
                }
                cov.add("parse_cases", 65);
                cov.add("truncations_parsed", parsed);
                Verdict::Held
            }
            Some("process") => self.run_process(text, case["config"].as_str().unwrap_or("{}"), case, cov),
            Some("batch") => run_batch(case, cov),
            _ => {
                let ok = dl::parse(text).is_ok();
                let ok2 = dl::parse_tokens(text).is_ok();
                cov.hit("parse_cases");
                cov.hit(&format!("parse:{}:{}", case["class"].as_str().unwrap_or("?"), if ok { "accepted" } else { "rejected" }));
                if ok != ok2 {
                    cov.hit("parse:token_mode_disagrees_(accepted_only_without_tokens)");
                }
                cov.eval(if ok { Some(hash64(text.as_bytes())) } else { None });
                if ok && cov.want_sample() && text.len() < 300 {
                    cov.sample(json!({"kind": "parse", "text": text}));
                }
                if ok2 && case["also_process"].as_bool().unwrap_or(false) {
                    // a parsable (possibly odd) input through the default pipeline and the three generators
                    for g in ["'retain_lines'", "'dense'", "{ name: 'readable', column_span: 1 }"] {
                        let rules: Vec<String> = dl::DEFAULT_RULES.iter().map(|r| format!("'{}'", r)).collect();
                        let cfg = dl::config_json(&rules, g);
                        if let Err((sig, detail)) = check_process(text, &cfg, cov) {
                            return Verdict::violated(sig, detail);
                        }
                    }
                }
                Verdict::Held
            }
        }
    }

    fn classify(&mut self, case: &Case, signature: &str) -> String {
        if signature == "output-does-not-parse" {
            // did darklua's parser accept something that is not a program for the independent parser?
            let text = case["text"].as_str().unwrap_or("");
            if crate::reflua::parser::parse_block(text, crate::reflua::parser::Mode::Luau).is_err() {
                return format!("{}|input-rejected-by-the-reference-parser", signature);
            }
            // a `-` / `-=` token directly followed by a comment: the writers fuse them into `---...`
            if let Ok(lx) = lex(text, true) {
                for w in lx.tokens.windows(2) {
                    let t = lx.text(&w[0]);
                    if (t == "-" || t == "-=") && w[1].leading.iter().find(|tr| tr.kind != crate::reflua::lexer::TriviaKind::Whitespace).map(|tr| matches!(tr.kind, crate::reflua::lexer::TriviaKind::LineComment | crate::reflua::lexer::TriviaKind::LongComment)).unwrap_or(false) {
                        return format!("{}|minus-directly-followed-by-comment", signature);
                    }
                }
                // the same fusion after a rule removed what stood between the minus and the comment: the output holds a
                // comment that is `-` + a comment of the input
                if let Some(cfg) = case["config"].as_str() {
                    if let Ok(Ok(out)) = guarded(|| dl::process_one(text, cfg)) {
                        let input_comments: Vec<String> = lx.comments().into_iter().map(|c| c.to_string()).collect();
                        if let Ok(ox) = lex(&out, true) {
                            for c in ox.comments() {
                                if let Some(rest) = c.strip_prefix('-') {
                                    // (a long comment that loses its opening bracket to the minus becomes a line comment: only its first line is left)
                                    if rest.starts_with("--") && input_comments.iter().any(|i| i.starts_with(rest)) && !input_comments.iter().any(|i| i.as_str() == c) {
                                        return format!("{}|minus-directly-followed-by-comment", signature);
                                    }
                                }
                            }
                        }
                    }
                }
            }
        }
        signature.to_string()
    }

    fn shrink(&mut self, case: &Case) -> Vec<Case> {
        let text = case["text"].as_str().unwrap_or("");
        let mut out: Vec<Value> = vec![];
        if case["kind"] == "process" {
            // fewer rules (the configuration is text: re-read it)
            if let Ok(v) = json5::from_str::<Value>(case["config"].as_str().unwrap_or("{}")) {
                if let Some(rules) = v["rules"].as_array() {
                    if rules.len() > 1 {
                        for i in 0..rules.len() {
                            let mut r2 = rules.clone();
                            r2.remove(i);
                            let mut c2 = v.clone();
                            c2["rules"] = json!(r2);
                            let mut c = case.clone();
                            c["config"] = json!(model::to_text(&c2, None));
                            out.push(c);
                        }
                    }
                }
                if v["generator"] != json!("retain_lines") {
                    let mut c2 = v.clone();
                    c2["generator"] = json!("retain_lines");
                    let mut c = case.clone();
                    c["config"] = json!(model::to_text(&c2, None));
                    out.push(c);
                }
            }
            for s in shrink_source(text, 200) {
                let mut c = case.clone();
                c["text"] = json!(s);
                out.push(c);
            }
        }
        // textual halving / chunk deletion
        let chars: Vec<char> = text.chars().collect();
        let n = chars.len();
        let mut size = n / 2;
        while size >= 1 && out.len() < 600 {
            let mut i = 0;
            while i < n {
                let mut v: Vec<char> = vec![];
                v.extend_from_slice(&chars[..i]);
                if i + size < n {
                    v.extend_from_slice(&chars[i + size..]);
                }
                let mut c = case.clone();
                c["text"] = json!(v.into_iter().collect::<String>());
                out.push(c);
                i += size;
            }
            size /= 2;
        }
        out
    }
}

/// one process run; Err = violation (signature, detail)
fn check_process(text: &str, config: &str, cov: &mut Cov) -> Result<bool, (String, String)> {
    match dl::process_one(text, config) {
        Ok(out) => {
            cov.hit("process:ok");
            // the output must parse again (darklua's own parser)
            if let Err(e) = dl::parse(&out) {
                let first: String = e.lines().next().unwrap_or("").chars().take(160).collect();
                return Err(("output-does-not-parse".into(), format!("process succeeded but its output is rejected by darklua's parser: {}\n--- config\n{}\n--- input\n{}\n--- output\n{}", first, config, text, out)));
            }
            Ok(true)
        }
        Err(e) => {
            if e.starts_with("config:") {
                cov.hit("process:configuration_rejected_(harness)");
                return Ok(false);
            }
            // errors are values: formatting them must work and name the file
            cov.hit("process:error_value");
            if !e.contains("main.lua") && !e.contains("src") {
                cov.hit("process:error_without_file_name_(observed)");
            }
            Ok(false)
        }
    }
}

impl C12 {
    fn run_process(&mut self, text: &str, config: &str, case: &Case, cov: &mut Cov) -> Verdict {
        cov.hit("process_cases");
        if dl::parse_tokens(text).is_err() {
            cov.hit("process:input_rejected_by_parser");
            return Verdict::discard("darklua's parser rejects the input");
        }
        match check_process(text, config, cov) {
            Ok(ran) => {
                if let Some(a) = case["rules"].as_array() {
                    for r in a {
                        if let Some(n) = r.as_str() {
                            cov.hit(&format!("rule_in_pipeline:{}", n));
                        }
                    }
                }
                cov.eval(if ran { Some(hash64(format!("{}|{}", text, config).as_bytes())) } else { None });
                if ran && cov.want_sample() && text.len() < 300 {
                    cov.sample(json!({"kind": "process", "text": text, "config": config}));
                }
                Verdict::Held
            }
            Err((sig, detail)) => Verdict::violated(sig, detail),
        }
    }
}

#[allow(dead_code)]
fn _unused(_: Rng) {}
