//! C12 — no input or configuration crashes darklua (crash/hang monitor).
use crate::dl;
use crate::framework::*;
use crate::rng::{hash64, Rng};
use serde_json::{json, Value};

#[derive(Default)]
pub struct C12 {}

impl Monitor for C12 {
    fn id(&self) -> &'static str {
        "C12"
    }
    fn rule_text(&self) -> String {
        "placeholder".into()
    }
    fn plan(&self, tier: Tier) -> Plan {
        Plan { deterministic: 0, max_cases: u64::MAX, budget_s: if tier == Tier::Quick { 10.0 } else { 60.0 } }
    }
    fn gen(&mut self, _tier: Tier, seed: u64, index: u64) -> Option<Case> {
        let mut r = case_rng("C12", seed, index);
        let n = r.below(40);
        let toks = ["local", " ", "x", "=", "1", "(", ")", "function", "end", "\n", "\"", "--[[", "]]", "{", "}", "if", "then", "..", "-", "`", "{", "\\"];
        let mut s = String::new();
        for _ in 0..n {
            s.push_str(*r.pick(&toks[..]));
        }
        Some(json!({"kind":"parse","text":s}))
    }
    fn run(&mut self, case: &Case, cov: &mut Cov) -> Verdict {
        let text = case["text"].as_str().unwrap_or("");
        let ok = dl::parse(text).is_ok();
        let _ = dl::parse_tokens(text);
        cov.hit(if ok { "parsed" } else { "rejected" });
        cov.eval(Some(hash64(text.as_bytes())));
        if cov.want_sample() {
            cov.sample(json!({"text": text, "parsed": ok}));
        }
        Verdict::Held
    }
}
#[allow(dead_code)]
fn _unused(_: Rng, _: Value) {}
