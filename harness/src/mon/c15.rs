//! C15 — requires resolve as documented and convert_require keeps the target.
//!
//! Observation channel: every candidate file returns a unique marker (its own path); an entry
//! whose only statement is `return require("<string>")` is bundled under the require mode and the
//! bundle is executed by the reference interpreter: the marker names the file darklua chose, an
//! error of `process` means "none".  The expectation comes from `c15_model::resolve`, a lexical
//! model written from the documentation.

use super::c15_model::*;
use crate::framework::*;
use crate::reflua;
use crate::reflua::interp::{Interp, Status};
use crate::reflua::literal::Dialect;
use crate::rng::{hash64, Rng};
use serde_json::{json, Value};
use std::collections::BTreeMap;

#[derive(Default)]
pub struct C15 {
    grid_quick: Option<Vec<Case>>,
    grid_thorough: Option<Vec<Case>>,
}

pub const SUFFIXES: [&str; 6] = ["", ".luau", ".lua", "/@", "/@.luau", "/@.lua"]; // `@` = module folder name

/// content of a marker file and the Lua expression of the value requiring it must yield
pub fn marker_content(path: &str, marker: &str) -> String {
    match file_kind(path) {
        "json" | "yaml" => format!("\"{}\"", marker),
        "toml" => format!("marker = \"{}\"", marker),
        "txt" => marker.to_string(),
        _ => format!("return \"{}\"", marker),
    }
}
pub fn marker_value(path: &str, marker: &str) -> String {
    match file_kind(path) {
        "toml" => format!("{{\"marker\"=\"{}\"}}", marker),
        _ => format!("\"{}\"", marker),
    }
}

#[derive(Debug, Clone, PartialEq)]
pub enum Obs {
    /// serialised value returned by the executed bundle
    Value(String),
    Error(String),
    Panic(String),
    /// process succeeded but the output is missing / does not run
    Broken(String),
    /// the harness could not build the project (discard)
    Harness(String),
}

pub fn bundle_config(mode: &ModeCfg, extra: &str) -> String {
    format!("{{ bundle: {{ require_mode: {}{} }}, rules: [] }}", mode.json5(), extra)
}

/// bundle `entry` and run the result
pub fn observe_bundle(files: &BTreeMap<String, String>, project: &str, mode: &ModeCfg, entry: &str, fs_root: Option<&str>) -> Obs {
    let mut files = files.clone();
    let cfg_path = join(project, ".darklua.json");
    files.insert(cfg_path.clone(), bundle_config(mode, ""));
    let out_path = join(project, "out/bundle.lua");
    let r = run_darklua(&files, &cfg_path, entry, &out_path, fs_root);
    if let Some(h) = r.harness {
        return Obs::Harness(h);
    }
    if let Some(p) = r.panic {
        return Obs::Panic(p);
    }
    if !r.ok {
        return Obs::Error(r.errors.join("\n"));
    }
    let text = match r.output {
        Some(t) => t,
        None => return Obs::Broken("process reported success but wrote no output".into()),
    };
    match reflua::run_source(&text, Dialect::Luau, 200_000, false) {
        Err(e) => Obs::Broken(format!("the reference parser rejects the bundle: {}\n{}", e, text)),
        Ok(o) => match &o.status {
            Status::Done(v) if v.len() == 1 => Obs::Value(v[0].clone()),
            other => Obs::Broken(format!("the bundle does not return one value: {:?}\n{}", other, text)),
        },
    }
}

/// run `convert_require` over the entry; returns (new text, new require argument)
pub fn convert_entry(files: &BTreeMap<String, String>, project: &str, current: &ModeCfg, target: &ModeCfg, entry: &str, fs_root: Option<&str>) -> Result<(String, Option<String>), Obs> {
    let mut files = files.clone();
    let cfg_path = join(project, ".darklua.json");
    files.insert(cfg_path.clone(), format!("{{ rules: [{{ rule: 'convert_require', current: {}, target: {} }}] }}", current.json5(), target.json5()));
    let out_path = join(project, "out/converted.lua");
    let r = run_darklua(&files, &cfg_path, entry, &out_path, fs_root);
    if let Some(h) = r.harness {
        return Err(Obs::Harness(h));
    }
    if let Some(p) = r.panic {
        return Err(Obs::Panic(p));
    }
    if !r.ok {
        return Err(Obs::Error(r.errors.join("\n")));
    }
    let text = match r.output {
        Some(t) => t,
        None => return Err(Obs::Broken("no output".into())),
    };
    Ok((text.clone(), captured_require(&text)))
}

/// argument of the first `require` call executed by the chunk
pub fn captured_require(text: &str) -> Option<String> {
    let block = reflua::parser::parse_block(text, reflua::parser::Mode::Luau).ok()?;
    let seen = std::rc::Rc::new(std::cell::RefCell::new(None::<String>));
    let seen2 = seen.clone();
    let mut it = Interp::new(Dialect::Luau, 10_000);
    it.require_hook = Some(std::rc::Rc::new(move |_it: &mut Interp, name: &str| {
        if seen2.borrow().is_none() {
            *seen2.borrow_mut() = Some(name.to_string());
        }
        Ok(crate::reflua::value::Value::Nil)
    }));
    let _ = it.run_chunk(&block);
    let r = seen.borrow().clone();
    r
}

// ------------------------------------------------------------------------------------------
// scenarios

struct Scenario {
    fs: bool,
    project: String,
    requirer: String,
    req: String,
    mode: ModeCfg,
    locs: Vec<String>,
    masks: Vec<Vec<u64>>, // per evaluation: one mask per location (or a single mask used for all)
    extra: BTreeMap<String, Option<String>>,
    convert: Option<ModeCfg>,
    tolerate: Vec<String>,
}

fn scenario_of(case: &Case) -> Scenario {
    let strs = |v: &Value| -> Vec<String> { v.as_array().map(|a| a.iter().filter_map(|x| x.as_str().map(|s| s.to_string())).collect()).unwrap_or_default() };
    let mut extra = BTreeMap::new();
    if let Some(o) = case["extra"].as_object() {
        for (k, v) in o {
            extra.insert(k.clone(), v.as_str().map(|s| s.to_string()));
        }
    }
    let masks = case["masks"]
        .as_array()
        .map(|a| {
            a.iter()
                .map(|m| match m {
                    Value::Array(xs) => xs.iter().map(|x| x.as_u64().unwrap_or(0)).collect(),
                    other => vec![other.as_u64().unwrap_or(0)],
                })
                .collect()
        })
        .unwrap_or_default();
    Scenario {
        fs: case["fs"].as_bool().unwrap_or(false),
        project: case["project"].as_str().unwrap_or("").to_string(),
        requirer: case["requirer"].as_str().unwrap_or("").to_string(),
        req: case["req"].as_str().unwrap_or("").to_string(),
        mode: ModeCfg::from_json(&case["mode"]),
        locs: strs(&case["locs"]),
        masks,
        extra,
        convert: if case["convert"].is_object() { Some(ModeCfg::from_json(&case["convert"])) } else { None },
        tolerate: strs(&case["tolerate"]),
    }
}

fn layout_files(sc: &Scenario, masks: &[u64]) -> BTreeMap<String, String> {
    // paths -> marker (content is derived from the path)
    let mfn = sc.mode.module_folder_name();
    let mut files = BTreeMap::new();
    for (i, loc) in sc.locs.iter().enumerate() {
        let mask = if masks.len() == 1 { masks[0] } else { masks.get(i).copied().unwrap_or(0) };
        for (b, suf) in SUFFIXES.iter().enumerate() {
            if mask >> b & 1 == 1 {
                let p = norm(&format!("{}{}", loc, suf.replace('@', mfn)));
                files.insert(p.clone(), marker_content(&p, &p));
            }
        }
        // bits 6..8: decoy module-folder files with another folder name
        let other = if mfn == "init" { "index" } else { "init" };
        for (b, suf) in SUFFIXES[3..].iter().enumerate() {
            if mask >> (6 + b) & 1 == 1 {
                let p = norm(&format!("{}{}", loc, suf.replace('@', other)));
                files.entry(p.clone()).or_insert_with(|| marker_content(&p, &p));
            }
        }
    }
    for (p, c) in &sc.extra {
        let p2 = norm(p);
        files.insert(p2.clone(), c.clone().unwrap_or_else(|| marker_content(&p2, &p2)));
    }
    files
}

fn fs_conflict(files: &BTreeMap<String, String>) -> bool {
    // a path that is both a file and a directory cannot exist on a real file system
    for p in files.keys() {
        let pre = format!("{}/", p);
        if files.keys().any(|q| q.starts_with(&pre)) {
            return true;
        }
    }
    false
}

fn role(sc: &Scenario, file: &str) -> String {
    // location index + suffix: stable name of a candidate across roots
    let mfn = sc.mode.module_folder_name();
    for (i, loc) in sc.locs.iter().enumerate() {
        for suf in SUFFIXES.iter() {
            if norm(&format!("{}{}", loc, suf.replace('@', mfn))) == file {
                return format!("L{}:m{}", i, suf.replace('@', "<mfn>"));
            }
        }
    }
    let rel = file.strip_prefix(&format!("{}/", sc.project)).unwrap_or(file);
    format!("file:{}", rel)
}

/// the first component is a name (source / alias) and a later `..` climbs over it
fn alias_then_parent(req: &str) -> bool {
    let cs = comps(req);
    if cs.is_empty() || cs[0] == "." || cs[0] == ".." || is_abs(req) {
        return false;
    }
    let mut depth: i64 = 0;
    for c in &cs[1..] {
        match *c {
            "." => {}
            ".." => {
                depth -= 1;
                if depth < 0 {
                    return true;
                }
            }
            _ => depth += 1,
        }
    }
    false
}

fn req_kind(req: &str) -> String {
    let first = comps(req).first().copied().unwrap_or("");
    let head = match first {
        "." => "./",
        ".." => "../",
        "@self" => "@self",
        f if f.starts_with('@') => "@alias",
        _ if is_abs(req) => "absolute",
        _ => "source",
    };
    let ext = match extension(req) {
        Some("lua") | Some("luau") => "+luaext",
        Some(_) => "+ext",
        None => "",
    };
    let redundant = if comps(req).iter().skip(1).any(|c| *c == "." || *c == "..") { "+dots" } else { "" };
    format!("{}{}{}", head, ext, redundant)
}

struct EvalOut {
    verdict: Verdict,
}

fn prefix_all(root: &str, sc: &Scenario) -> Scenario {
    let pf = |p: &str| join(root, p);
    Scenario {
        fs: true,
        project: pf(&sc.project),
        requirer: pf(&sc.requirer),
        req: sc.req.clone(),
        mode: sc.mode.clone(),
        locs: sc.locs.iter().map(|l| pf(l)).collect(),
        masks: sc.masks.clone(),
        extra: sc.extra.iter().map(|(k, v)| (pf(k), v.clone())).collect(),
        convert: sc.convert.clone(),
        tolerate: sc.tolerate.clone(),
    }
}

fn strip_root(s: &str, root: Option<&str>) -> String {
    match root {
        Some(r) => s.replace(&format!("{}/", r), "").replace(r, "<root>"),
        None => s.to_string(),
    }
}

fn evaluate(sc: &Scenario, masks: &[u64], cov: &mut Cov, case_for_narrow: &Case) -> EvalOut {
    let narrowed = || {
        let mut c = case_for_narrow.clone();
        c["masks"] = json!([masks]);
        Some(c)
    };
    // file system back end: re-root every path under a scratch directory
    let root_dir = if sc.fs { Some(scratch_dir("c15")) } else { None };
    let root: Option<&str> = root_dir.as_deref();
    let rooted;
    let sc = if let Some(r) = root {
        rooted = prefix_all(r, sc);
        &rooted
    } else {
        sc
    };
    let mut files = layout_files(sc, masks);
    let entry_text = format!("return require(\"{}\")", sc.req);
    files.insert(norm(&sc.requirer), entry_text.clone());
    if root.is_some() && fs_conflict(&files) {
        if let Some(r) = root {
            let _ = std::fs::remove_dir_all(r);
        }
        return EvalOut { verdict: Verdict::discard("layout not realisable on a file system") };
    }
    let out = evaluate_inner(sc, &files, cov, root, &narrowed);
    if let Some(r) = root {
        let _ = std::fs::remove_dir_all(r);
    }
    out
}

fn expected_obs(res: &Res, files: &BTreeMap<String, String>) -> Obs {
    let _ = files;
    match res {
        Res::Error => Obs::Error(String::new()),
        Res::File(f) => {
            if file_kind(f) == "unsupported" {
                Obs::Error(String::new())
            } else {
                Obs::Value(marker_value(f, f))
            }
        }
    }
}

fn obs_matches(obs: &Obs, exp: &Obs) -> bool {
    match (obs, exp) {
        (Obs::Error(_), Obs::Error(_)) => true,
        (Obs::Value(a), Obs::Value(b)) => a == b,
        _ => false,
    }
}

fn describe_obs(sc: &Scenario, obs: &Obs, files: &BTreeMap<String, String>, root: Option<&str>) -> (String, String) {
    // (role, text)
    match obs {
        Obs::Value(v) => {
            for f in files.keys() {
                if marker_value(f, f) == *v && *f != norm(&sc.requirer) {
                    return (role(sc, f), format!("the bundle returns the marker of `{}`", strip_root(f, root)));
                }
            }
            ("other-value".into(), format!("the bundle returns {}", v))
        }
        Obs::Error(e) => ("error".into(), format!("process reports an error: {}", strip_root(&e.chars().take(400).collect::<String>(), root))),
        Obs::Panic(p) => ("panic".into(), format!("darklua panics: {}", p)),
        Obs::Broken(b) => ("broken-bundle".into(), strip_root(b, root)),
        Obs::Harness(h) => ("harness".into(), h.clone()),
    }
}

fn evaluate_inner(sc: &Scenario, files: &BTreeMap<String, String>, cov: &mut Cov, root: Option<&str>, narrowed: &dyn Fn() -> Option<Case>) -> EvalOut {
    let mode = &sc.mode;
    let res = resolve(mode, &sc.project, &MapFs(files), &norm(&sc.requirer), &sc.req);
    if res.accept.iter().any(|r| matches!(r, Res::File(f) if *f == norm(&sc.requirer))) {
        return EvalOut { verdict: Verdict::discard("the require designates the requiring file itself") };
    }
    // known deviation: darklua folds `name/..` in the literal string before looking the name up
    if alias_then_parent(&sc.req) && sc.tolerate.iter().any(|t| t == "alias-then-dotdot") {
        cov.hit("tolerated:alias-then-dotdot");
        return EvalOut { verdict: Verdict::discard("known defect avoided: alias component followed by `..`") };
    }
    // known deviation: in path mode the `sources` of the configuration are looked up before the `.luaurc` aliases (the
    // documentation, and the luau mode, use the `.luaurc` alias first)
    if !mode.luau && alias_defined_twice(mode, &sc.project, &MapFs(files), &norm(&sc.requirer), &sc.req) && sc.tolerate.iter().any(|t| t == "path-source-before-luaurc") {
        cov.hit("tolerated:path-source-before-luaurc");
        return EvalOut { verdict: Verdict::discard("known defect avoided: alias defined by the configuration and by .luaurc in path mode") };
    }
    let mut obs = observe_bundle(files, &sc.project, mode, &sc.requirer, root);
    // known defect: an extension-less file chosen as "the given path" makes the bundler panic
    // (`unreachable!("extension should be defined")`).  When tolerated, the panic is read as the
    // error the documentation implies for an unsupported file type.
    if let Obs::Panic(p) = &obs {
        let chosen_unsupported = res.accept.iter().any(|r| matches!(r, Res::File(f) if extension(f).is_none()));
        if p.contains("extension should be defined") && chosen_unsupported && sc.tolerate.iter().any(|t| t == "extensionless-panic") {
            cov.hit("tolerated:extensionless-panic");
            obs = Obs::Error("(panic: extension should be defined)".into());
        }
    }
    if mode.luau && is_init_file(&sc.requirer) && strip_root(&parent(&sc.requirer), root).is_empty() && matches!(res.head, Head::Relative(_)) && sc.tolerate.iter().any(|t| t == "luau-init-at-cwd") {
        // known defect: for `init.lua(u)` directly in the working directory the parent of the folder
        // is computed as the working directory itself
        cov.hit("tolerated:luau-init-at-cwd");
        return EvalOut { verdict: Verdict::discard("known defect avoided: luau init file directly in the working directory") };
    }
    if let Obs::Harness(h) = &obs {
        let _ = h;
        return EvalOut { verdict: Verdict::discard("harness could not write the layout") };
    }
    let kind = req_kind(&sc.req);
    let tag = format!("{}{}", mode.name(), if root.is_some() { "/fs" } else { "" });
    if let Some(why) = &res.undecided {
        cov.hit(&format!("undecided:{}", why));
        cov.eval(None);
        if let Obs::Panic(p) = &obs {
            if p.contains("extension should be defined") && sc.tolerate.iter().any(|t| t == "extensionless-panic") && files.keys().any(|f| extension(f).is_none() && !f.ends_with(".luaurc")) {
                cov.hit("tolerated:extensionless-panic");
            } else {
                return EvalOut { verdict: Verdict::Violated { signature: format!("panic|{}", panic_location_class(p)), detail: format!("darklua panics while bundling: {}", p), narrowed: narrowed() } };
            }
        }
        return EvalOut { verdict: Verdict::discard(format!("documentation does not decide: {}", why)) };
    }
    let expected: Vec<Obs> = res.accept.iter().map(|r| expected_obs(r, files)).collect();
    let ok = expected.iter().any(|e| obs_matches(&obs, e));
    let existing = res.candidates.iter().filter(|c| files.contains_key(&norm(c))).count();
    if !ok {
        let (obs_role, obs_text) = describe_obs(sc, &obs, files, root);
        let exp_roles: Vec<String> = res
            .accept
            .iter()
            .map(|r| match r {
                Res::Error => "error".to_string(),
                Res::File(f) => {
                    if file_kind(f) == "unsupported" {
                        format!("error(unsupported {})", role(sc, f))
                    } else {
                        role(sc, f)
                    }
                }
            })
            .collect();
        let signature = match &obs {
            Obs::Panic(p) => format!("panic|{}", panic_location_class(p)),
            _ => format!("resolve|{}|{}|exp={}|obs={}", mode.name(), kind, exp_roles.join("/"), obs_role),
        };
        let mut listing: Vec<String> = files.keys().filter(|f| !f.ends_with(".darklua.json")).map(|f| strip_root(f, root)).collect();
        listing.sort();
        let detail = format!(
            "require mode: {}\nrequiring file: {}\nrequire string: \"{}\"\nfiles: {}\ndocumented candidates in order: {}\nexpected: {}\nobserved: {}{}",
            mode.json5(),
            strip_root(&sc.requirer, root),
            sc.req,
            listing.join(", "),
            res.candidates.iter().map(|c| strip_root(c, root)).collect::<Vec<_>>().join(", "),
            res.accept
                .iter()
                .map(|r| match r {
                    Res::Error => "an error (no candidate exists / unknown source)".to_string(),
                    Res::File(f) if file_kind(f) == "unsupported" => format!("an error naming `{}` (first existing candidate, not a supported file type)", strip_root(f, root)),
                    Res::File(f) => format!("the marker of `{}`", strip_root(f, root)),
                })
                .collect::<Vec<_>>()
                .join(" or "),
            obs_text,
            if root.is_some() { "\n(back end: file system)" } else { "" }
        );
        return EvalOut { verdict: Verdict::Violated { signature, detail, narrowed: narrowed() } };
    }
    // ---- coverage
    cov.hit(&format!("mode:{}", tag));
    cov.hit(&format!("req:{}:{}", mode.name(), kind));
    cov.hit(&format!("requirer:{}:{}", mode.name(), if is_init_file(&sc.requirer) { "module-folder file" } else { "ordinary file" }));
    if !mode.luau {
        cov.hit(&format!("module_folder_name:{}", if extension(&mode.mfn).is_some() { "with extension" } else if mode.mfn == "init" { "init" } else { "custom" }));
    }
    cov.hit(&format!("existing_candidates:{}", existing));
    if files.keys().any(|f| f.ends_with(".luaurc")) {
        cov.hit("luaurc_present");
    }
    let unique = res.unique().cloned();
    match &unique {
        Some(Res::File(f)) => {
            if let Some(rank) = res.candidates.iter().position(|c| norm(c) == *f) {
                cov.hit(&format!("chosen_rank:{}{}", rank + 1, if file_kind(f) == "unsupported" { "(unsupported type -> error)" } else { "" }));
            }
            if existing >= 2 {
                cov.hit("precedence_decisions");
            }
            cov.hit("resolved_to_file");
        }
        Some(Res::Error) => cov.hit("expected_error"),
        None => cov.hit(&format!("ambiguous:{}", res.ambiguity.unwrap_or("?"))),
    }
    if let Obs::Error(e) = &obs {
        if let Some(b) = &res.base {
            let named = e.contains(b.as_str()) || e.contains(&sc.req) || e.contains(norm(&sc.requirer).as_str());
            cov.hit(if named { "error_names_path_or_requirer" } else { "error_names_nothing" });
        }
    }
    let mut listing: Vec<&String> = files.keys().collect();
    listing.sort();
    let h = hash64(format!("{}|{}|{}|{}|{:?}|{:?}", mode.json5(), strip_root(&sc.requirer, root), sc.req, root.is_some(), listing.iter().map(|f| strip_root(f, root)).collect::<Vec<_>>(), sc.extra.values().collect::<Vec<_>>()).as_bytes());
    cov.eval(if existing >= 1 && unique.is_some() { Some(h) } else { None });
    if existing >= 2 && cov.want_sample() {
        cov.sample(json!({"mode": mode.json5(), "requirer": strip_root(&sc.requirer, root), "require": sc.req, "files": listing.iter().map(|f| strip_root(f, root)).collect::<Vec<_>>(), "observed": describe_obs(sc, &obs, files, root).1}));
    }

    // ---- convert_require: the converted require must designate the same file under the target mode
    if let (Some(target), Some(Res::File(f))) = (&sc.convert, &unique) {
        if file_kind(f) != "unsupported" {
            let dir = format!("{}->{}", mode.name(), target.name());
            match convert_entry(files, &sc.project, mode, target, &sc.requirer, root) {
                Err(Obs::Harness(_)) => return EvalOut { verdict: Verdict::discard("harness could not write the layout") },
                Err(o) => {
                    let (r, t) = describe_obs(sc, &o, files, root);
                    let signature = match &o {
                        Obs::Panic(p) => format!("convert-panic|{}", panic_location_class(p)),
                        _ => format!("convert|{}|{}|rule-{}", dir, kind, r),
                    };
                    return EvalOut { verdict: Verdict::Violated { signature, detail: format!("convert_require {} on `return require(\"{}\")` in {}: {}", dir, sc.req, strip_root(&sc.requirer, root), t), narrowed: narrowed() } };
                }
                Ok((text, new_req)) => {
                    let mut files2 = files.clone();
                    files2.insert(norm(&sc.requirer), text.clone());
                    let obs2 = observe_bundle(&files2, &sc.project, target, &sc.requirer, root);
                    let want = Obs::Value(marker_value(f, f));
                    if let Obs::Harness(_) = &obs2 {
                        return EvalOut { verdict: Verdict::discard("harness could not write the layout") };
                    }
                    if !obs_matches(&obs2, &want) {
                        let (r2, t2) = describe_obs(sc, &obs2, &files2, root);
                        // whom to blame: the new string (model) or the target-mode resolution
                        let model2 = new_req.as_ref().map(|q| resolve(target, &sc.project, &MapFs(&files2), &norm(&sc.requirer), q));
                        // known defect classes (tolerated only when the case says so)
                        let tol = |t: &str| sc.tolerate.iter().any(|x| x == t);
                        let fr = strip_root(f, root);
                        if tol("convert-cwd-relative") && !strip_root(&parent(&sc.requirer), root).is_empty() {
                            // darklua's resolved path keeps a leading `./` or `../` when the head of the path
                            // is the working directory (or above it): generate_require then mistakes it for
                            // a path relative to the requiring file
                            let dotted = fr.starts_with("..")
                                || match &res.head {
                                    Head::Relative(d) | Head::SelfAlias(d) => {
                                        let d = strip_root(d, root);
                                        d.is_empty() || d.starts_with("..")
                                    }
                                    Head::ConfigAlias(_, v) => strip_root(&sc.project, root).is_empty() && v.starts_with('.'),
                                    _ => false,
                                };
                            if dotted {
                                cov.hit("tolerated:convert-cwd-relative");
                                return EvalOut { verdict: Verdict::Held };
                            }
                        }
                        if tol("luau-init-at-cwd") && target.luau && is_init_file(&sc.requirer) && strip_root(&parent(&sc.requirer), root).is_empty() {
                            cov.hit("tolerated:luau-init-at-cwd");
                            return EvalOut { verdict: Verdict::Held };
                        }
                        if tol("convert-short-form-shadowed") {
                            // the generated string is the short form (extension / folder file dropped) and a
                            // sibling candidate of higher precedence exists at the same base
                            if let Some(m2) = &model2 {
                                if let Some(b2) = &m2.base {
                                    let short_of_f = {
                                        let mut v = vec![];
                                        if let Some(e) = extension(f) {
                                            if e == "lua" || e == "luau" {
                                                let noext = f[..f.len() - e.len() - 1].to_string();
                                                if let Some(n) = file_name(&noext) {
                                                    if n == target.module_folder_name() {
                                                        v.push(parent(&noext));
                                                    }
                                                }
                                                v.push(noext);
                                            }
                                        }
                                        if file_name(f).as_deref() == Some(target.module_folder_name()) {
                                            v.push(parent(f));
                                        }
                                        v
                                    };
                                    if short_of_f.contains(b2) {
                                        cov.hit("tolerated:convert-short-form-shadowed");
                                        return EvalOut { verdict: Verdict::Held };
                                    }
                                }
                            }
                        }
                        let blame = match &model2 {
                            Some(m) if m.undecided.is_none() && m.accept == vec![Res::File(f.clone())] => "the generated string designates the right file per the documentation: the target-mode resolution is at fault",
                            Some(m) if m.undecided.is_some() => "the documentation does not decide the generated string",
                            _ => "per the documentation the generated string does not designate the original file",
                        };
                        let unchanged = new_req.as_deref() == Some(sc.req.as_str());
                        let signature = format!("convert|{}|{}|exp={}|obs={}{}", dir, kind, role(sc, f), r2, if unchanged { "|unchanged" } else { "" });
                        let mut listing: Vec<String> = files.keys().filter(|f| !f.ends_with(".darklua.json")).map(|f| strip_root(f, root)).collect();
                        listing.sort();
                        let detail = format!(
                            "convert_require current={} target={}\nrequiring file: {}\noriginal: require(\"{}\") -> resolves (model and darklua agree) to `{}`\nconverted text: {}\nconverted require string: {:?}\nfiles: {}\nunder the target mode: {}\n({})",
                            mode.json5(),
                            target.json5(),
                            strip_root(&sc.requirer, root),
                            sc.req,
                            strip_root(f, root),
                            text.trim(),
                            new_req,
                            listing.join(", "),
                            t2,
                            blame
                        );
                        return EvalOut { verdict: Verdict::Violated { signature, detail, narrowed: narrowed() } };
                    }
                    cov.hit(&format!("convert_held:{}", dir));
                    cov.hit(&format!("convert_req:{}:{}", dir, kind));
                    if new_req.as_deref() != Some(sc.req.as_str()) {
                        cov.hit("convert_changed_the_string");
                    }
                    if let Some(q) = &new_req {
                        cov.hit(&format!("convert_generated:{}", req_kind(q)));
                    }
                }
            }
        }
    }
    EvalOut { verdict: Verdict::Held }
}

// ------------------------------------------------------------------------------------------
// deterministic grid

fn luaurc(target: &str) -> String {
    format!("{{\"aliases\": {{\"rc\": \"{}\"}}}}", target)
}

const CORE_MASKS: [u64; 14] = [0, 1, 2, 4, 8, 16, 32, 6, 48, 36, 18, 20, 34, 62];

fn path_sources() -> BTreeMap<String, String> {
    [("src", "./lib"), ("@pkg", "./lib"), ("mfile", "./lib/m.lua")].iter().map(|(a, b)| (a.to_string(), b.to_string())).collect()
}
fn luau_aliases() -> BTreeMap<String, String> {
    [("@pkg", "./lib"), ("@mfile", "./lib/m.lua")].iter().map(|(a, b)| (a.to_string(), b.to_string())).collect()
}

fn locations(project: &str, dir: &str) -> Vec<String> {
    let mut v = vec![norm(&join(dir, "m")), norm(&join(&parent(dir), "m")), norm(&join(&parent(&parent(dir)), "m")), norm(&join(project, "lib/m")), norm(&join(project, "lib2/m"))];
    let mut seen = std::collections::BTreeSet::new();
    v.retain(|x| seen.insert(x.clone()));
    v
}

fn build_grid(tier: Tier) -> Vec<Case> {
    let mut out = vec![];
    let tolerate = json!(["extensionless-panic", "convert-cwd-relative", "convert-short-form-shadowed", "luau-init-at-cwd", "alias-then-dotdot", "path-source-before-luaurc"]);
    let mut n = 0u64;
    for (ki, project) in ["p", "", "/r/p"].iter().enumerate() {
        for flat in [false, true] {
            let dir = if flat { project.to_string() } else { join(project, "a/d") };
            let locs = locations(project, &dir);
            for requirer_name in ["main.lua", "init.lua", "init.luau"] {
                let requirer = join(&dir, requirer_name);
                let mut modes: Vec<ModeCfg> = vec![];
                for mfn in ["init", "index", "mod", "init.lua"] {
                    let mut m = ModeCfg::path();
                    m.mfn = mfn.to_string();
                    m.sources = path_sources();
                    modes.push(m);
                }
                let mut l = ModeCfg::luau();
                l.sources = luau_aliases();
                modes.push(l);
                for mode in &modes {
                    let mut strings: Vec<String> = ["./m", "./m.lua", "./m.luau", "../d/m", "./x/../m", "././m", "../m", "./m/init", "@pkg/m", "@rc/m"].iter().map(|s| s.to_string()).collect();
                    if mode.luau {
                        strings.extend(["@self/m", "@nosuch/m", "@mfile", "@self/sub/../m"].iter().map(|s| s.to_string()));
                    } else {
                        strings.extend(["src/m", "nosuch/m", "mfile", "src/x/../m"].iter().map(|s| s.to_string()));
                        if is_abs(project) {
                            strings.push(format!("{}/m", dir));
                        }
                    }
                    for req in &strings {
                        // .luaurc variants
                        let mut variants: Vec<(BTreeMap<String, Option<String>>, Option<bool>)> = vec![];
                        let rc_root = join(project, ".luaurc");
                        if req.starts_with("@rc") {
                            let mut e = BTreeMap::new();
                            e.insert(rc_root.clone(), Some(luaurc("./lib2")));
                            variants.push((e.clone(), None));
                            variants.push((e.clone(), Some(false)));
                            if !flat {
                                // the nearest configuration wins
                                let mut e2 = e.clone();
                                e2.insert(join(&dir, ".luaurc"), Some(luaurc("../../lib")));
                                variants.push((e2, Some(true)));
                            }
                        } else {
                            let mut e = BTreeMap::new();
                            if n % 2 == 0 {
                                e.insert(rc_root.clone(), Some(luaurc("./lib2")));
                            }
                            variants.push((e, None));
                            if req.starts_with("@pkg") {
                                // the same alias in the configuration (-> lib) and in `.luaurc` (-> lib2): the documentation
                                // loads the `.luaurc` aliases before it looks at the configuration
                                let mut e = BTreeMap::new();
                                e.insert(rc_root.clone(), Some("{\"aliases\": {\"pkg\": \"./lib2\"}}".to_string()));
                                variants.push((e.clone(), None));
                                variants.push((e, Some(false)));
                            }
                        }
                        for (extra, use_rc) in variants {
                            let mut m = mode.clone();
                            m.use_rc = use_rc;
                            // target of the conversion check
                            let mut target = if m.luau { ModeCfg::path() } else { ModeCfg::luau() };
                            if n % 3 != 0 {
                                target.sources = [("@pkg".to_string(), "./lib".to_string())].into_iter().collect();
                            }
                            if !target.luau && n % 4 == 1 {
                                target.mfn = "index".into();
                            }
                            target.use_rc = use_rc;
                            let full = ki == 0 && !flat;
                            let masks: Vec<u64> = if full || tier == Tier::Thorough { (0..64).collect() } else { CORE_MASKS.to_vec() };
                            out.push(json!({
                                "kind": "grid", "fs": false, "project": project, "requirer": requirer, "req": req, "mode": m.to_json(),
                                "locs": locs, "masks": masks, "extra": extra, "convert": target.to_json(), "tolerate": tolerate,
                            }));
                            n += 1;
                        }
                    }
                }
            }
        }
    }
    // `..` / `../..`: the designated path is a directory above the requiring file; the candidates are that path with an
    // extension first, the module-folder file inside it afterwards
    for project in ["p", ""] {
        let dir = join(project, "a/d");
        let locs = vec![norm(&join(&dir, "m"))];
        let mut modes: Vec<ModeCfg> = vec![];
        for mfn in ["init", "index"] {
            let mut m = ModeCfg::path();
            m.mfn = mfn.to_string();
            modes.push(m);
        }
        modes.push(ModeCfg::luau());
        for mode in &modes {
            for (requirer, req) in [("m/t/spec.lua", ".."), ("m/t/u/spec.luau", "../.."), ("m/t/spec.lua", "../."), ("m/t/spec.lua", "../../m"), ("m/t/init.lua", "..")] {
                let target = if mode.luau { ModeCfg::path() } else { ModeCfg::luau() };
                // (the bare path `m` itself cannot be a file: it is the directory the requiring file lives in)
                let masks: Vec<u64> = (0..64).filter(|m| m & 1 == 0).collect();
                out.push(json!({
                    "kind": "grid", "fs": false, "project": project, "requirer": join(&dir, requirer), "req": req, "mode": mode.to_json(),
                    "locs": locs, "masks": masks, "extra": {}, "convert": target.to_json(), "tolerate": tolerate,
                }));
            }
        }
    }
    out
}

/// fixed cases that exhibit the known disagreements between documentation and code
fn known_cases() -> Vec<Case> {
    let mut v = vec![];
    // 1. an extension-less file is the first candidate: bundling it panics
    v.push(json!({"kind": "known", "fs": false, "project": "p", "requirer": "p/a/d/main.lua", "req": "./m", "mode": ModeCfg::path().to_json(),
        "locs": ["p/a/d/m"], "masks": [1, 5], "extra": {}, "convert": null, "tolerate": []}));
    // 2. luau mode: the documentation's own example `require("images")` with an alias that has no `@`
    let mut l = ModeCfg::luau();
    l.sources.insert("pkg".into(), "./lib".into());
    v.push(json!({"kind": "known", "fs": false, "project": "p", "requirer": "p/a/d/main.lua", "req": "pkg/m", "mode": l.to_json(),
        "locs": ["p/lib/m"], "masks": [4], "extra": {}, "convert": null, "tolerate": []}));
    // 3. the literal string is normalised before the alias is looked up
    v.push(json!({"kind": "known", "fs": false, "project": "p", "requirer": "p/a/d/init.lua", "req": "@self/../m", "mode": ModeCfg::luau().to_json(),
        "locs": ["p/a/m"], "masks": [2], "extra": {}, "convert": null, "tolerate": []}));
    let mut pm = ModeCfg::path();
    pm.sources = path_sources();
    v.push(json!({"kind": "known", "fs": false, "project": "p", "requirer": "p/a/d/main.lua", "req": "src/../lib/m", "mode": pm.to_json(),
        "locs": ["p/lib/m"], "masks": [4], "extra": {}, "convert": null, "tolerate": []}));
    // 4. luau mode, `init.luau` directly in the working directory: `./m` must look beside the folder
    v.push(json!({"kind": "known", "fs": false, "project": "", "requirer": "init.luau", "req": "./m", "mode": ModeCfg::luau().to_json(),
        "locs": ["m", "../m"], "masks": [2], "extra": {}, "convert": null, "tolerate": []}));
    // 5. convert_require: resolved path anchored at the working directory taken for a requirer-relative one
    let mut lm = ModeCfg::luau();
    lm.sources.insert("@pkg".into(), "./lib".into());
    v.push(json!({"kind": "known", "fs": false, "project": "", "requirer": "a/d/main.lua", "req": "@pkg/m", "mode": lm.to_json(),
        "locs": ["lib/m"], "masks": [2], "extra": {}, "convert": ModeCfg::path().to_json(), "tolerate": []}));
    // 7. path mode: an alias defined by the configuration and by `.luaurc`: the `.luaurc` one is documented to be used
    let mut pm2 = ModeCfg::path();
    pm2.sources.insert("@pkg".into(), "./lib".into());
    v.push(json!({"kind": "known", "fs": false, "project": "p", "requirer": "p/a/d/main.lua", "req": "@pkg/m", "mode": pm2.to_json(),
        "locs": ["p/lib/m", "p/lib2/m"], "masks": [2], "extra": {"p/.luaurc": "{\"aliases\": {\"pkg\": \"./lib2\"}}"}, "convert": null, "tolerate": []}));
    // 6. convert_require: explicit extension dropped, a sibling of higher precedence takes over
    v.push(json!({"kind": "known", "fs": false, "project": "p", "requirer": "p/a/d/main.lua", "req": "./m.lua", "mode": ModeCfg::path().to_json(),
        "locs": ["p/a/d/m"], "masks": [6], "extra": {}, "convert": ModeCfg::luau().to_json(), "tolerate": []}));
    v
}

fn random_case(r: &mut Rng) -> Case {
    let fs = r.chance(1, 4);
    let project = if fs { "w".to_string() } else { r.pick(&["p", "", "/r/p", "proj/sub"]).to_string() };
    let depth = r.below(3);
    let dir = match depth {
        0 => project.clone(),
        1 => join(&project, "d"),
        _ => join(&project, "a/d"),
    };
    let luau = r.chance(2, 5);
    let mut mode = if luau { ModeCfg::luau() } else { ModeCfg::path() };
    if !luau {
        mode.mfn = r.pick(&["init", "init", "index", "mod", "init.lua", "main.luau", "Init"]).to_string();
    }
    let requirer_name = if luau { *r.pick(&["main.lua", "init.lua", "init.luau", "mod.luau", "init"]) } else { *r.pick(&["main.lua", "init.lua", "init.luau", "index.lua", "x.luau"]) };
    let requirer = join(&dir, requirer_name);
    // the stem: plain, dotted, data file (a stem `init` next to an init requirer would be the requirer itself)
    let stem = r.pick(&["m", "m", "m", "m.json", "m.txt", "m.toml", "m.yml", "mod.name", "M", "init"]).to_string();
    let sub = r.pick(&["", "", "sub/", "sub/deep/"]).to_string();
    // sources / aliases
    let lib = r.pick(&["./lib", "lib", "./lib/nested", "./a", "."]).to_string();
    let mut sources = BTreeMap::new();
    let alias_name = if luau { "@pkg".to_string() } else { r.pick(&["@pkg", "src", "pkg-1"]).to_string() };
    if r.chance(3, 4) {
        sources.insert(alias_name.clone(), lib.clone());
    }
    if r.chance(1, 4) {
        sources.insert(if luau { "@file".into() } else { "file".to_string() }, format!("{}/{}{}.lua", lib, sub, stem));
    }
    mode.sources = sources;
    let mut extra: BTreeMap<String, Option<String>> = BTreeMap::new();
    let rc_kind = r.below(5);
    let rc_target = r.pick(&["./lib2", "lib2", "./lib"]).to_string();
    match rc_kind {
        0 => {
            extra.insert(join(&project, ".luaurc"), Some(luaurc(&rc_target)));
        }
        1 if depth > 0 => {
            extra.insert(join(&project, ".luaurc"), Some(luaurc("./lib")));
            extra.insert(join(&dir, ".luaurc"), Some(luaurc(&rc_target)));
        }
        _ => {}
    }
    if r.chance(1, 6) {
        mode.use_rc = Some(r.bool());
    }
    let head = r.below(12);
    let tail = format!("{}{}", sub, stem);
    let dname = file_name(&dir).unwrap_or_else(|| "d".into());
    let mut req = match head {
        0 | 1 => format!("./{}", tail),
        2 => format!("../{}", tail),
        3 => format!("../{}/{}", dname, tail),
        4 => format!("./x/../{}", tail),
        5 => format!("././{}", tail),
        6 => format!("{}/{}", alias_name, tail),
        7 => format!("@rc/{}", tail),
        8 if luau => format!("@self/{}", tail),
        8 => "file".to_string(),
        9 if luau => "@file".to_string(),
        9 => format!("../../{}", tail),
        10 => format!("./{}/{}", tail, if luau { "init" } else { mode.mfn.as_str() }),
        _ => format!("@unknown/{}", tail),
    };
    if r.chance(1, 5) && extension(&req).is_none() {
        req.push_str(*r.pick(&[".lua", ".luau"]));
    }
    // candidate locations: wherever a (right or wrong) resolver could look
    let mut locs: Vec<String> = vec![];
    for base in [dir.clone(), parent(&dir), parent(&parent(&dir)), norm(&join(&project, &lib)), norm(&join(&project, "lib2")), norm(&join(&dir, "lib2")), norm(&join(&dir, &lib))] {
        let l = norm(&join(&base, &tail));
        if !locs.contains(&l) && (!fs || !l.starts_with("..")) {
            locs.push(l);
        }
    }
    if fs {
        locs.retain(|l| l.starts_with("w/") || l == "w");
    }
    let allow_bare = stem != "m" && stem != "M" && stem != "init" && stem != "mod.name" || r.chance(1, 8);
    let neval = 6;
    let mut masks = vec![];
    for _ in 0..neval {
        let mut per_loc = vec![];
        let same = r.chance(1, 2);
        let mut base_mask = 0u64;
        for i in 0..locs.len() {
            if i == 0 || !same {
                base_mask = 0;
                let density = 1 + r.below(4);
                for b in 0..9 {
                    if r.below(5) < density && (b < 6 || r.chance(1, 3)) {
                        base_mask |= 1 << b;
                    }
                }
                if !allow_bare {
                    base_mask &= !1;
                }
                if fs && base_mask & 1 == 1 {
                    // a bare file excludes the folder of the same name on a real file system
                    if r.bool() {
                        base_mask &= 1 | 2 | 4;
                    } else {
                        base_mask &= !1;
                    }
                }
            }
            per_loc.push(base_mask);
        }
        masks.push(per_loc);
    }
    // conversion target
    let mut target = if luau { ModeCfg::path() } else { ModeCfg::luau() };
    if r.bool() {
        target.sources.insert("@pkg".into(), lib.clone());
    }
    if !target.luau && r.chance(1, 4) {
        target.mfn = mode.mfn.clone();
    }
    target.use_rc = mode.use_rc;
    json!({
        "kind": "random", "fs": fs, "project": project, "requirer": requirer, "req": req, "mode": mode.to_json(),
        "locs": locs, "masks": masks, "extra": extra, "convert": if r.chance(4, 5) { target.to_json() } else { Value::Null },
        "tolerate": ["extensionless-panic", "convert-cwd-relative", "convert-short-form-shadowed", "luau-init-at-cwd", "alias-then-dotdot", "path-source-before-luaurc"],
    })
}

impl C15 {
    fn grid(&mut self, tier: Tier) -> &Vec<Case> {
        let slot = if tier == Tier::Quick { &mut self.grid_quick } else { &mut self.grid_thorough };
        if slot.is_none() {
            let mut g = known_cases();
            g.extend(build_grid(tier));
            *slot = Some(g);
        }
        slot.as_ref().unwrap()
    }
}

impl Monitor for C15 {
    fn id(&self) -> &'static str {
        "C15"
    }
    fn rule_text(&self) -> String {
        "one evaluation = one (file layout, require mode configuration, requiring file, require string): the entry `return require(\"<string>\")` is bundled and executed; every candidate file returns its own path as marker. Deterministic part: for project root in {relative dir, cwd, absolute} x requiring file {nested, directly in the project dir} x {main.lua, init.lua, init.luau} x mode {path with module_folder_name init/index/custom/with-extension, luau} x ~14 require strings (./, ../, redundant dots, explicit extension, explicit folder file, source, @alias, .luaurc alias (root / disabled / nearest wins), unknown source, source mapped to a file, @self, absolute) the same subset of the 6 documented candidates is placed at every location a right or wrong resolver could look at (all 64 subsets for the relative-root nested block, 14 subsets elsewhere in quick, 64 in thorough); each resolved case is then converted by convert_require to the other mode and re-bundled under the target mode. Random part: other stems (data files, dotted names), sub-folders, different subsets per location, decoy folder files of another module_folder_name, sources to nested dirs / files, in-memory and real file-system back ends. An evaluation is non-trivial when the documentation decides it uniquely and at least one documented candidate exists; distinct = hash of (mode configuration, requiring file, string, file list).".into()
    }
    fn assumptions(&self) -> Vec<String> {
        vec![
            "the expected file comes from a lexical model written from docs/path-require-mode, docs/luau-require-mode and the statement of C15; where the documentation can be read in several ways every reading is accepted (counted as ambiguous) and undecidable requires are discarded".into(),
            "reference interpreter executes the bundle (only `return <call>` and the bundle prelude are exercised)".into(),
            "`.luaurc` aliases are written without `@`, used with `@`, and relative to the .luaurc file (Luau RFC referenced by the documentation)".into(),
            "an extension-less or otherwise unsupported first candidate must be reported as an error (any error text is accepted)".into(),
        ]
    }
    fn plan(&self, tier: Tier) -> Plan {
        let mut me = C15::default();
        let det = me.grid(tier).len() as u64;
        Plan { deterministic: det, max_cases: u64::MAX, budget_s: if tier == Tier::Quick { 30.0 } else { 600.0 } }
    }
    fn floors(&self, _tier: Tier) -> Vec<(String, u64)> {
        vec![("held".into(), 70), ("precedence_decisions".into(), 700), ("convert_held:path->luau".into(), 500), ("convert_held:luau->path".into(), 130), ("mode:path/fs".into(), 20), ("mode:luau/fs".into(), 10)]
    }
    fn gen(&mut self, tier: Tier, seed: u64, index: u64) -> Option<Case> {
        let g = self.grid(tier);
        if (index as usize) < g.len() {
            return Some(g[index as usize].clone());
        }
        let mut r = case_rng("C15", seed, index);
        Some(random_case(&mut r))
    }
    fn run(&mut self, case: &Case, cov: &mut Cov) -> Verdict {
        let sc = scenario_of(case);
        let mut held = 0;
        let mut last_discard = None;
        for masks in &sc.masks {
            let out = evaluate(&sc, masks, cov, case);
            match out.verdict {
                Verdict::Held => held += 1,
                Verdict::Discard(r) => last_discard = Some(r),
                v @ Verdict::Violated { .. } => return v,
            }
        }
        if held > 0 {
            Verdict::Held
        } else {
            Verdict::Discard(last_discard.unwrap_or_else(|| "no evaluation".into()))
        }
    }
    fn shrink(&mut self, case: &Case) -> Vec<Case> {
        let mut out = vec![];
        let sc = scenario_of(case);
        if sc.masks.len() != 1 {
            return out;
        }
        let masks = &sc.masks[0];
        let per_loc: Vec<u64> = if masks.len() == 1 { vec![masks[0]; sc.locs.len()] } else { masks.clone() };
        // file-system -> memory
        if sc.fs {
            let mut c = case.clone();
            c["fs"] = json!(false);
            out.push(c);
        }
        // drop the conversion
        if sc.convert.is_some() {
            let mut c = case.clone();
            c["convert"] = Value::Null;
            out.push(c);
        }
        // drop a location
        for i in 0..sc.locs.len() {
            if sc.locs.len() > 1 {
                let mut locs = sc.locs.clone();
                locs.remove(i);
                let mut m = per_loc.clone();
                m.remove(i);
                let mut c = case.clone();
                c["locs"] = json!(locs);
                c["masks"] = json!([m]);
                out.push(c);
            }
        }
        // remove one file
        for i in 0..per_loc.len() {
            for b in 0..9 {
                if per_loc[i] >> b & 1 == 1 {
                    let mut m = per_loc.clone();
                    m[i] &= !(1 << b);
                    let mut c = case.clone();
                    c["masks"] = json!([m]);
                    out.push(c);
                }
            }
        }
        for k in sc.extra.keys() {
            let mut c = case.clone();
            if let Some(o) = c["extra"].as_object_mut() {
                o.remove(k);
            }
            out.push(c);
        }
        // fewer sources
        for k in sc.mode.sources.keys() {
            let mut c = case.clone();
            if let Some(o) = c["mode"]["sources"].as_object_mut() {
                o.remove(k);
            }
            out.push(c);
        }
        out
    }
    fn classify(&mut self, case: &Case, signature: &str) -> String {
        let sc = scenario_of(case);
        let masks = match sc.masks.first() {
            Some(m) => m.clone(),
            None => return signature.to_string(),
        };
        let t = known_triggers(&sc, &masks, signature.starts_with("convert"));
        if t.is_empty() {
            signature.to_string()
        } else {
            format!("{}|trigger={}", signature, t.join("+"))
        }
    }
    fn case_cpu_limit_s(&self) -> f64 {
        30.0
    }
}

/// shapes of the (narrowed) case that match a known defect: appended to the signature so that a
/// known finding only matches witnesses of its own trigger class
fn known_triggers(sc: &Scenario, masks: &[u64], convert: bool) -> Vec<&'static str> {
    let mut files = layout_files(sc, masks);
    files.insert(norm(&sc.requirer), String::new());
    let res = resolve(&sc.mode, &sc.project, &MapFs(&files), &norm(&sc.requirer), &sc.req);
    let mut t: Vec<&'static str> = vec![];
    if res.accept.iter().any(|r| matches!(r, Res::File(f) if extension(f).is_none())) {
        t.push("extensionless-first-candidate");
    }
    if alias_then_parent(&sc.req) {
        t.push("alias-then-dotdot");
    }
    if !sc.mode.luau && alias_defined_twice(&sc.mode, &sc.project, &MapFs(&files), &norm(&sc.requirer), &sc.req) {
        t.push("path-source-before-luaurc");
    }
    if sc.mode.luau {
        if let Head::ConfigAlias(n, _) = &res.head {
            if !n.starts_with('@') {
                t.push("luau-alias-without-at");
            }
        }
    }
    let at_cwd_init = is_init_file(&sc.requirer) && parent(&sc.requirer).is_empty();
    if at_cwd_init && ((sc.mode.luau && matches!(res.head, Head::Relative(_))) || (convert && sc.convert.as_ref().map(|c| c.luau).unwrap_or(false))) {
        t.push("luau-init-at-cwd");
    }
    if convert {
        if let (Some(target), Some(Res::File(f))) = (&sc.convert, res.unique()) {
            if !parent(&sc.requirer).is_empty() {
                let dotted = f.starts_with("..")
                    || match &res.head {
                        Head::Relative(d) | Head::SelfAlias(d) => d.is_empty() || d.starts_with(".."),
                        Head::ConfigAlias(_, v) => sc.project.is_empty() && v.starts_with('.'),
                        _ => false,
                    };
                if dotted {
                    t.push("convert-cwd-anchored");
                }
            }
            let mut shorts = vec![];
            if let Some(e) = extension(f) {
                if e == "lua" || e == "luau" {
                    let noext = f[..f.len() - e.len() - 1].to_string();
                    if let Some(n) = file_name(&noext) {
                        if n == target.module_folder_name() {
                            shorts.push(parent(&noext));
                        }
                    }
                    shorts.push(noext);
                }
            }
            for b in shorts {
                let c = candidates_append(&b, target.module_folder_name());
                if first_file(&MapFs(&files), &c) != Res::File(f.clone()) {
                    t.push("convert-short-form-shadowed");
                    break;
                }
            }
        }
    }
    t
}
