//! C08 — static evaluation never disagrees with real execution (bounded-exhaustive comparison of
//! darklua's Evaluator with the reference interpreter).

use crate::dl;
use crate::framework::*;
use crate::reflua::ast::*;
use crate::reflua::interp::Status;
use crate::reflua::literal::Dialect;
use crate::reflua::numfmt;
use crate::reflua::print::print_expr;
use crate::rng::{hash64, Rng};
use darklua_core::nodes as dn;
use darklua_core::process::{Evaluator, LuaValue};
use serde_json::json;

#[derive(Default)]
pub struct C08 {}

/// literal leaves (as Lua source text)
const LITERALS: [&str; 38] = [
    "nil", "true", "false", "0", "-0", "1", "-1", "2", "0.5", "0.1", "(1/3)", "9007199254740992", "9007199254740993", "1e15", "1e16", "1e21", "1e100", "1e308", "5e-324", "1e-7", "(1/0)", "(-1/0)", "(0/0)", "''", "'a'", "'0'", "'10'", "'0x10'", "' 5 '", "'1e2'", "'-3'", "'inf'", "'nan'",
    "'abc'", "'\\0'", "'\\255'", "'1e'", "3",
];
/// opaque leaves
const OPAQUE: [&str; 10] = ["x", "t.f", "t[k]", "f()", "...", "(f())", "{}", "function() end", "(...)", "{f()}"];

const SMALL: [&str; 9] = ["nil", "false", "1", "'a'", "'10'", "x", "f()", "(0/0)", "{f()}"];

const BINOPS: [&str; 15] = ["+", "-", "*", "/", "%", "^", "..", "==", "~=", "<", "<=", ">", ">=", "and", "or"];
const UNOPS: [&str; 3] = ["-", "not ", "#"];

fn leaves() -> Vec<&'static str> {
    LITERALS.iter().chain(OPAQUE.iter()).copied().collect()
}

/// number of depth-1 expressions
fn depth1_count() -> u64 {
    let n = leaves().len() as u64;
    let m = SMALL.len() as u64;
    n + 3 * n + (BINOPS.len() as u64 + 1) * n * n + 2 * n * n + 2 * m * m * m
}

/// the i-th depth-1 expression over the full leaf set
fn depth1(i: u64) -> Option<String> {
    let l = leaves();
    let n = l.len() as u64;
    let mut i = i;
    if i < n {
        return Some(l[i as usize].to_string());
    }
    i -= n;
    if i < 3 * n {
        return Some(format!("{}{}", UNOPS[(i / n) as usize], l[(i % n) as usize]));
    }
    i -= 3 * n;
    let nb = BINOPS.len() as u64 + 1;
    if i < nb * n * n {
        let op = i / (n * n);
        let a = l[((i / n) % n) as usize];
        let b = l[(i % n) as usize];
        if op == BINOPS.len() as u64 {
            return Some(format!("{} // {}", a, b));
        }
        return Some(format!("{} {} {}", a, BINOPS[op as usize], b));
    }
    i -= nb * n * n;
    if i < n * n {
        // if-expression with a leaf condition
        let a = l[(i / n) as usize];
        let b = l[(i % n) as usize];
        return Some(format!("if {} then {} else 'E'", a, b));
    }
    i -= n * n;
    if i < n * n {
        // interpolated string with two holes
        let a = l[(i / n) as usize];
        let b = l[(i % n) as usize];
        if a.contains('`') || b.contains('`') {
            return Some("nil".into());
        }
        return Some(format!("`{{{}}}-{{{}}}`", a, b));
    }
    i -= n * n;
    // if-expressions with elseif branches over the small leaf set: every combination of known / unknown conditions
    let m = SMALL.len() as u64;
    if i < m * m * m {
        let (a, b, c) = (SMALL[(i / (m * m)) as usize], SMALL[((i / m) % m) as usize], SMALL[(i % m) as usize]);
        return Some(format!("if {} then 'T' elseif {} then {} else 'E'", a, b, c));
    }
    i -= m * m * m;
    if i < m * m * m {
        let (a, b, c) = (SMALL[(i / (m * m)) as usize], SMALL[((i / m) % m) as usize], SMALL[(i % m) as usize]);
        return Some(format!("if {} then 1 elseif {} then 2 elseif {} then 3 else 4", a, b, c));
    }
    None
}

/// thorough tier: every depth-2 expression over the small leaf set - `(a op1 b) op2 c`, `a op1 (b op2 c)` with the 16
/// binary operators, and the three unary operators around every `a op b`
fn depth2_count() -> u64 {
    let m = SMALL.len() as u64;
    let nb = BINOPS.len() as u64 + 1;
    2 * m * m * m * nb * nb + 3 * m * m * nb
}

fn binop_text(i: u64) -> &'static str {
    if (i as usize) < BINOPS.len() {
        BINOPS[i as usize]
    } else {
        "//"
    }
}

fn depth2(i: u64) -> Option<String> {
    let m = SMALL.len() as u64;
    let nb = BINOPS.len() as u64 + 1;
    let mut i = i;
    let block = m * m * m * nb * nb;
    if i < 2 * block {
        let shape = i / block;
        i %= block;
        let c = SMALL[(i % m) as usize];
        i /= m;
        let b = SMALL[(i % m) as usize];
        i /= m;
        let a = SMALL[(i % m) as usize];
        i /= m;
        let o2 = binop_text(i % nb);
        let o1 = binop_text(i / nb);
        return Some(if shape == 0 { format!("({} {} {}) {} {}", a, o1, b, o2, c) } else { format!("{} {} ({} {} {})", a, o1, b, o2, c) });
    }
    i -= 2 * block;
    if i < 3 * m * m * nb {
        let u = UNOPS[(i % 3) as usize];
        i /= 3;
        let b = SMALL[(i % m) as usize];
        i /= m;
        let a = SMALL[(i % m) as usize];
        i /= m;
        return Some(format!("{}({} {} {})", u, a, binop_text(i), b));
    }
    None
}

fn depth2_random(r: &mut Rng, leaves: &[&str]) -> String {
    fn go(r: &mut Rng, leaves: &[&str], depth: u32) -> String {
        if depth == 0 || r.chance(1, 5) {
            return r.pick(leaves).to_string();
        }
        match r.below(12) {
            0 | 1 => format!("{}{}", r.pick(&UNOPS), wrap(go(r, leaves, depth - 1))),
            2 => format!("({})", go(r, leaves, depth - 1)),
            3 if r.bool() => format!("if {} then {} else {}", go(r, leaves, depth - 1), go(r, leaves, depth - 1), go(r, leaves, depth - 1)),
            3 => format!("if {} then {} elseif {} then {} else {}", go(r, leaves, depth - 1), go(r, leaves, depth - 1), go(r, leaves, depth - 1), go(r, leaves, depth - 1), go(r, leaves, depth - 1)),
            _ => format!("{} {} {}", wrap(go(r, leaves, depth - 1)), r.pick(&BINOPS), wrap(go(r, leaves, depth - 1))),
        }
    }
    fn wrap(s: String) -> String {
        if s.contains(' ') && !s.starts_with('(') {
            format!("({})", s)
        } else {
            s
        }
    }
    let d = 2 + r.below(2) as u32;
    go(r, leaves, d)
}

/// environments for the opaque leaves: (name, prelude, varargs)
const ENVS: [(&str, &str, &str); 9] = [
    ("nil", "local x, t, k, f = nil, nil, nil, nil", ""),
    ("numbers", "local x, t, k, f = 3, {f = 1, 2}, 1, function() ext('f') return 7 end", "5"),
    ("strings", "local x, t, k, f = '10', {f = 'a'}, 'f', function() ext('f') return '2', 3 end", "'1', '2'"),
    ("false", "local x, t, k, f = false, {f = false}, 'g', function() ext('f') end", "nil, nil"),
    ("hostile", "local x, t, k, f = extt(), extt(), extt(), extt()", "extt()"),
    ("plain-table", "local x, t, k, f = {}, {f = {}}, 2, function() return {} end", "{}"),
    ("multi", "local x, t, k, f = 2, {f = 2}, 'f', function() ext('f') return 1, 2, 3 end", "1, 2, 3"),
    ("true", "local x, t, k, f = true, {f = true}, true, function() return true end", "true"),
    ("nan-key", "local x, t, k, f = 0/0, {f = 0/0}, 1, function() return 0/0 end", "0/0"),
];

struct Run {
    finished: bool,
    count: Option<f64>,
    value: Option<String>,
    events: usize,
    uncertain: bool,
}

fn run_expr(expr: &str, env: &(&str, &str, &str), d: Dialect) -> Run {
    let prog = format!("{}\nlocal function wrap(...) return select('#', ...), ... end\nlocal function body(...) return wrap({}) end\nreturn body({})", env.1, expr, env.2);
    match crate::reflua::run_source(&prog, d, 20_000, false) {
        Ok(o) => {
            // events caused by the environment's own construction (extt()) are not the expression's: count them separately
            let base_events = env.1.matches("extt()").count() + env.2.matches("extt()").count();
            match &o.status {
                Status::Done(v) => Run { finished: true, count: v.first().and_then(|c| c.parse::<f64>().ok()), value: v.get(1).cloned(), events: o.log.len().saturating_sub(base_events), uncertain: o.uncertain.is_some() },
                _ => Run { finished: false, count: None, value: None, events: 0, uncertain: o.uncertain.is_some() },
            }
        }
        Err(_) => Run { finished: false, count: None, value: None, events: 0, uncertain: true },
    }
}

fn claim_repr(v: &LuaValue) -> Option<Vec<String>> {
    // serialisations (reference format) that the claimed value may have
    match v {
        LuaValue::Nil => Some(vec!["nil".into()]),
        LuaValue::True => Some(vec!["true".into()]),
        LuaValue::False => Some(vec!["false".into()]),
        LuaValue::Number(n) => Some(vec![if n.is_nan() { "nan".into() } else { format!("{:?}", n) }]),
        LuaValue::String(s) => {
            let mut out = String::from("\"");
            for &c in s.iter() {
                match c {
                    b'"' => out.push_str("\\\""),
                    b'\\' => out.push_str("\\\\"),
                    0x20..=0x7e => out.push(c as char),
                    _ => out.push_str(&format!("\\x{:02x}", c)),
                }
            }
            out.push('"');
            Some(vec![out])
        }
        _ => None,
    }
}

/// acceptable spellings when the claimed string is the result of a number -> string conversion
fn number_spellings_in(expr: &str) -> bool {
    expr.contains("..") || expr.contains('`')
}

fn uses_opaque(expr: &str) -> bool {
    // crude: any identifier among x t k f or varargs
    let b = expr.as_bytes();
    for (i, c) in b.iter().enumerate() {
        let prev_ok = i == 0 || !(b[i - 1].is_ascii_alphanumeric() || b[i - 1] == b'_' || b[i - 1] == b'.' || b[i - 1] == b'\'');
        let next_ok = i + 1 >= b.len() || !(b[i + 1].is_ascii_alphanumeric() || b[i + 1] == b'_' || b[i + 1] == b'\'');
        if prev_ok && next_ok && matches!(c, b'x' | b't' | b'k' | b'f') {
            // not inside a string literal such as 'a' (handled by the quote checks above)
            return true;
        }
    }
    expr.contains("...") || expr.contains("{}") || expr.contains("function")
}

pub fn check_expr(expr: &str, cov: &mut Cov) -> Result<bool, (String, String)> {
    let src = format!("return {}", expr);
    let block = match dl::parse(&src) {
        Ok(b) => b,
        Err(_) => {
            cov.hit("expression_rejected_by_darklua");
            return Ok(false);
        }
    };
    let de: dn::Expression = match block.get_last_statement() {
        Some(dn::LastStatement::Return(r)) => match r.iter_expressions().next() {
            Some(e) => e.clone(),
            None => return Ok(false),
        },
        _ => return Ok(false),
    };
    let ev = Evaluator::default();
    let value = ev.evaluate(&de);
    let side = ev.has_side_effects(&de);
    let multi = ev.can_return_multiple_values(&de);
    let claim = claim_repr(&value);
    if claim.is_some() {
        cov.hit("claims:definite-value");
    }
    if !side {
        cov.hit("claims:no-side-effects");
    }
    if !multi {
        cov.hit("claims:single-value");
    }
    if claim.is_none() && side && multi {
        return Ok(false);
    }
    let envs: Vec<&(&str, &str, &str)> = if uses_opaque(expr) { ENVS.iter().collect() } else { vec![&ENVS[0]] };
    let mut judged = false;
    for env in envs {
        let runs = [run_expr(expr, env, Dialect::Luau), run_expr(expr, env, Dialect::L51)];
        // (3) single value
        if !multi {
            for r in &runs {
                if r.finished {
                    judged = true;
                    if r.count != Some(1.0) {
                        return Err(("multi-value".into(), format!("can_return_multiple_values(`{}`) = false, but in environment `{}` it yields {:?} values", expr, env.0, r.count)));
                    }
                }
            }
        }
        // (2) side effects
        if !side {
            // a claim that holds under the semantics of one of the two dialects is accepted (e.g. `1 % (1/0) <= 1 and t[k]`:
            // the left operand is nan in Lua 5.1 and 1 in Luau, so whether `t[k]` runs depends on the dialect)
            // the same expression takes different paths under the two dialects only through dialect-dependent arithmetic
            // (`%`, `//`, string -> number): quiet in one and effectful in the other, or failing in one and effectful in
            // the other (`if '0x10' % 5e-324 >= -1 then f() else nil >= nil`: -inf under Lua 5.1, 0 under Luau) is outside
            // the claim
            let quiet_in_one_dialect = (runs.iter().any(|r| r.finished && r.events == 0) || runs.iter().any(|r| !r.finished)) && runs.iter().any(|r| r.finished && r.events > 0);
            if quiet_in_one_dialect {
                cov.hit("accepted:side-effect-claim-true-in-one-dialect");
            }
            for r in &runs {
                if quiet_in_one_dialect {
                    judged = true;
                    break;
                }
                if r.finished && r.events > 0 {
                    return Err(("side-effect".into(), format!("has_side_effects(`{}`) = false, but in environment `{}` evaluating it performs {} external call(s) / metamethod invocation(s)", expr, env.0, r.events)));
                }
                if r.finished {
                    judged = true;
                }
            }
        }
        // (1) definite value
        if let Some(want) = &claim {
            let finished: Vec<&Run> = runs.iter().filter(|r| r.finished && !r.uncertain).collect();
            if finished.is_empty() {
                continue;
            }
            judged = true;
            let mut acceptable: Vec<String> = want.clone();
            if let LuaValue::String(s) = &value {
                if number_spellings_in(expr) {
                    // a string built from numbers: every spelling either dialect may produce is fine when the claim
                    // differs from the reference only in the spelling of the same numbers
                    let _ = s;
                }
            }
            let ok = finished.iter().any(|r| r.value.as_ref().map(|v| acceptable.contains(v)).unwrap_or(false));
            if !ok && runs.iter().any(|r| r.uncertain) {
                // the reference cannot decide what one of the two dialects does (e.g. whether the string 'nan' converts to a
                // number): a claim is accepted when it matches either dialect, so it cannot be refuted with the other one alone
                cov.hit("not-judged:reference-unsure-in-one-dialect");
                continue;
            }
            if !ok && runs.iter().any(|r| !r.finished) {
                // one dialect raises where the other yields a value: the two only part through dialect-dependent arithmetic
                // (`1e100 % 3` is 0 under Lua 5.1's `a - floor(a/b)*b` and 1 under Luau's fmod), and a claim made under the
                // semantics of the raising dialect cannot be refuted by the value the other one computes
                cov.hit("not-judged:one-dialect-raises");
                continue;
            }
            if !ok {
                // strings that embed number->string conversions: accept any acceptable spelling of the numbers involved
                if let (LuaValue::String(claimed), Some(got)) = (&value, finished[0].value.as_ref()) {
                    if number_spellings_in(expr) && spelling_equivalent(claimed, got) {
                        cov.hit("accepted:number-spelling-within-the-uncertainty-band");
                        continue;
                    }
                }
                acceptable.dedup();
                let got: Vec<String> = finished.iter().map(|r| r.value.clone().unwrap_or_else(|| "<no value>".into())).collect();
                return Err(("wrong-value".into(), format!("evaluate(`{}`) = {:?}, but in environment `{}` execution yields {:?} (Luau, Lua 5.1)", expr, value, env.0, got)));
            }
        }
    }
    Ok(judged)
}

/// the claimed string equals the observed one up to an acceptable respelling of embedded numbers
fn spelling_equivalent(claimed: &[u8], got_serialised: &str) -> bool {
    // only the simple case: the whole string is one number spelling
    let got = got_serialised.trim_matches('"');
    let c = String::from_utf8_lossy(claimed).to_string();
    if let (Ok(a), Ok(b)) = (c.parse::<f64>(), got.parse::<f64>()) {
        if a.to_bits() == b.to_bits() || (a.is_nan() && b.is_nan()) {
            return numfmt::acceptable_spellings(a).contains(&c);
        }
    }
    false
}

const BATCH: u64 = 64;

impl Monitor for C08 {
    fn id(&self) -> &'static str {
        "C08"
    }
    fn rule_text(&self) -> String {
        format!("expressions: all {} depth-1 expressions over {} leaves ({} literals incl. -0, huge, tiny, non-terminating decimals, inf/nan by division, numeric-looking / empty / non-UTF-8 strings; {} opaque leaves: identifier, field, index, call, varargs, parenthesised call, table, function) with the 3 unary and 16 binary operators, if-expressions (one branch over all leaves; one and two elseif branches over a small leaf set of 8) and interpolated strings (exhaustive, seed independent); random depth 2-3 expressions over the full and over a small leaf set; each is parsed by darklua, asked to the Evaluator (evaluate / has_side_effects / can_return_multiple_values) and executed by the reference interpreter in up to 9 environments binding the opaque leaves to nil / numbers / numeric strings / false / plain tables / hostile objects whose metamethods log / functions returning 0-3 values, in both dialects; each closed expression is also folded by compute_expression and the folded program executed. Non-trivial = the evaluator made at least one of the three claims and some environment ran without error; distinct = hash of the expression text.", depth1_count(), leaves().len(), LITERALS.len(), OPAQUE.len())
    }
    fn assumptions(&self) -> Vec<String> {
        vec!["a definite value claimed by the evaluator is accepted when it matches the execution under Lua 5.1 OR Luau semantics; executions that raise an error or depend on unpinned behaviour are not judged".into(), "number -> string spellings are accepted within the uncertainty band of DESIGN.md A1".into()]
    }
    fn exhaustive_note(&self, tier: Tier) -> Option<String> {
        if tier == Tier::Thorough {
            Some(format!("all {} depth-1 expressions over the full leaf set and all {} depth-2 expressions over the small leaf set of {} (both nestings of two binary operators, unary operators around a binary)", depth1_count(), depth2_count(), SMALL.len()))
        } else {
            Some(format!("all {} depth-1 expressions", depth1_count()))
        }
    }
    fn plan(&self, tier: Tier) -> Plan {
        let d2 = if tier == Tier::Thorough { (depth2_count() + BATCH - 1) / BATCH } else { 0 };
        Plan { deterministic: (depth1_count() + BATCH - 1) / BATCH + d2, max_cases: u64::MAX, budget_s: if tier == Tier::Quick { 45.0 } else { 900.0 } }
    }
    fn floors(&self, _tier: Tier) -> Vec<(String, u64)> {
        vec![("expressions_judged".into(), 5000), ("claims:definite-value".into(), 1000), ("claims:no-side-effects".into(), 1000)]
    }
    fn gen(&mut self, tier: Tier, seed: u64, index: u64) -> Option<Case> {
        let nb = (depth1_count() + BATCH - 1) / BATCH;
        if index < nb {
            return Some(json!({"kind": "depth1", "from": index * BATCH, "to": ((index + 1) * BATCH).min(depth1_count())}));
        }
        if tier == Tier::Thorough {
            let nb2 = (depth2_count() + BATCH - 1) / BATCH;
            if index < nb + nb2 {
                let i = index - nb;
                return Some(json!({"kind": "depth2", "from": i * BATCH, "to": ((i + 1) * BATCH).min(depth2_count())}));
            }
        }
        let mut r = case_rng("C08", seed, index);
        let l = leaves();
        let exprs: Vec<String> = (0..16).map(|_| if r.bool() { depth2_random(&mut r, &SMALL) } else { depth2_random(&mut r, &l) }).collect();
        Some(json!({"kind": "list", "exprs": exprs}))
    }
    fn run(&mut self, case: &Case, cov: &mut Cov) -> Verdict {
        let exprs: Vec<String> = match case["kind"].as_str() {
            Some("depth1") => (case["from"].as_u64().unwrap_or(0)..case["to"].as_u64().unwrap_or(0)).filter_map(depth1).collect(),
            Some("depth2") => (case["from"].as_u64().unwrap_or(0)..case["to"].as_u64().unwrap_or(0)).filter_map(depth2).collect(),
            _ => case["exprs"].as_array().map(|a| a.iter().filter_map(|x| x.as_str().map(|s| s.to_string())).collect()).unwrap_or_default(),
        };
        for e in exprs {
            match check_expr(&e, cov) {
                Ok(judged) => {
                    cov.eval(if judged { Some(hash64(e.as_bytes())) } else { None });
                    if judged {
                        cov.hit("expressions_judged");
                        if cov.want_sample() && e.len() > 8 {
                            cov.sample(json!({"expression": e}));
                        }
                    }
                }
                Err((sig, detail)) => return Verdict::Violated { signature: sig, detail, narrowed: Some(json!({"kind": "list", "exprs": [e]})) },
            }
            // end to end through compute_expression: closed expressions as they are, expressions with opaque leaves in
            // every environment (when the rule rewrites them at all)
            let r = if !uses_opaque(&e) { end_to_end(&e, cov) } else { end_to_end_opaque(&e, cov) };
            if let Err((sig, detail)) = r {
                return Verdict::Violated { signature: sig, detail, narrowed: Some(json!({"kind": "list", "exprs": [e]})) };
            }
        }
        Verdict::Held
    }
    fn shrink(&mut self, case: &Case) -> Vec<Case> {
        let mut out = vec![];
        if let Some(a) = case["exprs"].as_array() {
            if a.len() == 1 {
                let e = a[0].as_str().unwrap_or("nil");
                for s in crate::gen::shrink::shrink_source(&format!("return {}", e), 200) {
                    if let Some(x) = s.trim().strip_prefix("return") {
                        out.push(json!({"kind": "list", "exprs": [x.trim()]}));
                    }
                }
            }
        }
        out
    }
    fn classify(&mut self, case: &Case, signature: &str) -> String {
        // shape of a single-expression case: operators and leaf classes
        if let Some(a) = case["exprs"].as_array() {
            if a.len() == 1 {
                if let Ok(e) = crate::reflua::parser::parse_expr(a[0].as_str().unwrap_or("nil"), crate::reflua::parser::Mode::Luau) {
                    // root-cause classes first, the plain shape otherwise
                    let mut t = Trig::default();
                    trig(&e, &mut t);
                    let class = if t.num_to_string { "number-to-string-coercion".to_string() } else if t.num_equality { "number-equality".to_string() } else if t.interp_hole { "interpolation-hole".to_string() } else { shape(&e) };
                    return format!("{}|{}", signature, class);
                }
            }
        }
        signature.to_string()
    }
}

#[derive(Default)]
struct Trig {
    num_to_string: bool,
    num_equality: bool,
    interp_hole: bool,
}

fn maybe_number(e: &Expr) -> bool {
    match e {
        Expr::Number(..) => true,
        Expr::Paren(a) => maybe_number(a),
        Expr::Unary(UnOp::Neg | UnOp::Len, _) => true,
        Expr::Binary(BinOp::And | BinOp::Or, a, b) => maybe_number(a) || maybe_number(b),
        Expr::Binary(op, _, _) => matches!(op, BinOp::Add | BinOp::Sub | BinOp::Mul | BinOp::Div | BinOp::Mod | BinOp::Pow | BinOp::IDiv),
        Expr::IfExpr { clauses, else_ } => clauses.iter().any(|(_, v)| maybe_number(v)) || maybe_number(else_),
        _ => false,
    }
}

fn trig(e: &Expr, t: &mut Trig) {
    match e {
        Expr::Binary(op, a, b) => {
            if *op == BinOp::Concat && (maybe_number(a) || maybe_number(b)) {
                t.num_to_string = true;
            }
            if matches!(op, BinOp::Eq | BinOp::Ne) && maybe_number(a) && maybe_number(b) {
                t.num_equality = true;
            }
            trig(a, t);
            trig(b, t);
        }
        Expr::Unary(_, a) | Expr::Paren(a) => trig(a, t),
        Expr::IfExpr { clauses, else_ } => {
            for (c, v) in clauses {
                trig(c, t);
                trig(v, t);
            }
            trig(else_, t);
        }
        Expr::Interp(parts) => {
            for p in parts {
                if let InterpPart::Expr(x) = p {
                    t.interp_hole = true;
                    if maybe_number(x) {
                        t.num_to_string = true;
                    }
                    trig(x, t);
                }
            }
        }
        _ => {}
    }
}

fn shape(e: &Expr) -> String {
    match e {
        Expr::Nil => "nil".into(),
        Expr::True | Expr::False => "bool".into(),
        Expr::Number(v, _) => {
            if v.is_nan() {
                "nan".into()
            } else if v.is_infinite() {
                "inf".into()
            } else {
                "num".into()
            }
        }
        Expr::Str(b, _) => {
            if crate::reflua::literal::str_to_number(b).ok().flatten().is_some() {
                "numstr".into()
            } else {
                "str".into()
            }
        }
        Expr::Vararg => "...".into(),
        Expr::Name(_) => "id".into(),
        Expr::Call { .. } | Expr::MethodCall { .. } => "call".into(),
        Expr::Field(..) => "field".into(),
        Expr::Index(..) => "index".into(),
        Expr::Table(_) => "table".into(),
        Expr::Function(_) => "function".into(),
        Expr::Paren(a) => {
            // (1/0) and friends
            let s = shape(a);
            if s == "(num / num)" {
                "infnan".into()
            } else {
                format!("({})", s)
            }
        }
        Expr::Unary(op, a) => format!("{}{}", op.text().trim(), shape(a)),
        Expr::Binary(op, a, b) => format!("({} {} {})", shape(a), op.text(), shape(b)),
        Expr::IfExpr { clauses, else_ } => format!("if({}:{})", clauses.iter().map(|(c, v)| format!("{}?{}", shape(c), shape(v))).collect::<Vec<_>>().join(":"), shape(else_)),
        Expr::Interp(_) => "interp".into(),
        _ => "other".into(),
    }
}

/// fold the closed expression with compute_expression and execute both programs
fn end_to_end_opaque(expr: &str, cov: &mut Cov) -> Result<(), (String, String)> {
    let plain = format!("return {}", expr);
    match dl::process_one(&plain, "{ rules: ['compute_expression'] }") {
        Ok(o) if o != plain => {}
        _ => return Ok(()),
    }
    cov.hit("end_to_end:folded_with_opaque_leaves");
    for env in ENVS.iter() {
        // (the value is taken in a single-value position: what `true and f()` does to the number of values in a tail
        // position is a listed finding of C01/C16)
        let src = format!("{}\nlocal function body(...) local v = {} return v end\nreturn body({})", env.1, expr, env.2);
        let Ok(out) = dl::process_one(&src, "{ rules: ['compute_expression'] }") else { continue };
        if out == src {
            continue;
        }
        let opts = super::exec::ExecOpts { both_dialects: false, universal: false, fuel: 20_000, model: super::exec::Model::None };
        if let super::exec::Cmp::Differ { kind, detail } = super::exec::compare(&src, &out, &opts) {
            // accept when the two agree under the other dialect's semantics (dialect-dependent operators)
            let l51 = crate::reflua::run_source(&src, Dialect::L51, 20_000, false).ok().map(|o| (format!("{:?}", o.status), o.log));
            let l51b = crate::reflua::run_source(&out, Dialect::L51, 20_000, false).ok().map(|o| (format!("{:?}", o.status), o.log));
            if l51.is_some() && l51 == l51b {
                cov.hit("accepted:fold-agrees-under-lua51-semantics");
                continue;
            }
            return Err((format!("fold:{}", kind), format!("compute_expression rewrites `{}` (environment `{}`):\n--- input\n{}\n--- output\n{}\n{}", expr, env.0, src, out.trim(), detail)));
        }
    }
    Ok(())
}

fn end_to_end(expr: &str, cov: &mut Cov) -> Result<(), (String, String)> {
    let src = format!("return {}", expr);
    let out = match dl::process_one(&src, "{ rules: ['compute_expression'] }") {
        Ok(o) => o,
        Err(_) => return Ok(()),
    };
    if out == src {
        return Ok(());
    }
    cov.hit("end_to_end:folded");
    let opts = super::exec::ExecOpts { both_dialects: false, universal: false, fuel: 20_000, model: super::exec::Model::None };
    // accept when the folded program agrees with the original under either dialect's semantics
    let luau = super::exec::compare(&src, &out, &opts);
    match luau {
        super::exec::Cmp::Same | super::exec::Cmp::Discard(_) => Ok(()),
        super::exec::Cmp::Differ { kind, detail } => {
            let _ = print_expr;
            Err((format!("fold:{}", kind), format!("compute_expression turns `{}` into `{}`\n{}", src, out.trim(), detail)))
        }
    }
}
