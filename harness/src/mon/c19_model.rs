//! C19 — schema model of darklua configurations, written from the documentation
//! (`site/content/docs/{config,rules,generators,bundle,*-require-mode}`, `site/content/rules/*.md`):
//! the space of valid configurations (rules x parameters x filters x generator forms x bundle
//! settings), the single-field corruptions of a configuration, the text printer (JSON5 with
//! unquoted keys, able to print a duplicate key) and the trigger predicates of known defects.

use crate::rng::Rng;
use serde_json::{json, Map, Value};

pub const SCRATCH: &str = "$SCRATCH";

/// rules without any parameter (documentation: `parameters: []`)
pub const PARAMLESS: [&str; 23] = [
    "compute_expression",
    "convert_function_to_assignment",
    "convert_index_to_field",
    "convert_local_function_to_assign",
    "convert_luau_number",
    "convert_square_root_call",
    "filter_after_early_return",
    "group_local_assignment",
    "make_assignment_local",
    "remove_compound_assignment",
    "remove_continue",
    "remove_empty_do",
    "remove_floor_division",
    "remove_function_call_parens",
    "remove_if_expression",
    "remove_method_call",
    "remove_method_definition",
    "remove_nil_declaration",
    "remove_spaces",
    "remove_types",
    "remove_unused_if_branch",
    "remove_unused_variable",
    "remove_unused_while",
];

/// rules with parameters
pub const PARAM_RULES: [&str; 9] = [
    "append_text_comment",
    "convert_require",
    "inject_global_value",
    "remove_assertions",
    "remove_attribute",
    "remove_comments",
    "remove_debug_profiling",
    "remove_interpolated_string",
    "rename_variables",
];

pub fn all_rules() -> Vec<&'static str> {
    let mut v: Vec<&'static str> = PARAMLESS.to_vec();
    v.extend(PARAM_RULES.iter().copied());
    v.sort();
    v
}

/// documented property names of a rule
pub fn prop_names(rule: &str) -> &'static [&'static str] {
    match rule {
        "append_text_comment" => &["text", "file", "location"],
        "convert_require" => &["current", "target"],
        "inject_global_value" => &["identifier", "value", "env", "env_json", "default_value"],
        "remove_assertions" | "remove_debug_profiling" => &["preserve_arguments_side_effects"],
        "remove_attribute" => &["match"],
        "remove_comments" => &["except"],
        "remove_interpolated_string" => &["strategy"],
        "rename_variables" => &["globals", "include_functions", "detect_globals"],
        _ => &[],
    }
}

/// rules that cannot be written in string form (they have a required property)
pub fn has_required(rule: &str) -> bool {
    matches!(rule, "append_text_comment" | "convert_require" | "inject_global_value")
}

fn obj(v: Value) -> Map<String, Value> {
    match v {
        Value::Object(m) => m,
        _ => Map::new(),
    }
}

/// Valid property sets of a rule: the default (no property), every property at its default and
/// at 1-3 non-default values, and a few combinations.
pub fn rule_variants(rule: &str) -> Vec<Map<String, Value>> {
    let banner = format!("{}/banner.txt", SCRATCH);
    let v: Vec<Value> = match rule {
        "append_text_comment" => vec![
            json!({"text": "hello"}),
            json!({"text": "hello", "location": "start"}),
            json!({"text": "hello", "location": "end"}),
            json!({"text": "line1\nline2"}),
            json!({"text": "line1\nline2", "location": "end"}),
            json!({"text": ""}),
            json!({"text": "!native"}),
            json!({"file": banner}),
            json!({"file": banner, "location": "end"}),
        ],
        "convert_require" => {
            let currents = vec![
                json!("path"),
                json!("luau"),
                json!({"name": "path"}),
                json!({"name": "path", "module_folder_name": "main"}),
                json!({"name": "path", "sources": {"@pkg": "."}}),
                json!({"name": "path", "use_luau_configuration": false}),
                json!({"name": "luau"}),
                json!({"name": "luau", "aliases": {"pkg": "."}}),
                json!({"name": "luau", "use_luau_configuration": false}),
            ];
            let targets = vec![
                json!("roblox"),
                json!({"name": "roblox"}),
                json!({"name": "roblox", "indexing_style": "find_first_child"}),
                json!({"name": "roblox", "indexing_style": "wait_for_child"}),
                json!({"name": "roblox", "indexing_style": "property"}),
                json!({"name": "roblox", "indexing_style": {"name": "property"}}),
                json!({"name": "roblox", "rojo_sourcemap": "../sourcemap.json"}),
                json!("path"),
                json!("luau"),
                json!({"name": "path", "module_folder_name": "main"}),
            ];
            let mut out = vec![];
            for (i, c) in currents.iter().enumerate() {
                out.push(json!({"current": c, "target": "roblox"}));
                if i < 2 {
                    for t in &targets[1..] {
                        out.push(json!({"current": c, "target": t}));
                    }
                }
            }
            out
        }
        "inject_global_value" => {
            let mut out = vec![json!({"identifier": "INJ"}), json!({"identifier": "OTHER", "value": true})];
            for val in [
                json!(true),
                json!(false),
                json!(null),
                json!("str"),
                json!(""),
                json!(12),
                json!(0),
                json!(-3),
                json!(-0.5),
                json!(1e300),
                json!(9007199254740993u64),
                json!([1, "a", true]),
                json!(["a", "b"]),
                json!([]),
                json!({"a": 1, "b c": "x"}),
                json!({}),
                json!({"name": "path"}),
                json!([[1], {"k": null}]),
            ] {
                out.push(json!({"identifier": "INJ", "value": val}));
            }
            out.push(json!({"identifier": "INJ", "env": super::c19_probe::ENV_SET}));
            out.push(json!({"identifier": "INJ", "env": super::c19_probe::ENV_UNSET}));
            out.push(json!({"identifier": "INJ", "env": super::c19_probe::ENV_UNSET, "default_value": false}));
            out.push(json!({"identifier": "INJ", "env": super::c19_probe::ENV_SET, "default_value": 7}));
            out.push(json!({"identifier": "INJ", "env_json": super::c19_probe::ENV_JSON}));
            out.push(json!({"identifier": "INJ", "env_json": super::c19_probe::ENV_UNSET, "default_value": [1, 2]}));
            out.push(json!({"identifier": "INJ", "env_json": super::c19_probe::ENV_UNSET, "default_value": {"d": "v"}}));
            out
        }
        "remove_assertions" | "remove_debug_profiling" => vec![json!({}), json!({"preserve_arguments_side_effects": true}), json!({"preserve_arguments_side_effects": false})],
        "remove_attribute" => vec![json!({}), json!({"match": []}), json!({"match": ["deprecated"]}), json!({"match": ["^native$", "dep"]}), json!({"match": ["nothing"]})],
        "remove_comments" => vec![json!({}), json!({"except": []}), json!({"except": ["^--!"]}), json!({"except": ["plain", "^--!"]}), json!({"except": ["nothing"]})],
        "remove_interpolated_string" => vec![json!({}), json!({"strategy": "string"}), json!({"strategy": "tostring"})],
        "rename_variables" => vec![
            json!({}),
            json!({"include_functions": true}),
            json!({"include_functions": false}),
            json!({"detect_globals": false}),
            json!({"detect_globals": true}),
            json!({"globals": ["$default"]}),
            json!({"globals": ["$default", "b"]}),
            json!({"globals": ["b"]}),
            json!({"globals": []}),
            json!({"globals": ["$default", "$roblox"]}),
            json!({"globals": ["$roblox", "c", "b"]}),
            json!({"include_functions": true, "detect_globals": false, "globals": ["$default", "b", "c"]}),
        ],
        _ => vec![json!({})],
    };
    v.into_iter().map(obj).collect()
}

/// index of a variant of `rule` that has at least one property which darklua is documented to
/// keep (used where "a rule with a non-default property" is needed)
pub fn nondefault_variant(rule: &str) -> Option<Map<String, Value>> {
    let i = match rule {
        "append_text_comment" => 2,
        "inject_global_value" => 2,
        "remove_assertions" | "remove_debug_profiling" => 2,
        "remove_interpolated_string" => 2,
        "rename_variables" => 1,
        _ => return None,
    };
    rule_variants(rule).into_iter().nth(i)
}

/// filters: none / apply only / skip only / both, each as single string and as list.
/// The patterns select some of the probe files and exclude others (see c19_probe::PROBES).
pub fn filter_options() -> Vec<(&'static str, Map<String, Value>)> {
    vec![
        ("none", obj(json!({}))),
        ("apply1", obj(json!({"apply_to_files": "src/a/**"}))),
        ("applyN", obj(json!({"apply_to_files": ["src/a/**", "**/y.lua"]}))),
        ("skip1", obj(json!({"skip_files": "**/x.lua"}))),
        ("skipN", obj(json!({"skip_files": ["**/x.lua", "src/b/y.lua"]}))),
        ("both1", obj(json!({"apply_to_files": "src/a/**", "skip_files": "**/x.lua"}))),
        ("bothN", obj(json!({"apply_to_files": ["src/a/**", "**/y.lua"], "skip_files": ["**/x.lua", "src/b/pkg/**"]}))),
        ("apply[1]", obj(json!({"apply_to_files": ["src/b/**"]}))),
        ("skip[1]", obj(json!({"skip_files": ["src/b/**"]}))),
        ("apply1+skipN", obj(json!({"apply_to_files": "**/*.lua", "skip_files": ["src/a/**", "**/dep.lua"]}))),
    ]
}

/// generator forms (None = key absent)
pub fn generator_forms() -> Vec<Option<Value>> {
    let mut v = vec![None, Some(json!("retain_lines")), Some(json!("retain-lines")), Some(json!({"name": "retain_lines"})), Some(json!({"name": "retain-lines"}))];
    for name in ["dense", "readable"] {
        v.push(Some(json!(name)));
        v.push(Some(json!({ "name": name })));
        for span in [80u64, 20, 1, 0, 200] {
            v.push(Some(json!({"name": name, "column_span": span})));
        }
    }
    v
}

pub fn bundle_forms() -> Vec<Value> {
    let modes = vec![
        json!("path"),
        json!("luau"),
        json!({"name": "path"}),
        json!({"name": "path", "module_folder_name": "main"}),
        json!({"name": "path", "module_folder_name": "init"}),
        json!({"name": "path", "sources": {"@pkg": "."}}),
        json!({"name": "path", "sources": {"@pkg": ".", "@other": "./pkg", "@third": "./x"}}),
        json!({"name": "path", "use_luau_configuration": false}),
        json!({"name": "path", "use_luau_configuration": true}),
        json!({"name": "luau"}),
        json!({"name": "luau", "aliases": {"pkg": "."}}),
        json!({"name": "luau", "sources": {"pkg": "."}}),
        json!({"name": "luau", "use_luau_configuration": false}),
    ];
    let idents = vec![None, Some("__M"), Some("__DARKLUA_BUNDLE_MODULES")];
    let excludes = vec![None, Some(json!([])), Some(json!(["@pkg/**"])), Some(json!(["@lune/**", "@pkg/**", "./dep", "**/never"]))];
    let mut out = vec![];
    for (i, m) in modes.iter().enumerate() {
        for (j, id) in idents.iter().enumerate() {
            for (k, ex) in excludes.iter().enumerate() {
                // full product for the first two modes, a covering selection for the others
                if i >= 2 && (j + k) % 3 != i % 3 && !(j == 0 && k == 0) {
                    continue;
                }
                let mut b = Map::new();
                b.insert("require_mode".into(), m.clone());
                if let Some(id) = id {
                    b.insert("modules_identifier".into(), json!(id));
                }
                if let Some(ex) = ex {
                    b.insert("excludes".into(), ex.clone());
                }
                out.push(Value::Object(b));
            }
        }
    }
    out
}

pub fn rule_entry(rule: &str, props: &Map<String, Value>, filters: &Map<String, Value>) -> Value {
    let mut m = Map::new();
    m.insert("rule".into(), json!(rule));
    for (k, v) in props {
        m.insert(k.clone(), v.clone());
    }
    for (k, v) in filters {
        m.insert(k.clone(), v.clone());
    }
    Value::Object(m)
}

pub fn config_with_rules(rules: Vec<Value>) -> Value {
    json!({ "rules": rules })
}

// ---------------------------------------------------------------------------------------------
// text printer

#[derive(Clone, Debug)]
pub enum Seg {
    Key(String),
    Idx(usize),
}

/// instruction for the printer: when printing the object at `path`, write `key: value` once more
/// at the end (a duplicate key, which a serde_json::Value cannot hold)
#[derive(Clone, Debug)]
pub struct Dup {
    pub path: Vec<Seg>,
    pub key: String,
    pub value: Value,
}

fn is_ident(s: &str) -> bool {
    let mut cs = s.chars();
    match cs.next() {
        Some(c) if c.is_ascii_alphabetic() || c == '_' => {}
        _ => return false,
    }
    cs.all(|c| c.is_ascii_alphanumeric() || c == '_') && !matches!(s, "true" | "false" | "null" | "Infinity" | "NaN")
}

fn path_eq(a: &[Seg], b: &[Seg]) -> bool {
    a.len() == b.len()
        && a.iter().zip(b).all(|(x, y)| match (x, y) {
            (Seg::Key(p), Seg::Key(q)) => p == q,
            (Seg::Idx(p), Seg::Idx(q)) => p == q,
            _ => false,
        })
}

fn print_into(v: &Value, out: &mut String, here: &mut Vec<Seg>, dup: Option<&Dup>) {
    match v {
        Value::Object(m) => {
            out.push_str("{ ");
            let mut first = true;
            // `rule` / `name` first, as users write them
            let mut keys: Vec<&String> = m.keys().collect();
            keys.sort_by_key(|k| (!(k.as_str() == "rule" || k.as_str() == "name"), (*k).clone()));
            for k in keys {
                if !first {
                    out.push_str(", ");
                }
                first = false;
                if is_ident(k) {
                    out.push_str(k);
                } else {
                    out.push_str(&Value::String(k.clone()).to_string());
                }
                out.push_str(": ");
                here.push(Seg::Key(k.clone()));
                print_into(&m[k], out, here, dup);
                here.pop();
            }
            if let Some(d) = dup {
                if path_eq(&d.path, here) {
                    if !first {
                        out.push_str(", ");
                    }
                    if is_ident(&d.key) {
                        out.push_str(&d.key);
                    } else {
                        out.push_str(&Value::String(d.key.clone()).to_string());
                    }
                    out.push_str(": ");
                    print_into(&d.value, out, &mut vec![Seg::Key("\u{0}dup".into())], None);
                }
            }
            out.push_str(" }");
        }
        Value::Array(a) => {
            out.push('[');
            for (i, x) in a.iter().enumerate() {
                if i > 0 {
                    out.push_str(", ");
                }
                here.push(Seg::Idx(i));
                print_into(x, out, here, dup);
                here.pop();
            }
            out.push(']');
        }
        other => out.push_str(&other.to_string()),
    }
}

/// JSON5 text of a configuration value
pub fn to_text(v: &Value, dup: Option<&Dup>) -> String {
    let mut s = String::new();
    print_into(v, &mut s, &mut vec![], dup);
    s
}

// ---------------------------------------------------------------------------------------------
// triggers of known defects (predicates over the *input* configuration, written from the model)

fn list_nonempty(v: Option<&Value>) -> bool {
    match v {
        Some(Value::String(_)) => true,
        Some(Value::Array(a)) => !a.is_empty(),
        _ => false,
    }
}

/// Does the documentation-level model say that this rule object carries no information besides
/// its name and filters (every property absent or at its documented default)?
fn props_all_default(rule: &str, m: &Map<String, Value>) -> bool {
    m.iter().all(|(k, v)| match (rule, k.as_str()) {
        (_, "rule") | (_, "apply_to_files") | (_, "skip_files") => true,
        ("append_text_comment", "location") => v == "start",
        ("remove_assertions", "preserve_arguments_side_effects") | ("remove_debug_profiling", "preserve_arguments_side_effects") => v == &json!(true),
        ("remove_interpolated_string", "strategy") => v == "string",
        ("rename_variables", "include_functions") => v == &json!(false),
        ("rename_variables", "detect_globals") => v == &json!(true),
        ("rename_variables", "globals") => v.as_array().map(|a| a.iter().all(|x| x == "$default")).unwrap_or(false),
        ("remove_comments", "except") | ("remove_attribute", "match") => !list_nonempty(Some(v)),
        _ => false,
    })
}

/// identifiers of the known defects whose trigger is present in the configuration
pub fn triggers(cfg: &Value) -> Vec<&'static str> {
    let mut t: Vec<&'static str> = vec![];
    let mut add = |x: &'static str| {
        if !t.contains(&x) {
            t.push(x)
        }
    };
    let rules = cfg.get("rules").or_else(|| cfg.get("process")).and_then(|r| r.as_array()).cloned().unwrap_or_default();
    for r in &rules {
        let Some(m) = r.as_object() else { continue };
        let Some(name) = m.get("rule").and_then(|n| n.as_str()) else { continue };
        let has_apply = list_nonempty(m.get("apply_to_files"));
        let has_skip = list_nonempty(m.get("skip_files"));
        if name == "convert_require" {
            add("convert_require_properties_not_serialized");
        }
        if name == "remove_comments" && list_nonempty(m.get("except")) {
            add("remove_comments_except_not_serialized");
        }
        if name == "remove_attribute" && list_nonempty(m.get("match")) {
            add("remove_attribute_match_not_serialized");
        }
        // the three rules above never serialise a property, so with filters they also fall under
        // the first trigger below
        let never_serialises = matches!(name, "convert_require" | "remove_comments" | "remove_attribute");
        if (has_apply || has_skip) && (never_serialises || props_all_default(name, m)) {
            add("rule_filters_dropped_without_other_property");
        } else if has_skip && !has_apply {
            add("rule_skip_files_dropped_without_apply_to_files");
        }
    }
    t
}

// ---------------------------------------------------------------------------------------------
// corruptions

#[derive(Clone, Debug)]
pub struct Corruption {
    /// class of the corruption (coverage table, signature)
    pub class: &'static str,
    /// where in the configuration
    pub place: String,
    /// does the property statement say that this must be an error?
    pub must_reject: bool,
    pub value: Value,
    pub dup: Option<Dup>,
}

impl Corruption {
    pub fn text(&self) -> String {
        to_text(&self.value, self.dup.as_ref())
    }
}

fn set_path(root: &Value, path: &[Seg], new: Option<Value>) -> Value {
    fn go(v: &mut Value, path: &[Seg], new: Option<Value>) {
        if path.len() == 1 {
            match (&path[0], v) {
                (Seg::Key(k), Value::Object(m)) => match new {
                    Some(n) => {
                        m.insert(k.clone(), n);
                    }
                    None => {
                        m.remove(k);
                    }
                },
                (Seg::Idx(i), Value::Array(a)) => match new {
                    Some(n) => {
                        if *i < a.len() {
                            a[*i] = n
                        } else {
                            a.push(n)
                        }
                    }
                    None => {
                        if *i < a.len() {
                            a.remove(*i);
                        }
                    }
                },
                _ => {}
            }
            return;
        }
        let next = match (&path[0], v) {
            (Seg::Key(k), Value::Object(m)) => m.get_mut(k),
            (Seg::Idx(i), Value::Array(a)) => a.get_mut(*i),
            _ => None,
        };
        if let Some(n) = next {
            go(n, &path[1..], new)
        }
    }
    let mut r = root.clone();
    if path.is_empty() {
        return new.unwrap_or(Value::Null);
    }
    go(&mut r, path, new);
    r
}

fn rename_key(root: &Value, path: &[Seg], old: &str, new: &str) -> Value {
    let mut p = path.to_vec();
    p.push(Seg::Key(old.to_string()));
    let val = get_path(root, &p).cloned().unwrap_or(Value::Null);
    let r = set_path(root, &p, None);
    let mut q = path.to_vec();
    q.push(Seg::Key(new.to_string()));
    set_path(&r, &q, Some(val))
}

pub fn get_path<'a>(root: &'a Value, path: &[Seg]) -> Option<&'a Value> {
    let mut v = root;
    for s in path {
        v = match (s, v) {
            (Seg::Key(k), Value::Object(m)) => m.get(k)?,
            (Seg::Idx(i), Value::Array(a)) => a.get(*i)?,
            _ => return None,
        };
    }
    Some(v)
}

fn misspellings(k: &str) -> Vec<String> {
    let mut v = vec![];
    if k.len() > 2 {
        v.push(k[..k.len() - 1].to_string()); // last letter dropped
    }
    v.push(format!("{}s", k));
    let mut c = k.chars();
    if let Some(f) = c.next() {
        v.push(format!("{}{}", f.to_ascii_uppercase(), c.as_str())); // keys are case sensitive
    }
    v.push(k.replace('_', "-"));
    v.retain(|x| x != k);
    v.dedup();
    v
}

const TOP_KEYS: [&str; 6] = ["rules", "process", "generator", "bundle", "apply_to_files", "skip_files"];

/// JSON values of a type the documentation does not allow for the property
fn wrong_types(rule: &str, prop: &str) -> Vec<Value> {
    match (rule, prop) {
        ("append_text_comment", "text") | ("append_text_comment", "file") => vec![json!(1), json!(true), json!(["a"]), json!(null), json!({"a": 1})],
        ("append_text_comment", "location") => vec![json!(1), json!(true), json!(["end"]), json!(null)],
        ("convert_require", _) => vec![json!(1), json!(true), json!(["path"]), json!(null), json!({"module_folder_name": "x"}), json!({"name": true}), json!({"name": null}), json!({"name": ["path"]}), json!({"name": 1.5}), json!({"name": -1}), json!({"name": 3})],
        ("inject_global_value", "identifier") => vec![json!(1), json!(true), json!(["INJ"]), json!(null), json!({"a": 1})],
        ("inject_global_value", "env") | ("inject_global_value", "env_json") => vec![json!(1), json!(true), json!(["X"]), json!(null)],
        ("remove_assertions", _) | ("remove_debug_profiling", _) => vec![json!("true"), json!(1), json!(0), json!(null), json!([true]), json!({})],
        ("remove_attribute", "match") | ("remove_comments", "except") => vec![json!("x"), json!(1), json!(true), json!(null), json!([1]), json!([["x"]]), json!({"a": "x"}), json!(["ok", 2])],
        ("remove_interpolated_string", "strategy") => vec![json!(1), json!(true), json!(["tostring"]), json!(null)],
        ("rename_variables", "globals") => vec![json!("a"), json!(1), json!(true), json!(null), json!([1]), json!({"a": 1})],
        ("rename_variables", _) => vec![json!("true"), json!(1), json!(null), json!([true]), json!({})],
        _ => vec![],
    }
}

/// values of the right JSON type but outside the documented set of values
fn invalid_enum_values(rule: &str, prop: &str) -> Vec<Value> {
    match (rule, prop) {
        ("append_text_comment", "location") => vec![json!("middle"), json!("End"), json!("")],
        ("remove_interpolated_string", "strategy") => vec![json!("format"), json!("ToString"), json!("")],
        ("convert_require", "current") => vec![json!("oops"), json!({"name": "oops"}), json!("")],
        ("convert_require", "target") => vec![json!("oops"), json!({"name": "oops"}), json!({"name": "roblox", "indexing_style": "nope"}), json!({"name": "roblox", "indexing_style": {"name": "nope"}})],
        _ => vec![],
    }
}

const INVALID_GLOBS: [&str; 2] = ["src/{a", "src/[a"];
const INVALID_REGEXES: [&str; 3] = ["(", "[a", "*a"];

fn push(out: &mut Vec<Corruption>, class: &'static str, place: impl Into<String>, must_reject: bool, value: Value) {
    out.push(Corruption { class, place: place.into(), must_reject, value, dup: None });
}

fn corrupt_require_mode(out: &mut Vec<Corruption>, cfg: &Value, path: &[Seg], place: &str, mode: &Value, allow_roblox: bool) {
    // object form of the mode
    let (name, as_obj) = match mode {
        Value::String(s) => (s.clone(), json!({ "name": s })),
        Value::Object(m) => (m.get("name").and_then(|n| n.as_str()).unwrap_or("").to_string(), mode.clone()),
        _ => return,
    };
    let with = |k: &str, v: Value| {
        let mut o = as_obj.clone();
        o[k] = v;
        o
    };
    push(out, "nested_unknown_key", format!("{}.{}", place, name), true, set_path(cfg, path, Some(with("unknown_key", json!(1)))));
    match name.as_str() {
        "path" => {
            push(out, "nested_unknown_key", format!("{}.path", place), true, set_path(cfg, path, Some(with("aliases", json!({})))));
            for w in [json!(1), json!(true), json!(["init"]), json!(null)] {
                push(out, "wrong_type", format!("{}.path.module_folder_name", place), true, set_path(cfg, path, Some(with("module_folder_name", w))));
            }
            for w in [json!("x"), json!(1), json!(["x"]), json!({"a": 1}), json!({"a": ["x"]})] {
                push(out, "wrong_type", format!("{}.path.sources", place), true, set_path(cfg, path, Some(with("sources", w))));
            }
            for w in [json!("true"), json!(1), json!(null), json!([])] {
                push(out, "wrong_type", format!("{}.path.use_luau_configuration", place), true, set_path(cfg, path, Some(with("use_luau_configuration", w))));
            }
        }
        "luau" => {
            push(out, "nested_unknown_key", format!("{}.luau", place), true, set_path(cfg, path, Some(with("module_folder_name", json!("init")))));
            for w in [json!("x"), json!(1), json!(["x"]), json!({"a": 1})] {
                push(out, "wrong_type", format!("{}.luau.aliases", place), true, set_path(cfg, path, Some(with("aliases", w))));
            }
            for w in [json!("true"), json!(1), json!(null)] {
                push(out, "wrong_type", format!("{}.luau.use_luau_configuration", place), true, set_path(cfg, path, Some(with("use_luau_configuration", w))));
            }
        }
        "roblox" if allow_roblox => {
            push(out, "nested_unknown_key", format!("{}.roblox", place), true, set_path(cfg, path, Some(with("sources", json!({})))));
            for w in [json!(1), json!(true), json!(["x"]), json!({})] {
                push(out, "wrong_type", format!("{}.roblox.rojo_sourcemap", place), true, set_path(cfg, path, Some(with("rojo_sourcemap", w))));
            }
            for w in [json!(1), json!(true), json!(["property"]), json!(null), json!({})] {
                push(out, "wrong_type", format!("{}.roblox.indexing_style", place), true, set_path(cfg, path, Some(with("indexing_style", w))));
            }
            for style in ["find_first_child", "wait_for_child", "property"] {
                push(out, "nested_unknown_key", format!("{}.roblox.indexing_style", place), true, set_path(cfg, path, Some(with("indexing_style", json!({"name": style, "unknown_key": 1})))));
            }
        }
        _ => {}
    }
    let p = path.to_vec();
    for k in as_obj.as_object().map(|m| m.keys().cloned().collect::<Vec<_>>()).unwrap_or_default() {
        let objcfg = set_path(cfg, path, Some(as_obj.clone()));
        out.push(Corruption { class: "duplicate_key", place: format!("{}.{}.{}", place, name, k), must_reject: false, value: objcfg, dup: Some(Dup { path: p.clone(), key: k.clone(), value: as_obj[&k].clone() }) });
    }
}

/// All single-field corruptions of a configuration.
pub fn corruptions(cfg: &Value) -> Vec<Corruption> {
    let mut out: Vec<Corruption> = vec![];
    let Some(top) = cfg.as_object() else { return out };

    // ---- top level
    for k in top.keys() {
        for m in misspellings(k) {
            if TOP_KEYS.contains(&m.as_str()) {
                continue;
            }
            push(&mut out, "unknown_top_key", format!("top.{}", k), true, rename_key(cfg, &[], k, &m));
        }
        out.push(Corruption { class: "duplicate_key", place: format!("top.{}", k), must_reject: false, value: cfg.clone(), dup: Some(Dup { path: vec![], key: k.clone(), value: top[k].clone() }) });
    }
    for (k, v) in [("unknown_key", json!(true)), ("Rules", json!([])), ("comment", json!("x")), ("location", json!("x")), ("rule", json!("remove_spaces")), ("column_span", json!(80)), ("require_mode", json!("path"))] {
        push(&mut out, "unknown_top_key", "top.+", true, set_path(cfg, &[Seg::Key(k.into())], Some(v)));
    }
    for w in [json!("remove_spaces"), json!({}), json!(1), json!(null), json!(true), json!({"rule": "remove_spaces"})] {
        push(&mut out, "wrong_type", "top.rules", true, set_path(cfg, &[Seg::Key("rules".into())], Some(w)));
    }
    for w in [json!(1), json!(true), json!([]), json!(["dense"]), json!(null)] {
        push(&mut out, "wrong_type", "top.generator", true, set_path(cfg, &[Seg::Key("generator".into())], Some(w)));
    }
    for w in [json!("path"), json!([]), json!(1), json!(true)] {
        push(&mut out, "wrong_type", "top.bundle", true, set_path(cfg, &[Seg::Key("bundle".into())], Some(w)));
    }
    for k in ["apply_to_files", "skip_files"] {
        for w in [json!(1), json!(true), json!({}), json!([1]), json!([["a"]]), json!(null), json!(["**/*.lua", 2])] {
            push(&mut out, "wrong_type", format!("top.{}", k), true, set_path(cfg, &[Seg::Key(k.into())], Some(w)));
        }
        for g in INVALID_GLOBS {
            push(&mut out, "invalid_pattern", format!("top.{}", k), true, set_path(cfg, &[Seg::Key(k.into())], Some(json!(g))));
            push(&mut out, "invalid_pattern", format!("top.{}[]", k), true, set_path(cfg, &[Seg::Key(k.into())], Some(json!(["**/*.lua", g]))));
        }
    }
    for w in [json!([]), json!("x"), json!(1), json!(null), json!(true)] {
        push(&mut out, "wrong_type", "top", true, w);
    }

    // ---- generator
    let gpath = [Seg::Key("generator".into())];
    for name in ["dense", "readable"] {
        for w in [json!("80"), json!(-1), json!(1.5), json!(true), json!(null), json!([80])] {
            push(&mut out, "wrong_type", "generator.column_span", true, set_path(cfg, &gpath, Some(json!({"name": name, "column_span": w}))));
        }
        push(&mut out, "nested_unknown_key", format!("generator.{}", name), true, set_path(cfg, &gpath, Some(json!({"name": name, "unknown_key": 1}))));
        push(&mut out, "nested_unknown_key", format!("generator.{}", name), true, set_path(cfg, &gpath, Some(json!({"name": name, "column_spans": 80}))));
        let g = json!({"name": name, "column_span": 60});
        out.push(Corruption { class: "duplicate_key", place: "generator.column_span".into(), must_reject: false, value: set_path(cfg, &gpath, Some(g)), dup: Some(Dup { path: gpath.to_vec(), key: "column_span".into(), value: json!(70) }) });
        out.push(Corruption { class: "duplicate_key", place: "generator.name".into(), must_reject: false, value: set_path(cfg, &gpath, Some(json!({ "name": name }))), dup: Some(Dup { path: gpath.to_vec(), key: "name".into(), value: json!("retain_lines") }) });
    }
    for name in ["retain_lines", "retain-lines"] {
        push(&mut out, "nested_unknown_key", "generator.retain_lines", true, set_path(cfg, &gpath, Some(json!({"name": name, "unknown_key": 1}))));
        push(&mut out, "nested_unknown_key", "generator.retain_lines", true, set_path(cfg, &gpath, Some(json!({"name": name, "column_span": 80}))));
    }
    for w in [json!("oops"), json!("Dense"), json!(""), json!({"name": "oops"}), json!({"name": "DENSE"})] {
        push(&mut out, "invalid_enum_value", "generator.name", true, set_path(cfg, &gpath, Some(w)));
    }
    for w in [json!({"name": true}), json!({"name": null}), json!({"name": ["dense"]})] {
        push(&mut out, "wrong_type", "generator.name", true, set_path(cfg, &gpath, Some(w)));
    }
    for n in [0, 1, 2] {
        push(&mut out, "integer_variant_tag", "generator", true, set_path(cfg, &gpath, Some(json!({ "name": n }))));
    }
    push(&mut out, "missing_required", "generator.name", false, set_path(cfg, &gpath, Some(json!({"column_span": 80}))));
    push(&mut out, "missing_required", "generator.name", false, set_path(cfg, &gpath, Some(json!({}))));

    // ---- bundle
    let bpath = [Seg::Key("bundle".into())];
    let bundle = top.get("bundle").cloned().unwrap_or(json!({"require_mode": "path"}));
    if bundle.is_object() {
        let with = |k: &str, v: Value| {
            let mut b = bundle.clone();
            b[k] = v;
            set_path(cfg, &bpath, Some(b))
        };
        push(&mut out, "nested_unknown_key", "bundle", true, with("unknown_key", json!(1)));
        for k in ["require_mode", "modules_identifier", "excludes"] {
            for m in misspellings(k) {
                let mut b = bundle.clone();
                if b.get(k).is_none() {
                    b[k] = match k {
                        "require_mode" => json!("path"),
                        "modules_identifier" => json!("__M"),
                        _ => json!([]),
                    };
                }
                let c = set_path(cfg, &bpath, Some(b));
                let c = rename_key(&c, &bpath, k, &m);
                // a misspelt require_mode is at the same time a missing required field
                push(&mut out, "nested_unknown_key", format!("bundle.{}", k), true, c);
            }
        }
        for w in [json!(1), json!(true), json!(["path"]), json!(null), json!({"module_folder_name": "init"}), json!({"name": true}), json!({"name": null})] {
            push(&mut out, "wrong_type", "bundle.require_mode", true, with("require_mode", w));
        }
        for n in [0, 1] {
            push(&mut out, "integer_variant_tag", "bundle.require_mode", true, with("require_mode", json!({ "name": n })));
        }
        for w in [json!("oops"), json!("roblox"), json!({"name": "oops"}), json!({"name": "roblox"}), json!("Path")] {
            push(&mut out, "invalid_enum_value", "bundle.require_mode", true, with("require_mode", w));
        }
        for w in [json!(1), json!(true), json!(["x"]), json!({})] {
            push(&mut out, "wrong_type", "bundle.modules_identifier", true, with("modules_identifier", w));
        }
        for w in [json!("x"), json!(1), json!(true), json!([1]), json!({"a": 1}), json!([["x"]])] {
            push(&mut out, "wrong_type", "bundle.excludes", true, with("excludes", w));
        }
        for g in INVALID_GLOBS {
            // documented as patterns, but an invalid one is only logged (bundle/mod.rs says so
            // explicitly): observed, not judged
            push(&mut out, "invalid_pattern_bundle_excludes", "bundle.excludes", false, with("excludes", json!([g])));
        }
        {
            let mut b = bundle.clone();
            if let Some(m) = b.as_object_mut() {
                m.remove("require_mode");
            }
            push(&mut out, "missing_required", "bundle.require_mode", false, set_path(cfg, &bpath, Some(b)));
        }
        for k in bundle.as_object().map(|m| m.keys().cloned().collect::<Vec<_>>()).unwrap_or_default() {
            out.push(Corruption { class: "duplicate_key", place: format!("bundle.{}", k), must_reject: false, value: set_path(cfg, &bpath, Some(bundle.clone())), dup: Some(Dup { path: bpath.to_vec(), key: k.clone(), value: bundle[&k].clone() }) });
        }
        let mode = bundle.get("require_mode").cloned().unwrap_or(json!("path"));
        let base = set_path(cfg, &bpath, Some(bundle.clone()));
        corrupt_require_mode(&mut out, &base, &[Seg::Key("bundle".into()), Seg::Key("require_mode".into())], "bundle.require_mode", &mode, false);
        // sources map with the same key twice
        out.push(Corruption {
            class: "duplicate_key",
            place: "bundle.require_mode.path.sources.<key>".into(),
            must_reject: false,
            value: with("require_mode", json!({"name": "path", "sources": {"@pkg": "."}})),
            dup: Some(Dup { path: vec![Seg::Key("bundle".into()), Seg::Key("require_mode".into()), Seg::Key("sources".into())], key: "@pkg".into(), value: json!("./other") }),
        });
    }

    // ---- rules
    let rules_key = if top.contains_key("process") && !top.contains_key("rules") { "process" } else { "rules" };
    let rules: Vec<Value> = top.get(rules_key).and_then(|r| r.as_array()).cloned().unwrap_or_default();
    let rpath = |i: usize| vec![Seg::Key(rules_key.to_string()), Seg::Idx(i)];
    // entries that are not rules at all (appended)
    let n = rules.len();
    let with_rules = |extra: Value| {
        let mut rs = rules.clone();
        rs.push(extra);
        set_path(cfg, &[Seg::Key(rules_key.to_string())], Some(Value::Array(rs)))
    };
    for w in [json!(1), json!(true), json!(null), json!(["remove_spaces"]), json!(1.5)] {
        push(&mut out, "wrong_type", "rules[]", true, with_rules(w));
    }
    for name in ["remove_commentz", "Remove_comments", "remove-comments", "", "bundler", "remove_comments ", "$default"] {
        push(&mut out, "unknown_rule_name", "rules[] string", true, with_rules(json!(name)));
        push(&mut out, "unknown_rule_name", "rules[] object", true, with_rules(json!({ "rule": name })));
    }
    for w in [json!(1), json!(true), json!(null), json!(["remove_spaces"]), json!({"name": "remove_spaces"})] {
        push(&mut out, "wrong_type", "rules[].rule", true, with_rules(json!({ "rule": w })));
    }
    push(&mut out, "missing_required", "rules[].rule", false, with_rules(json!({})));
    push(&mut out, "missing_required", "rules[].rule", false, with_rules(json!({"apply_to_files": "**"})));
    push(&mut out, "unknown_rule_property", "rules[] (object with `name` instead of `rule`)", true, with_rules(json!({"name": "remove_spaces"})));
    let _ = n;

    for (i, r) in rules.iter().enumerate() {
        let (name, robj) = match r {
            Value::String(s) => (s.clone(), obj(json!({ "rule": s }))),
            Value::Object(m) => (m.get("rule").and_then(|x| x.as_str()).unwrap_or("").to_string(), m.clone()),
            _ => continue,
        };
        let name = name.as_str();
        let p = rpath(i);
        let with = |k: &str, v: Value| {
            let mut o = robj.clone();
            o.insert(k.to_string(), v);
            set_path(cfg, &p, Some(Value::Object(o)))
        };
        let paramless = PARAMLESS.contains(&name);
        // unknown property
        if paramless {
            for v in [json!(true), json!("x"), json!(1), json!(null), json!([]), json!({}), json!(false)] {
                push(&mut out, "prop_on_parameterless", format!("{}.+", name), true, with("unknown_property", v));
            }
            // a property that exists on another rule
            for k in ["preserve_arguments_side_effects", "include_functions", "except", "strategy", "text", "value"] {
                push(&mut out, "prop_on_parameterless", format!("{}.+", name), true, with(k, json!(true)));
            }
        } else {
            for v in [json!(true), json!("x"), json!(null), json!([])] {
                push(&mut out, "unknown_rule_property", format!("{}.+", name), true, with("unknown_property", v));
            }
            for k in prop_names(name) {
                for m in misspellings(k) {
                    if prop_names(name).contains(&m.as_str()) {
                        continue;
                    }
                    // added next to the correct key, so that only the unknown key is wrong
                    let val = robj.get(*k).cloned().unwrap_or(json!(true));
                    push(&mut out, "unknown_rule_property", format!("{}.{}", name, k), true, with(&m, val));
                }
            }
            for other in ["preserve_arguments_side_effects", "include_functions", "except", "strategy", "text", "value", "match", "globals"] {
                if !prop_names(name).contains(&other) {
                    push(&mut out, "unknown_rule_property", format!("{}.+", name), true, with(other, json!(true)));
                }
            }
        }
        for k in ["apply_to_files", "skip_files"] {
            for m in misspellings(k) {
                if m == "apply_to_files" || m == "skip_files" {
                    continue;
                }
                let class = if paramless { "prop_on_parameterless" } else { "unknown_rule_property" };
                push(&mut out, class, format!("{}.{}", name, k), true, with(&m, json!("**/*.lua")));
            }
            for w in [json!(1), json!(true), json!({}), json!([1]), json!([["a"]]), json!(null), json!(["**/*.lua", 2])] {
                push(&mut out, "wrong_type", format!("rule.{}", k), true, with(k, w));
            }
            for g in INVALID_GLOBS {
                push(&mut out, "invalid_pattern", format!("rule.{}", k), true, with(k, json!(g)));
                push(&mut out, "invalid_pattern", format!("rule.{}[]", k), true, with(k, json!(["**/*.lua", g])));
            }
        }
        // wrong types and invalid values of the documented properties
        for k in prop_names(name) {
            for w in wrong_types(name, k) {
                let mut c = with(k, w);
                // keep the configuration otherwise valid: `text`/`file`, `value`/`env`... exclude each other
                c = drop_colliding(&c, &p, name, k);
                push(&mut out, "wrong_type", format!("{}.{}", name, k), true, c);
            }
            for w in invalid_enum_values(name, k) {
                push(&mut out, "invalid_enum_value", format!("{}.{}", name, k), true, with(k, w));
            }
        }
        match name {
            "remove_comments" | "remove_attribute" => {
                let k = if name == "remove_comments" { "except" } else { "match" };
                for re in INVALID_REGEXES {
                    push(&mut out, "invalid_pattern", format!("{}.{}", name, k), true, with(k, json!([re])));
                    push(&mut out, "invalid_pattern", format!("{}.{}[]", name, k), true, with(k, json!(["ok", re])));
                }
            }
            "append_text_comment" => {
                let mut o = robj.clone();
                o.insert("text".into(), json!("hello"));
                o.insert("file".into(), json!(format!("{}/banner.txt", SCRATCH)));
                push(&mut out, "contradictory", "append_text_comment.text+file", true, set_path(cfg, &p, Some(Value::Object(o))));
                let mut o = robj.clone();
                o.remove("text");
                o.remove("file");
                push(&mut out, "missing_required", "append_text_comment.text|file", false, set_path(cfg, &p, Some(Value::Object(o))));
            }
            "inject_global_value" => {
                let e = json!(super::c19_probe::ENV_SET);
                for (a, av, b, bv) in [
                    ("value", json!(true), "env", e.clone()),
                    ("value", json!(true), "env_json", e.clone()),
                    // (with the variable unset nothing else can reject the configuration: only the collision check does)
                    ("value", json!(true), "env_json", json!(super::c19_probe::ENV_UNSET)),
                    ("env", json!(super::c19_probe::ENV_UNSET), "env_json", json!(super::c19_probe::ENV_UNSET)),
                    ("value", json!(1), "default_value", json!(1)),
                    ("env", e.clone(), "env_json", e.clone()),
                    ("value", json!(true), "default_value", json!(false)),
                    ("value", json!(null), "env", json!(super::c19_probe::ENV_UNSET)),
                ] {
                    let mut o = Map::new();
                    o.insert("rule".into(), json!(name));
                    o.insert("identifier".into(), json!("INJ"));
                    for f in ["apply_to_files", "skip_files"] {
                        if let Some(x) = robj.get(f) {
                            o.insert(f.into(), x.clone());
                        }
                    }
                    o.insert(a.into(), av);
                    o.insert(b.into(), bv);
                    push(&mut out, "contradictory", format!("inject_global_value.{}+{}", a, b), true, set_path(cfg, &p, Some(Value::Object(o))));
                }
                let mut o = robj.clone();
                o.remove("identifier");
                push(&mut out, "missing_required", "inject_global_value.identifier", false, set_path(cfg, &p, Some(Value::Object(o))));
                // documented as "the default value when using an environment variable": without
                // `env` it has no meaning, but the documentation does not call it an error
                let mut o = Map::new();
                o.insert("rule".into(), json!(name));
                o.insert("identifier".into(), json!("INJ"));
                o.insert("default_value".into(), json!(1));
                push(&mut out, "default_value_without_env", "inject_global_value.default_value", false, set_path(cfg, &p, Some(Value::Object(o))));
            }
            "convert_require" => {
                for k in ["current", "target"] {
                    let mut o = robj.clone();
                    o.remove(k);
                    push(&mut out, "missing_required", format!("convert_require.{}", k), false, set_path(cfg, &p, Some(Value::Object(o))));
                    if let Some(mode) = robj.get(k) {
                        let mut pp = p.clone();
                        pp.push(Seg::Key(k.to_string()));
                        corrupt_require_mode(&mut out, cfg, &pp, &format!("convert_require.{}", k), mode, true);
                    }
                }
                // require modes and indexing styles are named by strings; an integer is ill-typed
                // (serde reads an integer tag as a variant index when the value was buffered)
                for k in ["current", "target"] {
                    for n in [0, 1, 2] {
                        push(&mut out, "integer_variant_tag", "convert_require", true, with(k, json!({ "name": n })));
                    }
                }
                for n in [0, 1, 2] {
                    push(&mut out, "integer_variant_tag", "convert_require", true, with("target", json!({"name": "roblox", "indexing_style": {"name": n}})));
                }
                // documented as unsupported (table in convert_require.md), not as an error
                push(&mut out, "roblox_as_current_mode", "convert_require.current", false, with("current", json!("roblox")));
            }
            "rename_variables" => {
                // not valid identifiers: the documentation does not say what happens
                for g in [json!(["1a"]), json!(["a b"]), json!([""]), json!(["$unknown"])] {
                    push(&mut out, "globals_invalid_identifier", "rename_variables.globals", false, with("globals", g));
                }
            }
            _ => {}
        }
        if has_required(name) {
            push(&mut out, "missing_required", format!("{} (string form)", name), false, set_path(cfg, &p, Some(json!(name))));
        }
        // duplicates
        for k in robj.keys() {
            out.push(Corruption { class: "duplicate_key", place: format!("rule.{}", if k == "rule" || k.ends_with("_files") { k.clone() } else { format!("{}.{}", name, k) }), must_reject: false, value: set_path(cfg, &p, Some(Value::Object(robj.clone()))), dup: Some(Dup { path: p.clone(), key: k.clone(), value: robj[k].clone() }) });
        }
    }
    out
}

fn drop_colliding(cfg: &Value, p: &[Seg], rule: &str, key: &str) -> Value {
    let others: &[&str] = match (rule, key) {
        ("append_text_comment", "text") => &["file"],
        ("append_text_comment", "file") => &["text"],
        ("inject_global_value", "env") => &["value", "env_json"],
        ("inject_global_value", "env_json") => &["value", "env"],
        _ => &[],
    };
    let mut c = cfg.clone();
    for o in others {
        let mut q = p.to_vec();
        q.push(Seg::Key(o.to_string()));
        c = set_path(&c, &q, None);
    }
    c
}

// ---------------------------------------------------------------------------------------------
// random configurations

pub fn random_rule(r: &mut Rng) -> Value {
    let rules = all_rules();
    let name = *r.pick(&rules);
    let variants = rule_variants(name);
    let props = r.pick(&variants).clone();
    let fo = filter_options();
    let filters = if r.chance(1, 2) { fo[0].1.clone() } else { r.pick(&fo).1.clone() };
    if props.is_empty() && filters.is_empty() && r.chance(2, 3) {
        return json!(name);
    }
    rule_entry(name, &props, &filters)
}

pub fn random_config(r: &mut Rng) -> Value {
    let mut m = Map::new();
    if !r.chance(1, 12) {
        let n = 1 + r.below(4);
        let rules: Vec<Value> = (0..n).map(|_| random_rule(r)).collect();
        m.insert(if r.chance(1, 10) { "process".into() } else { "rules".into() }, Value::Array(rules));
    }
    if let Some(g) = r.pick(&generator_forms()) {
        m.insert("generator".into(), g.clone());
    }
    if r.chance(1, 3) {
        let fo = filter_options();
        for (k, v) in &r.pick(&fo).1 {
            m.insert(k.clone(), v.clone());
        }
    }
    if r.chance(1, 6) {
        m.insert("bundle".into(), r.pick(&bundle_forms()).clone());
    }
    Value::Object(m)
}
