//! C13 — string and number literals survive generation exactly (independent literal decoder,
//! exhaustive small space + boundary classes).

use super::c02::{norm_block, to_darklua};
use crate::dl;
use crate::framework::*;
use crate::reflua::ast::*;
use crate::reflua::lexer::{lex, Tk};
use crate::reflua::literal::{decode_number, decode_string, Dialect, LitError};
use crate::reflua::parser::{parse_block, Mode};
use crate::rng::{hash64, Rng};
use darklua_core::nodes as dn;
use serde_json::{json, Value};

#[derive(Default)]
pub struct C13 {}

const STR_BATCH: u64 = 96;
const N_SHORT: u64 = 1 + 256 + 65536;

fn short_string(i: u64) -> Vec<u8> {
    if i == 0 {
        vec![]
    } else if i <= 256 {
        vec![(i - 1) as u8]
    } else {
        let k = i - 257;
        vec![(k / 256) as u8, (k % 256) as u8]
    }
}

fn hex(b: &[u8]) -> String {
    b.iter().map(|c| format!("{:02x}", c)).collect()
}
fn unhex(s: &str) -> Vec<u8> {
    (0..s.len() / 2).filter_map(|i| u8::from_str_radix(&s[2 * i..2 * i + 2], 16).ok()).collect()
}

/// structured strings of the quantifier (deterministic)
fn structured_strings() -> Vec<Vec<u8>> {
    let mut v: Vec<Vec<u8>> = vec![];
    // every control / high byte followed by a digit and by a non-digit
    for b in (0u8..32).chain(127..=255) {
        for tail in [b"0".as_ref(), b"9", b"a", b"05", b"\\", b"x41"] {
            let mut s = vec![b];
            s.extend_from_slice(tail);
            v.push(s);
        }
    }
    for s in [
        "'", "\"", "'\"", "\"'", "it's \"quoted\"", "\\", "\\\\", "\\n", "\\\"", "a\\", "]]", "]=]", "]==]", "]]]", "[[", "[=[", "a]]b]=]c]==]d", "]", "x]", "]x", "\n", "\nab", "ab\n", "a\nb", "\r", "\r\n", "a\r\nb", "\n\r", "\n\n\n\n\n", "\n\n\n\n\n\n", "\n\n\n\n\n\n\n",
        "a\n\n\n\n\n\n]]", "\n]]", "]]\n", "--", "--[[", "`", "`{x}`", "{", "\\u{41}", "\\x41", "\\z", "\0", "a\0b", "\0\0", "\u{7f}", "é", "日本語", "\u{10FFFF}", "\u{1F600}", "\u{feff}bom",
    ] {
        v.push(s.as_bytes().to_vec());
    }
    // invalid UTF-8 at each position of a short text
    for pos in 0..4 {
        for bad in [0x80u8, 0xC0, 0xFF, 0xED] {
            let mut s = b"abc".to_vec();
            s.insert(pos, bad);
            v.push(s);
        }
    }
    v.push(vec![0xE2, 0x82]); // truncated sequence
    v.push(vec![0xF0, 0x9F, 0x98]);
    // lengths around the long-string thresholds
    for n in (16..=24).chain(56..=64).chain([100, 200]) {
        v.push(vec![b'a'; n]);
        let mut s = vec![b'a'; n];
        s[n / 2] = b'\n';
        v.push(s.clone());
        s[n / 3] = b'"';
        s[n / 4] = b'\'';
        v.push(s.clone());
        s[n - 1] = b']';
        v.push(s.clone());
        s[1] = b'\\';
        v.push(s);
    }
    // texts long enough for the long-bracket form holding every combination of closing brackets of levels 0-3
    // (the level chosen for the literal has to avoid all of them), with and without a trailing `]`
    for mask in 0u32..16 {
        for tail in ["", "]", "]=", "]==", "]]", "]=]"] {
            let mut s = b"a text that is long enough to be written between long brackets: ".to_vec();
            for (lvl, closer) in ["]]", "]=]", "]==]", "]===]"].iter().enumerate() {
                if mask & (1 << lvl) != 0 {
                    s.extend_from_slice(format!("close {} then ", closer).as_bytes());
                }
            }
            s.extend_from_slice(b"the end");
            s.extend_from_slice(tail.as_bytes());
            v.push(s);
        }
    }
    // newline counts around the threshold, with and without brackets inside
    for n in 3..=8 {
        let mut s = vec![];
        for i in 0..n {
            s.extend_from_slice(format!("line{}\n", i).as_bytes());
        }
        v.push(s.clone());
        s.extend_from_slice(b"]]");
        v.push(s.clone());
        s.extend_from_slice(b"]=]");
        v.push(s.clone());
        s.push(b']');
        v.push(s.clone());
        s.insert(0, b'\n');
        v.push(s.clone());
        s.insert(3, b'\r');
        v.push(s);
    }
    v
}

fn str_contexts(s: &[u8]) -> Vec<Expr> {
    let lit = || Expr::Str(s.to_vec(), String::new());
    vec![
        lit(),
        Expr::Call { func: Box::new(Expr::name("f")), args: vec![lit()], sugar: CallSugar::Str },
        Expr::call(Expr::name("f"), vec![lit(), lit()]),
        Expr::index(Expr::name("t"), lit()),
        Expr::Table(vec![TableItem::Keyed(lit(), Expr::num(1.0)), TableItem::Pos(lit())]),
        Expr::bin(BinOp::Concat, Expr::name("a"), lit()),
        Expr::bin(BinOp::Concat, lit(), Expr::name("a")),
        Expr::MethodCall { obj: Box::new(Expr::paren(lit())), name: "rep".into(), args: vec![Expr::num(2.0)], sugar: CallSugar::Parens, targs: None },
        Expr::bin(BinOp::Eq, lit(), lit()),
    ]
}

fn to_dl(e: &Expr) -> Option<dn::Expression> {
    // like c02::to_darklua, plus the string-call sugar form
    if let Expr::Call { func, args, sugar: CallSugar::Str } = e {
        if let (Expr::Name(n), Some(Expr::Str(b, _))) = (&**func, args.first()) {
            return Some(dn::FunctionCall::from_name(n.clone()).with_arguments(dn::StringExpression::from_value(b.clone())).into());
        }
    }
    to_darklua(e)
}

fn generate_all(block: &dn::Block, r: &mut Rng) -> Vec<(String, String)> {
    let span = *r.pick(&[80usize, 80, 10, 1, 200]);
    vec![
        ("dense".to_string(), dl::gen_dense(block, 80)),
        (format!("dense@{}", span), dl::gen_dense(block, span)),
        ("readable".to_string(), dl::gen_readable(block, 80)),
        ("token_based".to_string(), dl::gen_token_based(block, "")),
    ]
}

fn check_string(s: &[u8], r: &mut Rng, cov: &mut Cov) -> Result<(), (String, String)> {
    for (ci, ctx) in str_contexts(s).iter().enumerate() {
        let Some(de) = to_dl(ctx) else { continue };
        let block = dn::Block::default().with_last_statement(dn::ReturnStatement::one(de));
        let expected = norm_block(&Block { stmts: vec![Stmt::Return(vec![ctx.clone()])] });
        for (gname, text) in generate_all(&block, r) {
            cov.eval(None);
            let gclass = gname.split('@').next().unwrap_or("").to_string();
            // Luau's rules: the independent parser must read back exactly the same bytes, in the same place
            let parsed = match parse_block(&text, Mode::Luau) {
                Ok(b) => b,
                Err(e) => return Err((format!("string:{}:unparsable", gclass), format!("value {:?} (hex {}), context {}, generator {}: output is rejected: {}\n--- output\n{}", String::from_utf8_lossy(s), hex(s), ci, gname, e, text))),
            };
            let got = norm_block(&parsed);
            if got != expected {
                return Err((format!("string:{}:wrong-bytes", gclass), format!("value {:?} (hex {}), context {}, generator {}: the literal reads back differently\n--- output\n{}\n--- expected\n{}\n--- got\n{}", String::from_utf8_lossy(s), hex(s), ci, gname, text, expected, got)));
            }
            // Lua 5.1's rules, unless the literal needs \u{...}
            if let Ok(lx) = lex(&text, true) {
                for t in &lx.tokens {
                    if t.kind == Tk::Str {
                        let lit = lx.text(t);
                        if lit.contains("\\u{") {
                            cov.hit("literal_with_unicode_escape_(5.1_exempt)");
                            continue;
                        }
                        let form = if lit.starts_with('[') { "long-bracket" } else if lit.starts_with('"') { "double-quoted" } else { "single-quoted" };
                        cov.hit(&format!("quoting:{}", form));
                        match (decode_string(lit, Dialect::Luau), decode_string(lit, Dialect::L51)) {
                            (Ok(a), Ok(b)) => {
                                if a != b {
                                    return Err((format!("string:{}:lua51-reads-differently", gclass), format!("value hex {}, generator {}: literal {} is read as {:?} by Luau but as {:?} by Lua 5.1", hex(s), gname, lit, hex(&a), hex(&b))));
                                }
                            }
                            (Ok(_), Err(LitError::Uncertain(_))) => cov.hit("lua51_reading_uncertain"),
                            (Ok(_), Err(LitError::Invalid(m))) => return Err((format!("string:{}:lua51-rejects", gclass), format!("value hex {}, generator {}: literal {} is invalid in Lua 5.1: {}", hex(s), gname, lit, m))),
                            _ => {}
                        }
                    }
                }
            }
        }
    }
    Ok(())
}

// ------------------------------------------------------------------------------ numbers

fn boundary_doubles() -> Vec<f64> {
    let mut v: Vec<f64> = vec![0.0, -0.0, f64::INFINITY, f64::NEG_INFINITY, f64::NAN, f64::MAX, f64::MIN_POSITIVE, 5e-324, f64::EPSILON];
    let mut around = |x: f64, v: &mut Vec<f64>| {
        if x.is_finite() {
            let b = x.to_bits();
            v.push(x);
            v.push(f64::from_bits(b.wrapping_add(1)));
            if b > 0 {
                v.push(f64::from_bits(b - 1));
            }
        }
    };
    for e in -1074..=1023 {
        around(2f64.powi(e), &mut v);
    }
    for e in -323..=308 {
        let x: f64 = format!("1e{}", e).parse().unwrap();
        around(x, &mut v);
        let y: f64 = format!("9.999999999999999e{}", e).parse().unwrap_or(0.0);
        around(y, &mut v);
    }
    for k in 0..=40u64 {
        v.push((9007199254740992u64 - 20 + k) as f64);
        v.push((9007199254740992u64 + 2 * k) as f64);
    }
    for s in [
        "0.1", "0.2", "0.3", "0.7", "1.1", "1e23", "8.41e21", "2.2250738585072011e-308", "2.2250738585072014e-308", "4.9406564584124654e-324", "1.7976931348623157e308", "123456789012345680000", "5e-324", "9007199254740993", "0.30000000000000004", "1.0000000000000002",
        "0.000001", "0.0000001", "1e21", "1e22", "123456.789", "3.141592653589793", "2.718281828459045", "1e15", "1e16", "1e17", "999999999999999", "0.5", "0.25", "255", "65535", "4294967295", "4294967296", "1e100", "1e-100", "6.02214076e23", "1.5e-7",
    ] {
        let x: f64 = s.parse().unwrap();
        v.push(x);
        v.push(-x);
    }
    v
}

fn num_exprs(d: f64) -> Vec<(String, dn::Expression)> {
    let mut out: Vec<(String, dn::Expression)> = vec![("from_f64".into(), dn::Expression::from(d))];
    if d.is_finite() && (d > 0.0 || (d == 0.0 && d.is_sign_positive())) {
        out.push(("decimal".into(), dn::DecimalNumber::new(d).into()));
        let e10 = if d == 0.0 { 0 } else { d.abs().log10().floor() as i64 };
        for (e, up) in [(e10, false), (e10, true), (0, false), (-3, false), (5, true), (e10 - 2, false), (e10 + 2, false)] {
            out.push((format!("decimal_exp{}{}", e, if up { "E" } else { "e" }), dn::DecimalNumber::new(d).with_exponent(e, up).into()));
        }
        if d.fract() == 0.0 && d < 18446744073709551616.0 {
            let u = d as u64;
            if u as f64 == d {
                out.push(("hex".into(), dn::HexNumber::new(u, false).into()));
                out.push(("HEX".into(), dn::HexNumber::new(u, true).into()));
                out.push(("binary".into(), dn::BinaryNumber::new(u, false).into()));
            }
        }
    }
    out
}

fn eval_text(text: &str) -> Result<(String, bool), String> {
    // value of `text` (a chunk returning one number) by the reference interpreter (Luau literal rules)
    let o = crate::reflua::run_source(text, Dialect::Luau, 10_000, false)?;
    match o.status {
        crate::reflua::interp::Status::Done(v) if v.len() == 1 => Ok((v[0].clone(), o.uncertain.is_some())),
        other => Err(format!("unexpected outcome {:?}", other)),
    }
}

fn expected_repr(d: f64) -> String {
    if d.is_nan() {
        "nan".into()
    } else {
        format!("{:?}", d)
    }
}

fn check_number(d: f64, r: &mut Rng, cov: &mut Cov) -> Result<(), (String, String)> {
    for (vname, de) in num_exprs(d) {
        // contexts: alone, next to `..` on both sides, as operand of ^ and -, as index
        let a = || dn::Expression::from(dn::Identifier::new("a"));
        let ctxs: Vec<(&str, dn::Expression, bool)> = vec![
            ("alone", de.clone(), true),
            ("concat-right", dn::BinaryExpression::new(dn::BinaryOperator::Concat, a(), de.clone()).into(), false),
            ("concat-left", dn::BinaryExpression::new(dn::BinaryOperator::Concat, de.clone(), a()).into(), false),
            ("minus", dn::BinaryExpression::new(dn::BinaryOperator::Minus, a(), de.clone()).into(), false),
            ("unary-minus", dn::UnaryExpression::new(dn::UnaryOperator::Minus, de.clone()).into(), false),
            ("index", dn::IndexExpression::new(dn::Prefix::from_name("t"), de.clone()).into(), false),
        ];
        for (cname, e, evaluate) in ctxs {
            let block = dn::Block::default().with_last_statement(dn::ReturnStatement::one(e));
            for (gname, text) in generate_all(&block, r) {
                cov.eval(None);
                let gclass = gname.split('@').next().unwrap_or("").to_string();
                if evaluate {
                    match eval_text(&text) {
                        Ok((got, _)) => {
                            let want = expected_repr(d);
                            if got != want {
                                return Err((format!("number:{}:{}:wrong-value", gclass, vname.split("_exp").next().unwrap_or(&vname)), format!("double {:?} (bits {:#x}) as {} written by {} reads back as {}\n--- output\n{}", d, d.to_bits(), vname, gname, got, text)));
                            }
                            cov.hit(&format!("number_variant:{}", vname.split("_exp").next().unwrap_or(&vname)));
                        }
                        Err(e) => return Err((format!("number:{}:{}:unreadable", gclass, vname.split("_exp").next().unwrap_or(&vname)), format!("double {:?} as {} written by {}: {}\n--- output\n{}", d, vname, gname, e, text))),
                    }
                } else {
                    // next to other tokens the text must still parse and contain the same number token(s) as alone
                    if let Err(e) = parse_block(&text, Mode::Luau) {
                        return Err((format!("number:{}:{}:adjacent-token-fusion", gclass, cname), format!("double {:?} as {} in context {} written by {} does not parse: {}\n--- output\n{}", d, vname, cname, gname, e, text)));
                    }
                    // evaluate with a = 1 / t = {} to make sure the number did not fuse with a neighbour
                    if cname == "minus" || cname == "unary-minus" {
                        let prog = format!("local a = 0\n{}", text);
                        if let Ok((got, _)) = eval_text(&prog) {
                            let want = expected_repr(-d);
                            if got != want && !(d == 0.0) {
                                return Err((format!("number:{}:{}:wrong-value", gclass, cname), format!("double {:?} as {} in context {} written by {}: 0 - d / -d evaluates to {} (expected {})\n--- output\n{}", d, vname, cname, gname, got, want, text)));
                            }
                        }
                    }
                }
            }
        }
    }
    Ok(())
}

const NUM_TEXTS: [&str; 64] = [
    "0", "1", "10", "007", "1.", ".5", "0.5", "5.0", "1e3", "1E3", "1e+3", "1e-3", "1.5e10", ".5e1", "5.e1", "1e308", "1e309", "1e-323", "1e-324", "4.9e-324", "2.4703282292062327e-324", "2.4703282292062328e-324", "0.1", "0.30000000000000004",
    "9007199254740992", "9007199254740993", "9007199254740994", "18446744073709551615", "18446744073709551616", "123456789012345678901234567890", "0x0", "0x1", "0xff", "0XFF", "0xDeadBeef", "0x7fffffffffffffff", "0x8000000000000000", "0xffffffffffffffff",
    "0x20000000000001", "0x20000000000002", "0x20000000000003", "0b0", "0b1", "0B101", "0b1111111111111111111111111111111111111111111111111111111111111111", "1_000", "1_000.000_1", "0x_ff", "0xf_f", "0b1_0", "1__0", "1_", "1e1_0", "1_e10",
    "3.14159", "100000000000000000000", "1e21", "1e22", "8.41e21", "5e-324", "17976931348623157e292", "0.000001", "1e15", "1e16",
];

const STR_TEXTS: [&str; 40] = [
    "'a'", "\"a\"", "'\\n'", "'\\a\\b\\f\\n\\r\\t\\v'", "'\\\\'", "'\\''", "\"\\\"\"", "'\\65'", "'\\065'", "'\\0651'", "'\\255'", "'\\0'", "'\\00'", "'\\000a'", "'\\x41'", "'\\x4a\\xff'", "'\\u{41}'", "'\\u{20AC}'", "'\\u{10FFFF}'", "'\\u{0}'",
    "'a\\z   b'", "'a\\z\n   b'", "'a\\\nb'", "'a\\\r\nb'", "[[a]]", "[[\na]]", "[[\r\na]]", "[[a\r\nb]]", "[=[a]]b]=]", "[==[]=]]==]", "[[]]", "''", "\"\"", "'\\q'", "'tab\there'", "'\\z'", "\"it's\"", "'é'", "'\\195\\169'", "[[\n\n]]",
];

fn doubles_count() -> u64 {
    boundary_doubles().len() as u64
}

impl Monitor for C13 {
    fn id(&self) -> &'static str {
        "C13"
    }
    fn rule_text(&self) -> String {
        format!(
            "strings: all {} byte strings of length <= 2 (exhaustive) and {} structured ones (control/high bytes followed by digits, quotes, backslashes, ]]/]=] runs, leading newline, CR/CRLF, invalid UTF-8 at each position, lengths around the long-string thresholds, newline counts around the threshold), each built as a string node and written in 9 syntactic contexts by dense (two spans), readable and the token-based generator; the independent parser must read back the same bytes (Luau rules) and every literal without \\u{{}} must decode identically under Lua 5.1 rules. numbers: {} boundary doubles (all powers of two and ten with +-1 ulp neighbours, subnormals, 2^53 neighbourhood, shortest-representation hard cases, +-0, inf, nan) through the public f64 conversion, plain decimal nodes, recorded exponents (7 settings, both cases), hex and binary nodes, in 6 contexts; the reference interpreter must read back the identical bits. parsing: {} number texts and {} string texts read by darklua's parser must get the value the independent Luau literal decoder gives. Random byte strings (length 3-40, biased to hostile bytes) and random bit patterns beyond. Every evaluation is non-trivial except the empty string; distinct = hash of (value, kind).",
            N_SHORT,
            structured_strings().len(),
            doubles_count(),
            NUM_TEXTS.len(),
            STR_TEXTS.len()
        )
    }
    fn assumptions(&self) -> Vec<String> {
        vec![
            "reflua::literal implements the escape and number rules of the Lua 5.1 manual and of Luau's lexer; cases where it is unsure (hex beyond 64 bits, \\u beyond 10FFFF, long string starting with a lone CR) are not judged".into(),
            "decimal -> double conversion of the reference goes through Rust's correctly rounded parser".into(),
        ]
    }
    fn exhaustive_note(&self, _tier: Tier) -> Option<String> {
        Some(format!("all {} byte strings of length <= 2 x 9 contexts x 4 generator settings; all {} boundary doubles", N_SHORT, doubles_count()))
    }
    fn plan(&self, tier: Tier) -> Plan {
        let det = (N_SHORT + STR_BATCH - 1) / STR_BATCH + (structured_strings().len() as u64 + 15) / 16 + (doubles_count() + 31) / 32 + 2;
        Plan { deterministic: det, max_cases: u64::MAX, budget_s: if tier == Tier::Quick { 40.0 } else { 600.0 } }
    }
    fn floors(&self, _tier: Tier) -> Vec<(String, u64)> {
        vec![("strings_checked".into(), 60000), ("doubles_checked".into(), 2000), ("parsed_number_texts".into(), 20)]
    }
    fn gen(&mut self, _tier: Tier, seed: u64, index: u64) -> Option<Case> {
        let n1 = (N_SHORT + STR_BATCH - 1) / STR_BATCH;
        if index < n1 {
            return Some(json!({"kind": "short", "from": index * STR_BATCH, "to": ((index + 1) * STR_BATCH).min(N_SHORT)}));
        }
        let i = index - n1;
        let ss = structured_strings();
        let n2 = (ss.len() as u64 + 15) / 16;
        if i < n2 {
            let chunk: Vec<String> = ss.iter().skip((i * 16) as usize).take(16).map(|s| hex(s)).collect();
            return Some(json!({"kind": "strings", "hex": chunk}));
        }
        let i = i - n2;
        let ds = boundary_doubles();
        let n3 = (ds.len() as u64 + 31) / 32;
        if i < n3 {
            let chunk: Vec<String> = ds.iter().skip((i * 32) as usize).take(32).map(|d| d.to_bits().to_string()).collect();
            return Some(json!({"kind": "doubles", "bits": chunk}));
        }
        let i = i - n3;
        if i == 0 {
            return Some(json!({"kind": "parse_numbers", "texts": NUM_TEXTS.to_vec()}));
        }
        if i == 1 {
            return Some(json!({"kind": "parse_strings", "texts": STR_TEXTS.to_vec()}));
        }
        let mut r = case_rng("C13", seed, index);
        if r.bool() {
            let mut chunk = vec![];
            for _ in 0..8 {
                let n = 3 + r.below(38);
                let s: Vec<u8> = (0..n)
                    .map(|_| match r.below(10) {
                        0 => b'\\',
                        1 => *r.pick(&[b'"', b'\'', b'`']),
                        2 => *r.pick(&[b'\n', b'\r', 0, 7, 27]),
                        3 => b']',
                        4 => *r.pick(&[b'0', b'9', b'=' , b'[']),
                        5 => 128 + r.below(128) as u8,
                        _ => 32 + r.below(95) as u8,
                    })
                    .collect();
                chunk.push(hex(&s));
            }
            Some(json!({"kind": "strings", "hex": chunk}))
        } else {
            let mut chunk = vec![];
            for _ in 0..8 {
                let bits = match r.below(4) {
                    0 => r.next_u64(),
                    1 => (r.next_u64() >> 12) | ((1023 + r.range(-60, 60)) as u64) << 52,
                    2 => ((r.below(1 << 20) as f64) / 1000.0).to_bits(),
                    _ => ((r.next_u64() % (1u64 << 54)) as f64).to_bits(),
                };
                let d = f64::from_bits(bits);
                chunk.push(d.to_bits().to_string());
            }
            Some(json!({"kind": "doubles", "bits": chunk}))
        }
    }

    fn run(&mut self, case: &Case, cov: &mut Cov) -> Verdict {
        let mut r = Rng::new(hash64(case.to_string().as_bytes()));
        match case["kind"].as_str() {
            Some("short") => {
                let from = case["from"].as_u64().unwrap_or(0);
                let to = case["to"].as_u64().unwrap_or(0);
                for i in from..to {
                    let s = short_string(i);
                    if let Err((sig, detail)) = check_string(&s, &mut r, cov) {
                        return Verdict::Violated { signature: sig, detail, narrowed: Some(json!({"kind": "strings", "hex": [hex(&s)]})) };
                    }
                    cov.hit("strings_checked");
                    cov.distinct.insert(hash64(&s) ^ 0x13);
                }
                Verdict::Held
            }
            Some("strings") => {
                for h in case["hex"].as_array().cloned().unwrap_or_default() {
                    let s = unhex(h.as_str().unwrap_or(""));
                    if let Err((sig, detail)) = check_string(&s, &mut r, cov) {
                        return Verdict::Violated { signature: sig, detail, narrowed: Some(json!({"kind": "strings", "hex": [hex(&s)]})) };
                    }
                    cov.hit("strings_checked");
                    cov.distinct.insert(hash64(&s) ^ 0x13);
                    if cov.want_sample() && s.len() > 2 {
                        let block = dn::Block::default().with_last_statement(dn::ReturnStatement::one(dn::StringExpression::from_value(s.clone())));
                        cov.sample(json!({"bytes_hex": hex(&s), "dense": dl::gen_dense(&block, 80)}));
                    }
                }
                Verdict::Held
            }
            Some("doubles") => {
                for b in case["bits"].as_array().cloned().unwrap_or_default() {
                    let bits: u64 = b.as_str().unwrap_or("0").parse().unwrap_or(0);
                    let d = f64::from_bits(bits);
                    if let Err((sig, detail)) = check_number(d, &mut r, cov) {
                        return Verdict::Violated { signature: sig, detail, narrowed: Some(json!({"kind": "doubles", "bits": [bits.to_string()]})) };
                    }
                    cov.hit("doubles_checked");
                    cov.distinct.insert(bits ^ 0x1300);
                    if cov.want_sample() && d.is_finite() {
                        let block = dn::Block::default().with_last_statement(dn::ReturnStatement::one(dn::Expression::from(d)));
                        cov.sample(json!({"double": format!("{:?}", d), "dense": dl::gen_dense(&block, 80)}));
                    }
                }
                Verdict::Held
            }
            Some("parse_numbers") => {
                for t in case["texts"].as_array().cloned().unwrap_or_default() {
                    let t = t.as_str().unwrap_or("0").to_string();
                    cov.eval(Some(hash64(t.as_bytes())));
                    let want = decode_number(&t, Dialect::Luau);
                    let src = format!("return {}", t);
                    let got = dl::parse(&src);
                    match (&want, &got) {
                        (Err(LitError::Uncertain(_)), _) => cov.hit("parse_number_not_judged"),
                        (Err(LitError::Invalid(_)), Ok(_)) => cov.hit("parse_number_darklua_accepts_what_luau_rejects_(not_judged)"),
                        (Err(_), Err(_)) => cov.hit("parse_number_both_reject"),
                        (Ok(_), Err(e)) => return Verdict::Violated { signature: "parse-number:rejected".into(), detail: format!("darklua rejects the valid Luau number `{}`: {}", t, e.lines().next().unwrap_or("")), narrowed: Some(json!({"kind": "parse_numbers", "texts": [t]})) },
                        (Ok(w), Ok(block)) => {
                            let v = match block.get_last_statement() {
                                Some(dn::LastStatement::Return(ret)) => match ret.iter_expressions().next() {
                                    Some(dn::Expression::Number(n)) => Some(n.compute_value()),
                                    _ => None,
                                },
                                _ => None,
                            };
                            match v {
                                Some(v) if v.to_bits() == w.to_bits() => cov.hit("parsed_number_texts"),
                                Some(v) => return Verdict::Violated { signature: "parse-number:wrong-value".into(), detail: format!("number literal `{}`: Luau reads {:?}, darklua's node computes {:?}", t, w, v), narrowed: Some(json!({"kind": "parse_numbers", "texts": [t]})) },
                                None => cov.hit("parse_number_not_a_number_node"),
                            }
                        }
                    }
                }
                Verdict::Held
            }
            Some("parse_strings") => {
                for t in case["texts"].as_array().cloned().unwrap_or_default() {
                    let t = t.as_str().unwrap_or("''").to_string();
                    cov.eval(Some(hash64(t.as_bytes())));
                    let want = decode_string(&t, Dialect::Luau);
                    let src = format!("return {}", t);
                    match (&want, dl::parse(&src)) {
                        (Ok(w), Ok(block)) => {
                            let v = match block.get_last_statement() {
                                Some(dn::LastStatement::Return(ret)) => match ret.iter_expressions().next() {
                                    Some(dn::Expression::String(s)) => Some(s.get_value().to_vec()),
                                    _ => None,
                                },
                                _ => None,
                            };
                            match v {
                                Some(v) if &v == w => cov.hit("parsed_string_texts"),
                                // reading string literals is not part of C13's statement (it speaks about written strings and
                                // parsed numbers): observed and counted only
                                Some(_) => cov.hit("parsed_string_value_differs_from_luau_(observed,_not_part_of_the_property)"),
                                None => cov.hit("parse_string_not_a_string_node"),
                            }
                        }
                        (Ok(_), Err(_)) => cov.hit("parsed_string_rejected_(observed,_not_part_of_the_property)"),
                        _ => cov.hit("parse_string_not_judged"),
                    }
                }
                Verdict::Held
            }
            _ => Verdict::discard("unknown case kind"),
        }
    }

    fn classify(&mut self, case: &Case, signature: &str) -> String {
        // class of the value of single-value cases
        if let Some(h) = case["hex"].as_array().and_then(|a| if a.len() == 1 { a[0].as_str() } else { None }) {
            let s = unhex(h);
            let class = if s.iter().any(|b| *b >= 0x80) && std::str::from_utf8(&s).is_err() {
                "invalid-utf8"
            } else if s.iter().any(|b| *b >= 0x80) {
                "non-ascii-utf8"
            } else if s.contains(&b'\r') {
                "carriage-return"
            } else if s.iter().any(|b| *b < 32 && *b != b'\n') {
                "control-byte"
            } else if s.contains(&b'\n') {
                "newline"
            } else {
                "printable"
            };
            return format!("{}|{}", signature, class);
        }
        if let Some(b) = case["bits"].as_array().and_then(|a| if a.len() == 1 { a[0].as_str() } else { None }) {
            let d = f64::from_bits(b.parse().unwrap_or(0));
            let class = if d.is_nan() {
                "nan"
            } else if d.is_infinite() {
                "inf"
            } else if d == 0.0 {
                "zero"
            } else if d.abs() < f64::MIN_POSITIVE {
                "subnormal"
            } else if d.abs() >= 1e21 {
                "huge"
            } else if d.abs() < 1e-6 {
                "tiny"
            } else if d.fract() == 0.0 {
                "integer"
            } else {
                "fraction"
            };
            return format!("{}|{}", signature, class);
        }
        if let Some(t) = case["texts"].as_array().and_then(|a| if a.len() == 1 { a[0].as_str() } else { None }) {
            return format!("{}|{}", signature, t);
        }
        signature.to_string()
    }
}

#[allow(dead_code)]
fn _unused(_: Value) {}
