//! C04 — retain_lines keeps surviving code on its original line (unique literal markers).

use crate::dl;
use crate::framework::*;
use crate::gen::layout::{layout_tokens, tokens_preserved, LayoutOpts};
use crate::gen::prog::{self, Feat};
use crate::reflua::ast::*;
use crate::reflua::lexer::{lex, Tk};
use crate::reflua::print::{PrintOpts, Printer};
use crate::rng::{hash64, Rng};
use serde_json::json;
use std::collections::BTreeMap;
use std::rc::Rc;

#[derive(Default)]
pub struct C04 {}

struct Marker<'a> {
    r: &'a mut Rng,
    next: u32,
}

impl<'a> Marker<'a> {
    fn lit(&mut self) -> Expr {
        self.next += 1;
        Expr::Str(format!("M{}_", self.next).into_bytes(), String::new())
    }
    fn wrap(&mut self, e: Expr) -> Expr {
        // mark("M<k>_", e): a global function call with a unique literal; no rule can fold or move it
        let l = self.lit();
        Expr::call(Expr::name("mark"), vec![l, e])
    }
    fn block(&mut self, b: &Block) -> Block {
        let mut out = vec![];
        for s in &b.stmts {
            if !matches!(s, Stmt::Return(_) | Stmt::Break | Stmt::Continue) || true {
                if self.r.chance(1, 2) && !matches!(out.last(), Some(Stmt::Return(_) | Stmt::Break | Stmt::Continue)) {
                    let l = self.lit();
                    out.push(Stmt::Call(Expr::call(Expr::name("mark"), vec![l])));
                }
            }
            out.push(self.stmt(s));
        }
        Block { stmts: out }
    }
    fn func(&mut self, f: &Rc<FuncBody>) -> Rc<FuncBody> {
        let mut nf = (**f).clone();
        nf.body = self.block(&f.body);
        Rc::new(nf)
    }
    fn exprs(&mut self, es: &[Expr]) -> Vec<Expr> {
        es.iter().map(|e| self.expr(e, true)).collect()
    }
    fn stmt(&mut self, s: &Stmt) -> Stmt {
        match s {
            Stmt::Local { names, values, is_const } => Stmt::Local { names: names.clone(), values: self.exprs(values), is_const: *is_const },
            Stmt::Assign { targets, values } => Stmt::Assign { targets: targets.iter().map(|t| self.expr(t, false)).collect(), values: self.exprs(values) },
            Stmt::CompoundAssign { target, op, value } => Stmt::CompoundAssign { target: self.expr(target, false), op: *op, value: self.expr(value, true) },
            Stmt::Call(e) => Stmt::Call(self.expr(e, false)),
            Stmt::Do(b) => Stmt::Do(self.block(b)),
            Stmt::While { cond, body } => Stmt::While { cond: self.expr(cond, true), body: self.block(body) },
            Stmt::Repeat { body, cond } => Stmt::Repeat { body: self.block(body), cond: self.expr(cond, true) },
            Stmt::If { clauses, else_block } => Stmt::If { clauses: clauses.iter().map(|(c, b)| (self.expr(c, true), self.block(b))).collect(), else_block: else_block.as_ref().map(|b| self.block(b)) },
            Stmt::NumFor { var, start, limit, step, body } => Stmt::NumFor { var: var.clone(), start: self.expr(start, true), limit: self.expr(limit, true), step: step.as_ref().map(|s| self.expr(s, true)), body: self.block(body) },
            Stmt::GenFor { vars, exprs, body } => Stmt::GenFor { vars: vars.clone(), exprs: self.exprs(exprs), body: self.block(body) },
            Stmt::Function { name, func } => Stmt::Function { name: name.clone(), func: self.func(func) },
            Stmt::LocalFunction { name, func } => Stmt::LocalFunction { name: name.clone(), func: self.func(func) },
            Stmt::Return(es) => Stmt::Return(self.exprs(es)),
            other => other.clone(),
        }
    }
    /// `wrappable`: the expression is a value position (not an assignment target / call statement head)
    fn expr(&mut self, e: &Expr, wrappable: bool) -> Expr {
        let inner = match e {
            Expr::Function(f) => Expr::Function(self.func(f)),
            Expr::Index(a, k) => Expr::Index(Box::new(self.expr(a, false)), Box::new(self.expr(k, true))),
            Expr::Field(a, f) => Expr::Field(Box::new(self.expr(a, false)), f.clone()),
            Expr::Call { func, args, sugar } => {
                let a = self.exprs(args);
                let sugar = if a.len() == 1 && matches!((&a[0], sugar), (Expr::Str(..), CallSugar::Str) | (Expr::Table(..), CallSugar::Table)) { *sugar } else { CallSugar::Parens };
                Expr::Call { func: Box::new(self.expr(func, false)), args: a, sugar }
            }
            Expr::MethodCall { obj, name, args, targs, .. } => Expr::MethodCall { obj: Box::new(self.expr(obj, false)), name: name.clone(), args: self.exprs(args), sugar: CallSugar::Parens, targs: targs.clone() },
            Expr::Binary(op, a, b) => Expr::Binary(*op, Box::new(self.expr(a, true)), Box::new(self.expr(b, true))),
            Expr::Unary(op, a) => Expr::Unary(*op, Box::new(self.expr(a, true))),
            Expr::Paren(a) => Expr::Paren(Box::new(self.expr(a, true))),
            Expr::Table(items) => Expr::Table(
                items
                    .iter()
                    .map(|it| match it {
                        TableItem::Pos(v) => TableItem::Pos(self.expr(v, true)),
                        TableItem::Named(k, v) => TableItem::Named(k.clone(), self.expr(v, true)),
                        TableItem::Keyed(k, v) => TableItem::Keyed(self.expr(k, true), self.expr(v, true)),
                    })
                    .collect(),
            ),
            Expr::IfExpr { clauses, else_ } => Expr::IfExpr { clauses: clauses.iter().map(|(c, v)| (self.expr(c, true), self.expr(v, true))).collect(), else_: Box::new(self.expr(else_, true)) },
            other => other.clone(),
        };
        if wrappable && self.r.chance(1, 4) && !matches!(inner, Expr::Vararg) {
            self.wrap(inner)
        } else {
            inner
        }
    }
}

const LINE_NEUTRAL: [&str; 16] = [
    "'remove_compound_assignment'",
    "'remove_continue'",
    "'remove_if_expression'",
    "'remove_interpolated_string'",
    "'remove_floor_division'",
    "'convert_luau_number'",
    "'make_assignment_local'",
    "'remove_types'",
    "'remove_assertions'",
    "'remove_debug_profiling'",
    "{ rule: 'inject_global_value', identifier: 'INJ', value: 7 }",
    "'convert_local_function_to_assign'",
    "'convert_function_to_assignment'",
    "'remove_method_call'",
    "'convert_square_root_call'",
    "'remove_attribute'",
];

/// one marked source file for the bundle flow; markers are numbered from `base`; a module returns exactly one value
fn marked_file(r: &mut Rng, base: u32, module: bool) -> String {
    let mut f = Feat::default();
    f.max_stmts = 4 + r.below(14);
    f.avoid = vec!["and_or_multivalue_tail".into()];
    let (mut block, _) = prog::generate(r, f);
    if module {
        // the generated program returns a list: a module returns one value, here a call whose arguments span lines
        if let Some(Stmt::Return(es)) = block.stmts.last().cloned() {
            let mut args = vec![Expr::str("#")];
            args.extend(es);
            let n = block.stmts.len();
            block.stmts[n - 1] = Stmt::Return(vec![match r.below(3) {
                0 => Expr::call(Expr::name("select"), args),
                1 => Expr::Table(args.into_iter().map(TableItem::Pos).collect()),
                _ => Expr::call(Expr::name("pack"), args),
            }]);
        }
    }
    let marked = {
        let mut m = Marker { r, next: base };
        m.block(&block)
    };
    let mut p = Printer::new(PrintOpts::default());
    p.block(&marked);
    let o = LayoutOpts { newline: 0, comment_pct: *r.pick(&[0, 5]), newline_pct: *r.pick(&[10, 25, 40]), trailing_newline: r.bool(), tabs: false, statement_lines: r.chance(3, 4), doc_block_pct: 0 };
    let (text, _) = layout_tokens(&p.toks, r, &o);
    if tokens_preserved(&text, &p.toks) {
        text
    } else {
        layout_tokens(&p.toks, r, &LayoutOpts { comment_pct: 0, ..o }).0
    }
}

/// an entry and 1-3 modules, each with its own range of markers, bundled with retain_lines
fn bundle_case(r: &mut Rng) -> Case {
    let n = 1 + r.below(3);
    let mut files = serde_json::Map::new();
    let mut header = String::new();
    for i in 0..n {
        let name = ["a", "b", "c"][i];
        files.insert(format!("src/{}.lua", name), json!(marked_file(r, 1000 * (i as u32 + 1), true)));
        // the requires stand at the top of the entry, sometimes two on a line
        header.push_str(&format!("local dep_{} = require(\"./{}\"){}", name, name, if r.chance(1, 4) { " " } else { "\n" }));
    }
    if !header.ends_with('\n') {
        header.push('\n');
    }
    files.insert("src/main.lua".into(), json!(format!("{}{}", header, marked_file(r, 0, false))));
    let mut rules: Vec<String> = vec![];
    if r.chance(3, 4) {
        rules.push("'remove_spaces'".into());
    }
    if r.bool() {
        rules.push("'remove_comments'".into());
    }
    // (line-neutral rules that have no listed line-tracking finding of their own)
    const BUNDLE_RULES: [&str; 8] = ["'convert_luau_number'", "'make_assignment_local'", "{ rule: 'inject_global_value', identifier: 'INJ', value: 7 }", "'convert_local_function_to_assign'", "'convert_function_to_assignment'", "'convert_square_root_call'", "'remove_attribute'", "'remove_continue'"];
    for _ in 0..r.below(3) {
        rules.push(r.pick(&BUNDLE_RULES).to_string());
    }
    json!({"kind": "bundle", "files": files, "rules": rules})
}

fn run_bundle(case: &Case, cov: &mut Cov) -> Verdict {
    let rules: Vec<String> = case["rules"].as_array().map(|a| a.iter().filter_map(|x| x.as_str().map(|s| s.to_string())).collect()).unwrap_or_default();
    let files: Vec<(String, String)> = case["files"].as_object().map(|m| m.iter().map(|(k, v)| (k.clone(), v.as_str().unwrap_or("").to_string())).collect()).unwrap_or_default();
    let mut input: BTreeMap<String, (String, u32)> = BTreeMap::new();
    for (path, text) in &files {
        if dl::parse_tokens(text).is_err() {
            return Verdict::discard("darklua's parser rejects a generated file");
        }
        let Some(m) = marker_lines(text) else { return Verdict::discard("reference lexer rejects a generated file") };
        for (k, line) in m {
            input.insert(k, (path.clone(), line));
        }
    }
    let config = format!("{{ bundle: {{ require_mode: 'path' }}, generator: 'retain_lines', rules: [{}] }}", rules.join(", "));
    let out = dl::process_memory(&files, &config, "src/main.lua", Some("out/bundle.lua"), "out");
    if !out.ok {
        let e = out.errors.first().cloned().unwrap_or_default();
        if e.starts_with("config:") {
            return Verdict::discard("configuration rejected");
        }
        return Verdict::violated("bundle:process-error", format!("bundling a parsable project fails: {}\nrules {:?}", e.lines().next().unwrap_or(""), rules));
    }
    let Some(text) = out.files.values().next().cloned() else { return Verdict::violated("bundle:no-output", "no bundle was written".to_string()) };
    let Some(outm) = marker_lines(&text) else {
        return Verdict::violated("bundle:output-unlexable", format!("the reference lexer rejects the bundle\nrules {:?}\n--- bundle\n{}", rules, text));
    };
    // every file keeps its own uniform shift
    let mut shift: BTreeMap<String, (i64, String)> = BTreeMap::new();
    let mut survivors = 0u64;
    for (m, ol) in &outm {
        let Some((path, il)) = input.get(m) else { continue };
        survivors += 1;
        let d = *ol as i64 - *il as i64;
        match shift.get(path) {
            None => {
                shift.insert(path.clone(), (d, m.clone()));
            }
            Some((s0, first)) if *s0 != d => {
                let names = rule_names(&rules);
                let mut listing = String::new();
                for (p, t) in &files {
                    listing.push_str(&format!("--- {}\n{}\n", p, t));
                }
                return Verdict::violated(
                    "bundle:marker-moved",
                    format!("in {} marker {} moved by {} lines but marker {} of the same file moved by {} (line {} -> {})\nrules {:?}\n{}--- bundle\n{}", path, first, s0, m, d, il, ol, names, listing, text),
                );
            }
            _ => {}
        }
    }
    cov.add("markers_checked", survivors);
    cov.hit("kind:bundle");
    cov.add("bundle_files_with_markers", shift.len() as u64);
    let src_all: String = files.iter().map(|(p, t)| format!("{}\u{1}{}", p, t)).collect::<Vec<_>>().join("\u{2}");
    cov.eval(if survivors >= 3 { Some(hash64(format!("{}|{:?}", src_all, rules).as_bytes())) } else { None });
    Verdict::Held
}

fn marker_lines(text: &str) -> Option<BTreeMap<String, u32>> {
    let lx = lex(text, true).ok()?;
    let mut m = BTreeMap::new();
    for t in &lx.tokens {
        if t.kind == Tk::Str {
            let s = lx.text(t);
            let inner = s.trim_matches(|c| c == '"' || c == '\'');
            if inner.starts_with('M') && inner.ends_with('_') && inner[1..inner.len() - 1].bytes().all(|b| b.is_ascii_digit()) && inner.len() > 2 {
                m.insert(inner.to_string(), t.line);
            }
        }
    }
    Some(m)
}

impl Monitor for C04 {
    fn id(&self) -> &'static str {
        "C04"
    }
    fn rule_text(&self) -> String {
        "generated programs (plain Lua for the default rules; Luau with types, assert/profiling calls and the injected global for the line-neutral pipelines) get unique literal markers: `mark(\"M<k>_\")` statements between statements and `mark(\"M<k>_\", e)` wrappers around sub-expressions; the token list is laid out with line breaks (LF/CRLF/mixed), blank lines and comments in random token gaps so expressions, calls, tables and declarations span several lines. Configurations: (a) the default list, each default rule alone, random ordered subsets of the default rules; (b) remove_spaces followed by a random sequence of the 16 line-neutral rules; optionally append_text_comment at the start. Some string literals are re-spelled over several lines (long brackets, backslash-newline, \\z) and statements may be preceded by documentation blocks of 3-5 line comments. Generator retain_lines. Oracle: every marker present in the output is on its input line (plus the uniform shift caused by a comment appended at the start). Bundle flow (one case in six): an entry and 1-3 modules with disjoint marker ranges are bundled (require_mode path, retain_lines, remove_spaces / remove_comments / line-neutral rules): within each source file all surviving markers must move by the same number of lines. Non-trivial = at least 3 markers survive and the output differs from the input; distinct = hash(source, rules).".into()
    }
    fn assumptions(&self) -> Vec<String> {
        vec!["markers that disappear (dead code removed) are not judged".into(), "the line of a token is counted by the independent lexer (LF-terminated lines)".into(), "group_local_assignment is outside the claim and not used".into(), "bundle flow: the shift of each source file is not predicted, only required to be the same for all of its surviving markers".into()]
    }
    fn plan(&self, tier: Tier) -> Plan {
        Plan { deterministic: 0, max_cases: u64::MAX, budget_s: if tier == Tier::Quick { 40.0 } else { 600.0 } }
    }
    fn floors(&self, _tier: Tier) -> Vec<(String, u64)> {
        vec![("held".into(), 300), ("markers_checked".into(), 20000)]
    }
    fn gen(&mut self, _tier: Tier, seed: u64, index: u64) -> Option<Case> {
        let mut r = case_rng("C04", seed, index);
        if r.chance(1, 6) {
            return Some(bundle_case(&mut r));
        }
        let pipeline_b = r.bool();
        let mut f = Feat::default();
        f.max_stmts = 8 + r.below(30);
        f.avoid = vec!["and_or_multivalue_tail".into()];
        if pipeline_b {
            f.luau = true;
            f.types = r.bool();
            f.idioms_removal = true;
            f.idioms_refactor = true;
            f.inject_name = Some("INJ".into());
        }
        let (block, _) = prog::generate(&mut r, f);
        let marked = {
            let mut m = Marker { r: &mut r, next: 0 };
            m.block(&block)
        };
        let mut p = Printer::new(PrintOpts::default());
        p.block(&marked);
        // tokens that span several lines themselves: some string literals (never the markers) are re-spelled as long
        // bracket strings with line breaks inside, or as quoted strings with backslash-newline continuations
        if r.chance(1, 2) {
            let pct = *r.pick(&[10u32, 30, 60]);
            for t in p.toks.iter_mut() {
                if t.tag == "string" && !t.text.contains("M") && !t.text.contains('`') && (t.text.starts_with('"') || t.text.starts_with('\'')) && r.chance(pct, 100) {
                    let q = t.text.chars().next().unwrap_or('"');
                    let lines = 1 + r.below(3);
                    t.text = match r.below(4) {
                        0 => format!("[[{}]]", "\nrow".repeat(lines)),
                        1 => format!("[==[x{}\n]==]", "\ny ]] z".repeat(lines)),
                        2 => format!("{q}a{}{q}", "\\\nb".repeat(lines)),
                        _ => format!("{q}{}{q}", "\\z\n   c".repeat(lines)),
                    };
                }
            }
        }
        let o = LayoutOpts { newline: r.below(3) as u8, comment_pct: *r.pick(&[0, 5, 10]), newline_pct: *r.pick(&[10, 25, 40]), trailing_newline: r.bool(), tabs: r.bool(), statement_lines: r.chance(3, 4), doc_block_pct: *r.pick(&[0, 0, 10, 30]) };
        let (mut text, _) = layout_tokens(&p.toks, &mut r, &o);
        if !tokens_preserved(&text, &p.toks) {
            let (t2, _) = layout_tokens(&p.toks, &mut r, &LayoutOpts { comment_pct: 0, ..o });
            text = t2;
        }
        let mut rules: Vec<String> = vec![];
        if pipeline_b {
            rules.push("'remove_spaces'".into());
            let n = 1 + r.below(5);
            for _ in 0..n {
                rules.push(r.pick(&LINE_NEUTRAL).to_string());
            }
        } else {
            match r.below(4) {
                0 => rules = dl::DEFAULT_RULES.iter().map(|x| format!("'{}'", x)).collect(),
                1 => rules.push(format!("'{}'", r.pick(&dl::DEFAULT_RULES))),
                _ => {
                    let mut v: Vec<String> = dl::DEFAULT_RULES.iter().map(|x| format!("'{}'", x)).collect();
                    r.shuffle(&mut v);
                    v.truncate(2 + r.below(5));
                    rules = v;
                }
            }
        }
        let mut append = serde_json::Value::Null;
        if r.chance(1, 5) {
            let t = *r.pick(&["header", "line one\nline two", "a\nb\nc\n"]);
            let rule = format!("{{ rule: 'append_text_comment', text: {} }}", serde_json::to_string(t).unwrap());
            if r.bool() {
                rules.push(rule);
            } else {
                rules.insert(if pipeline_b { 1 } else { 0 }, rule);
            }
            append = json!(t);
        }
        Some(json!({"src": text, "rules": rules, "append": append, "pipeline": if pipeline_b { "b" } else { "a" }}))
    }

    fn run(&mut self, case: &Case, cov: &mut Cov) -> Verdict {
        if case["kind"] == "bundle" {
            return run_bundle(case, cov);
        }
        let src = case["src"].as_str().unwrap_or("");
        let rules: Vec<String> = case["rules"].as_array().map(|a| a.iter().filter_map(|x| x.as_str().map(|s| s.to_string())).collect()).unwrap_or_default();
        if dl::parse_tokens(src).is_err() {
            return Verdict::discard("darklua's parser rejects the input");
        }
        let Some(inm) = marker_lines(src) else { return Verdict::discard("reference lexer rejects the input") };
        let config = dl::config_json(&rules, "'retain_lines'");
        let out = match dl::process_one(src, &config) {
            Ok(o) => o,
            Err(e) => {
                if e.starts_with("config:") {
                    return Verdict::discard("configuration rejected");
                }
                return Verdict::violated("process-error", format!("error for a parsable input: {}\nrules {:?}", e.lines().next().unwrap_or(""), rules));
            }
        };
        let Some(outm) = marker_lines(&out) else {
            return Verdict::violated("output-unlexable", format!("the reference lexer rejects the output\nrules {:?}\n--- input\n{}\n--- output\n{}", rules, src, out));
        };
        let appended = !case["append"].is_null();
        let mut shift: Option<i64> = if appended { None } else { Some(0) };
        let mut survivors = 0u64;
        for (m, ol) in &outm {
            let Some(il) = inm.get(m) else { continue };
            survivors += 1;
            let d = *ol as i64 - *il as i64;
            match shift {
                None => shift = Some(d),
                Some(s) if s == d => {}
                Some(s) => {
                    let names: Vec<String> = rule_names(&rules);
                    return Verdict::violated(
                        format!("marker-moved:{}", if appended { "with-append" } else { "plain" }),
                        format!("marker {} is on line {} in the input and on line {} in the output (expected shift {}, the first surviving marker moved by {})\nrules {:?}\n--- input\n{}\n--- output\n{}", m, il, ol, s, s, names, src, out),
                    );
                }
            }
        }
        if appended {
            if let (Some(s), Some(t)) = (shift, case["append"].as_str()) {
                if s < 0 {
                    return Verdict::violated("marker-moved:negative-shift", format!("a comment was appended at the start but markers moved up by {}\ntext {:?}", -s, t));
                }
            }
        }
        cov.add("markers_checked", survivors);
        cov.add("markers_in_input", inm.len() as u64);
        cov.hit(&format!("pipeline:{}", case["pipeline"].as_str().unwrap_or("?")));
        for n in rule_names(&rules) {
            cov.hit(&format!("rule_ran:{}", n));
        }
        let nontrivial = survivors >= 3 && out != src;
        cov.eval(if nontrivial { Some(hash64(format!("{}|{:?}", src, rules).as_bytes())) } else { None });
        if nontrivial && cov.want_sample() && src.len() < 700 {
            cov.sample(json!({"input": src, "rules": rule_names(&rules), "markers_surviving": survivors}));
        }
        Verdict::Held
    }

    fn shrink(&mut self, case: &Case) -> Vec<Case> {
        let mut out = vec![];
        let rules: Vec<serde_json::Value> = case["rules"].as_array().cloned().unwrap_or_default();
        if rules.len() > 1 {
            for i in 0..rules.len() {
                if rules[i].as_str().map(|s| s.contains("append_text_comment")).unwrap_or(false) {
                    continue;
                }
                let mut r2 = rules.clone();
                r2.remove(i);
                let mut c = case.clone();
                c["rules"] = json!(r2);
                out.push(c);
            }
        }
        // line-preserving shrinking: blank out whole statements is hard without a parser that keeps layout; delete trailing lines
        let src = case["src"].as_str().unwrap_or("");
        let lines: Vec<&str> = src.split_inclusive('\n').collect();
        let mut k = lines.len() / 2;
        while k >= 1 {
            if lines.len() > k {
                let mut c = case.clone();
                c["src"] = json!(lines[..lines.len() - k].concat());
                out.push(c);
            }
            k /= 2;
        }
        for i in (0..lines.len()).rev().take(120) {
            let mut v = lines.clone();
            // keep the line count: replace the line by an empty line
            v[i] = "\n";
            let mut c = case.clone();
            c["src"] = json!(v.concat());
            out.push(c);
        }
        out
    }

    fn shrink_count(&mut self, case: &Case) -> Option<usize> {
        let src = case["src"].as_str().unwrap_or("");
        let n_rules = case["rules"].as_array().map(|a| if a.len() > 1 { a.len() } else { 0 }).unwrap_or(0);
        let n_ast = crate::gen::shrink::SrcShrinker::new(src).map(|s| s.count()).unwrap_or(0);
        let n_blank = crate::gen::shrink::TokenBlanker::new(src).map(|s| s.count()).unwrap_or(0);
        Some(n_rules + n_blank + n_ast)
    }
    fn shrink_candidate(&mut self, case: &Case, i: usize) -> Option<Case> {
        let src = case["src"].as_str().unwrap_or("");
        let rules: Vec<serde_json::Value> = case["rules"].as_array().cloned().unwrap_or_default();
        let n_rules = if rules.len() > 1 { rules.len() } else { 0 };
        if i < n_rules {
            if rules[i].as_str().map(|s| s.contains("append_text_comment")).unwrap_or(false) {
                return None;
            }
            let mut r2 = rules.clone();
            r2.remove(i);
            let mut c = case.clone();
            c["rules"] = json!(r2);
            return Some(c);
        }
        let i = i - n_rules;
        // layout-preserving: blank out token ranges (big ranges first)
        let tb = crate::gen::shrink::TokenBlanker::new(src)?;
        if i < tb.count() {
            let text = tb.candidate(i)?;
            let mut c = case.clone();
            c["src"] = json!(text);
            return Some(c);
        }
        // AST edits re-lay the program one statement per line; markers get new input lines, which the oracle recomputes
        let sh = crate::gen::shrink::SrcShrinker::new(src)?;
        let text = sh.candidate(i - tb.count())?;
        let mut c = case.clone();
        c["src"] = json!(text);
        Some(c)
    }

    fn classify(&mut self, case: &Case, signature: &str) -> String {
        let rules: Vec<String> = case["rules"].as_array().map(|a| a.iter().filter_map(|x| x.as_str().map(|s| s.to_string())).collect()).unwrap_or_default();
        let mut n = rule_names(&rules);
        n.sort();
        n.dedup();
        // trigger constructs of the known line-tracking defects present in the (shrunk) input
        let src = case["src"].as_str().unwrap_or("");
        let mut trig: Vec<&str> = vec![];
        let has = |r: &str| n.iter().any(|x| x == r);
        if let Ok(b) = crate::reflua::parser::parse_block(src, crate::reflua::parser::Mode::Luau) {
            let mut t = Trig::default();
            scan_block(&b, &mut t);
            if has("remove_unused_if_branch") && t.constant_elseif {
                trig.push("constant-elseif-or-if-condition");
            }
            if has("remove_nil_declaration") && t.multi_name_local_with_nil {
                trig.push("multi-name-local-with-nil");
            }
            if has("remove_unused_variable") && t.multi_name_local_fewer_values {
                trig.push("multi-name-local-with-fewer-values");
            }
            if has("remove_method_call") && t.method_call {
                trig.push("method-call");
            }
            if has("remove_if_expression") && t.if_expr_two_elseif {
                trig.push("if-expression-with-2-elseif");
            }
            if (has("remove_compound_assignment") || has("remove_floor_division")) && t.compound_target_with_multi_line_token {
                trig.push("compound-assignment-target-with-multi-line-token");
            }
            if (has("remove_compound_assignment") || has("remove_floor_division")) && t.compound_target_needs_temporary && lex(src, true).map(|lx| !lx.comments().is_empty()).unwrap_or(false) {
                trig.push("compound-assignment-with-hoisted-operand-and-comments");
            }
        }
        let removing = ["remove_unused_variable", "remove_empty_do", "remove_unused_while", "filter_after_early_return", "remove_unused_if_branch", "remove_assertions", "remove_debug_profiling", "remove_types"];
        if removing.iter().any(|r| has(r)) {
            if let Ok(lx) = lex(src, true) {
                if lx.comments().iter().any(|c| c.contains('\n')) {
                    trig.push("multi-line-comment");
                }
            }
        }
        format!("{}|{}|{}", signature, n.join("+"), if trig.is_empty() { "-".to_string() } else { trig.join("+") })
    }
}

#[derive(Default)]
struct Trig {
    constant_elseif: bool,
    multi_name_local_with_nil: bool,
    method_call: bool,
    if_expr_two_elseif: bool,
    multi_name_local_fewer_values: bool,
    compound_target_with_multi_line_token: bool,
    compound_target_needs_temporary: bool,
}

/// does the rule have to evaluate a part of the target into a temporary first (anything but `name.f`, `name[literal or name]`)?
fn target_needs_temporary(target: &Expr) -> bool {
    fn simple(e: &Expr) -> bool {
        match e {
            Expr::Name(_) | Expr::Nil | Expr::True | Expr::False | Expr::Number(..) | Expr::Str(..) | Expr::Vararg => true,
            Expr::Paren(a) => simple(a),
            _ => false,
        }
    }
    match target {
        Expr::Field(p, _) => !simple(p),
        Expr::Index(p, k) => !simple(p) || !simple(k),
        _ => false,
    }
}

fn has_multi_line_literal(e: &Expr) -> bool {
    // printed back, a literal that was written over several lines keeps its spelling
    crate::reflua::print::print_expr(e).contains('\n')
}

fn is_constant(e: &Expr) -> bool {
    match e {
        Expr::Nil | Expr::True | Expr::False | Expr::Number(..) | Expr::Str(..) => true,
        Expr::Paren(a) | Expr::Unary(_, a) => is_constant(a),
        Expr::Binary(_, a, b) => is_constant(a) || is_constant(b),
        _ => false,
    }
}

fn scan_block(b: &Block, t: &mut Trig) {
    for s in &b.stmts {
        match s {
            Stmt::Local { names, values, .. } => {
                if names.len() > 1 && values.iter().any(|v| matches!(v, Expr::Nil)) {
                    t.multi_name_local_with_nil = true;
                }
                if names.len() > values.len() && !values.is_empty() {
                    t.multi_name_local_fewer_values = true;
                }
                for v in values {
                    scan_expr(v, t);
                }
            }
            Stmt::Assign { targets, values } => {
                for e in targets.iter().chain(values.iter()) {
                    scan_expr(e, t);
                }
            }
            Stmt::CompoundAssign { target, value, .. } => {
                if has_multi_line_literal(target) {
                    t.compound_target_with_multi_line_token = true;
                }
                if target_needs_temporary(target) {
                    t.compound_target_needs_temporary = true;
                }
                scan_expr(target, t);
                scan_expr(value, t);
            }
            Stmt::Call(e) => scan_expr(e, t),
            Stmt::Do(b) => scan_block(b, t),
            Stmt::While { cond, body } | Stmt::Repeat { body, cond } => {
                scan_expr(cond, t);
                scan_block(body, t);
            }
            Stmt::If { clauses, else_block } => {
                for (c, b) in clauses {
                    if is_constant(c) {
                        t.constant_elseif = true;
                    }
                    scan_expr(c, t);
                    scan_block(b, t);
                }
                if let Some(b) = else_block {
                    scan_block(b, t);
                }
            }
            Stmt::NumFor { start, limit, step, body, .. } => {
                scan_expr(start, t);
                scan_expr(limit, t);
                if let Some(s) = step {
                    scan_expr(s, t);
                }
                scan_block(body, t);
            }
            Stmt::GenFor { exprs, body, .. } => {
                for e in exprs {
                    scan_expr(e, t);
                }
                scan_block(body, t);
            }
            Stmt::Function { func, .. } | Stmt::LocalFunction { func, .. } => scan_block(&func.body, t),
            Stmt::Return(es) => {
                for e in es {
                    scan_expr(e, t);
                }
            }
            _ => {}
        }
    }
}

fn scan_expr(e: &Expr, t: &mut Trig) {
    match e {
        Expr::MethodCall { obj, args, .. } => {
            t.method_call = true;
            scan_expr(obj, t);
            for a in args {
                scan_expr(a, t);
            }
        }
        Expr::IfExpr { clauses, else_ } => {
            if clauses.len() >= 3 {
                t.if_expr_two_elseif = true;
            }
            for (c, v) in clauses {
                scan_expr(c, t);
                scan_expr(v, t);
            }
            scan_expr(else_, t);
        }
        Expr::Function(f) => scan_block(&f.body, t),
        Expr::Call { func, args, .. } => {
            scan_expr(func, t);
            for a in args {
                scan_expr(a, t);
            }
        }
        Expr::Index(a, b) | Expr::Binary(_, a, b) => {
            scan_expr(a, t);
            scan_expr(b, t);
        }
        Expr::Field(a, _) | Expr::Unary(_, a) | Expr::Paren(a) | Expr::Cast(a, _) => scan_expr(a, t),
        Expr::Table(items) => {
            for it in items {
                match it {
                    TableItem::Pos(v) | TableItem::Named(_, v) => scan_expr(v, t),
                    TableItem::Keyed(k, v) => {
                        scan_expr(k, t);
                        scan_expr(v, t);
                    }
                }
            }
        }
        Expr::Interp(parts) => {
            for p in parts {
                if let InterpPart::Expr(x) = p {
                    scan_expr(x, t);
                }
            }
        }
        _ => {}
    }
}

fn rule_names(rules: &[String]) -> Vec<String> {
    rules
        .iter()
        .map(|r| {
            if let Some(i) = r.find("rule:") {
                r[i + 5..].trim_start().trim_start_matches('\'').split('\'').next().unwrap_or("").to_string()
            } else {
                r.trim_matches('\'').to_string()
            }
        })
        .collect()
}
