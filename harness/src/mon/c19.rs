//! C19 — configurations are read strictly and round-trip without loss.
//!
//! Three oracles over configurations produced by the schema model in `c19_model`:
//!  * round trip: `c' = parse(serialize(c))` must exist and must transform every file of the probe
//!    tree exactly like `c` (serialisation = `serde_json::to_string`, what
//!    `WorkerTree::has_configuration_changed` hashes; parsing = `json5::from_str`, what
//!    `Worker::read_configuration` calls);
//!  * distinguishability: two configurations that the probe tree separates must not serialise to
//!    the same text;
//!  * strictness: single-field corruptions that the property statement calls errors must be
//!    rejected by `json5::from_str::<Configuration>`.

use super::c19_model as model;
use super::c19_model::{Corruption, Seg};
use super::c19_probe as probe;
use super::c19_probe::Behaviour;
use crate::framework::*;
use crate::rng::{hash64, Rng};
use darklua_core::Configuration;
use serde_json::{json, Map, Value};
use std::cell::OnceCell;
use std::collections::HashMap;
use std::path::PathBuf;
use std::rc::Rc;

/// Known defects whose trigger the generator avoids (one deterministic witness each is kept, see
/// `witnesses`).  Remove an entry once the defect is fixed: the cases it masks are then evaluated.
pub const AVOID_KNOWN: &[&str] = &[
    // ("rule_filters_dropped_without_other_property", "rule_skip_files_dropped_without_apply_to_files",
    //  "remove_comments_except_not_serialized" and "remove_attribute_match_not_serialized" were repaired by
    //  "fix:" commits in /repo and are exercised again)
    "convert_require_properties_not_serialized",
    // strictness: class:place of corruptions that are known to be accepted
    "nested_unknown_key:generator.retain_lines",
    "nested_unknown_key:convert_require.target.roblox.indexing_style",
    "integer_variant_tag:convert_require",
    // (the `wrap` cases whose value is shaped like a require mode carry their own avoid flag:
    // "inject_value_shaped_like_require_mode")
];

#[derive(Default)]
pub struct C19 {
    det: OnceCell<Vec<Case>>,
    cache: HashMap<u64, Rc<Behaviour>>,
}

fn avoid_value() -> Value {
    json!(AVOID_KNOWN)
}

fn rt_case(cfg: Value, tag: &str) -> Case {
    json!({"kind": "rt", "cfg": cfg, "tag": tag, "avoid": avoid_value()})
}
fn pair_case(a: Value, b: Value, tag: &str) -> Case {
    json!({"kind": "pair", "a": a, "b": b, "tag": tag, "avoid": avoid_value()})
}

/// deterministic witnesses of the known defects (never avoided)
fn witnesses() -> Vec<Case> {
    let w = |cfg: Value, id: &str| json!({"kind": "rt", "cfg": cfg, "tag": format!("witness:{}", id), "avoid": []});
    vec![
        w(json!({"rules": [{"rule": "remove_comments", "skip_files": "src/a/**"}]}), "rule_filters_dropped_without_other_property"),
        w(json!({"rules": [{"rule": "rename_variables", "include_functions": true, "skip_files": "src/a/**"}]}), "rule_skip_files_dropped_without_apply_to_files"),
        w(json!({"rules": [{"rule": "remove_comments", "except": ["^--!"]}]}), "remove_comments_except_not_serialized"),
        w(json!({"rules": [{"rule": "remove_attribute", "match": ["deprecated"]}]}), "remove_attribute_match_not_serialized"),
        w(json!({"rules": [{"rule": "convert_require", "current": "path", "target": "roblox"}]}), "convert_require_properties_not_serialized"),
        json!({"kind": "rt", "text": "{ rules: [{ rule: 'inject_global_value', identifier: 'INJ', value: Infinity }] }", "tag": "witness:inject_global_value_nonfinite_number", "avoid": []}),
        json!({"kind": "corrupt1", "text": "{ generator: { name: 'retain_lines', column_span: 80 } }", "base": {}, "class": "nested_unknown_key", "place": "generator.retain_lines", "must_reject": true}),
        json!({"kind": "corrupt1", "text": "{ rules: [{ rule: 'convert_require', current: 'path', target: { name: 'roblox', indexing_style: { name: 'property', unknown_key: 1 } } }] }",
               "base": {"rules": [{"rule": "convert_require", "current": "path", "target": {"name": "roblox", "indexing_style": {"name": "property"}}}]},
               "class": "nested_unknown_key", "place": "convert_require.target.roblox.indexing_style", "must_reject": true}),
        json!({"kind": "corrupt1", "text": "{ rules: [{ rule: 'convert_require', current: { name: 1 }, target: { name: 2 } }] }",
               "base": {"rules": [{"rule": "convert_require", "current": "luau", "target": "roblox"}]},
               "class": "integer_variant_tag", "place": "convert_require", "must_reject": true}),
    ]
}

fn corrupt_groups(base: &Value) -> Vec<(String, String)> {
    let mut seen: Vec<(String, String)> = vec![];
    for c in model::corruptions(base) {
        let k = (c.class.to_string(), c.place.clone());
        if !seen.contains(&k) {
            seen.push(k);
        }
    }
    seen
}

fn corrupt_cases(base: &Value, out: &mut Vec<Case>) {
    for (class, place) in corrupt_groups(base) {
        out.push(json!({"kind": "corrupt", "base": base, "class": class, "place": place, "avoid": avoid_value()}));
    }
}

fn build_deterministic() -> Vec<Case> {
    let mut out = witnesses();
    let filters = model::filter_options();
    let none = Map::new();

    // 1. every rule: string form, object form x every property set x every filter option
    for rule in model::all_rules() {
        if !model::has_required(rule) {
            out.push(rt_case(json!({"rules": [rule]}), &format!("rule:{}:string", rule)));
        } else {
            out.push(rt_case(json!({"rules": [rule]}), &format!("rule:{}:string(required-missing)", rule)));
        }
        let variants = model::rule_variants(rule);
        for (vi, props) in variants.iter().enumerate() {
            for (fname, f) in &filters {
                // the full filter product for the first, the second and the last property set, the
                // single/list x apply/skip/both core (7 options) for the others
                let core = vi < 2 || vi + 1 == variants.len();
                if !core && fname.contains('[') || !core && fname.contains('+') {
                    continue;
                }
                out.push(rt_case(model::config_with_rules(vec![model::rule_entry(rule, props, f)]), &format!("rule:{}:v{}:{}", rule, vi, fname)));
            }
        }
    }
    // 2. generator forms x rule lists x top-level filters
    let rule_lists: Vec<(&str, Option<Value>)> = vec![
        ("default-rules", None),
        ("no-rules", Some(json!([]))),
        ("remove_spaces", Some(json!(["remove_spaces"]))),
        ("rename+inject", Some(json!([{"rule": "inject_global_value", "identifier": "INJ", "value": [1, "a"]}, {"rule": "rename_variables", "include_functions": true}]))),
    ];
    for (gi, g) in model::generator_forms().iter().enumerate() {
        for (rname, rl) in &rule_lists {
            for (fname, f) in &filters {
                if fname.contains('[') || fname.contains('+') {
                    if gi > 6 {
                        continue;
                    }
                }
                let mut m = Map::new();
                if let Some(g) = g {
                    m.insert("generator".into(), g.clone());
                }
                if let Some(rl) = rl {
                    m.insert(if gi % 5 == 4 { "process".into() } else { "rules".into() }, rl.clone());
                }
                for (k, v) in f {
                    m.insert(k.clone(), v.clone());
                }
                out.push(rt_case(Value::Object(m), &format!("generator:{}:{}:{}", gi, rname, fname)));
            }
        }
    }
    // 3. bundle settings (alone, with a generator, with top-level filters)
    for (bi, b) in model::bundle_forms().iter().enumerate() {
        out.push(rt_case(json!({"bundle": b, "rules": []}), &format!("bundle:{}", bi)));
        out.push(rt_case(json!({"bundle": b, "rules": ["remove_comments"], "generator": "dense"}), &format!("bundle:{}:dense", bi)));
        if bi % 4 == 0 {
            out.push(rt_case(json!({"bundle": b, "rules": [], "skip_files": "**/x.lua"}), &format!("bundle:{}:skip", bi)));
            out.push(rt_case(json!({"bundle": b}), &format!("bundle:{}:default-rules", bi)));
        }
    }
    // 4. configurations written the way the documentation writes them (JSON5 syntax)
    for (i, text) in [
        "{\n  // comment\n  generator: 'dense',\n  rules: ['remove_spaces', { rule: 'rename_variables', include_functions: true, }, ],\n}",
        "{ rules: [{ rule: \"inject_global_value\", identifier: \"INJ\", value: +1.5e2, }] }",
        "{ rules: [{ rule: 'inject_global_value', identifier: 'INJ', value: 0x10 }] }",
        "{ rules: [{ rule: 'inject_global_value', identifier: 'INJ', value: -Infinity }] }",
        "{ rules: [{ rule: 'inject_global_value', identifier: 'INJ', value: NaN }] }",
        "{ rules: [{ rule: 'inject_global_value', identifier: 'INJ', value: [1, Infinity] }] }",
        "{ rules: [{ rule: 'inject_global_value', identifier: 'INJ', value: { k: -Infinity } }] }",
        "{ rules: [{ rule: 'inject_global_value', identifier: 'INJ', env: 'DLVERIF_C19_UNSET', default_value: Infinity }] }",
        "{ rules: [{ rule: 'inject_global_value', identifier: 'INJ', value: 'multi\\\nline' }] }",
        "{ 'rules': [{ 'rule': 'append_text_comment', 'text': 'it\\'s', location: 'end' }] }",
        "{}",
        "{ generator: { name: 'readable', column_span: 0x20 } }",
    ]
    .iter()
    .enumerate()
    {
        let nonfinite = text.contains("Infinity") || text.contains("NaN");
        out.push(json!({"kind": "rt", "text": text, "tag": format!("json5:{}", i), "avoid": if nonfinite { json!(["inject_global_value_nonfinite_number"]) } else { json!([]) }}));
    }
    // 5. distinguishability: all pairs of property sets of a rule; all pairs of filter options on
    //    three representative rules; generator pairs; bundle pairs; top-level filter pairs
    for rule in model::PARAM_RULES {
        let variants = model::rule_variants(rule);
        for i in 0..variants.len() {
            for j in (i + 1)..variants.len() {
                if rule == "convert_require" && (j - i) > 3 && i > 1 {
                    continue;
                }
                out.push(pair_case(model::config_with_rules(vec![model::rule_entry(rule, &variants[i], &none)]), model::config_with_rules(vec![model::rule_entry(rule, &variants[j], &none)]), &format!("pair:{}:v{}:v{}", rule, i, j)));
            }
        }
    }
    let reps: Vec<(&str, Map<String, Value>)> = vec![
        ("remove_comments", Map::new()),
        ("compute_expression", Map::new()),
        ("rename_variables", model::nondefault_variant("rename_variables").unwrap_or_default()),
        ("append_text_comment", model::nondefault_variant("append_text_comment").unwrap_or_default()),
        ("remove_assertions", model::nondefault_variant("remove_assertions").unwrap_or_default()),
    ];
    for (rule, props) in &reps {
        for i in 0..filters.len() {
            for j in (i + 1)..filters.len() {
                out.push(pair_case(model::config_with_rules(vec![model::rule_entry(rule, props, &filters[i].1)]), model::config_with_rules(vec![model::rule_entry(rule, props, &filters[j].1)]), &format!("pair:{}:{}:{}", rule, filters[i].0, filters[j].0)));
            }
        }
    }
    let gens = model::generator_forms();
    for i in 0..gens.len() {
        for j in (i + 1)..gens.len() {
            let mk = |g: &Option<Value>| {
                let mut m = Map::new();
                m.insert("rules".into(), json!(["remove_comments"]));
                if let Some(g) = g {
                    m.insert("generator".into(), g.clone());
                }
                Value::Object(m)
            };
            out.push(pair_case(mk(&gens[i]), mk(&gens[j]), &format!("pair:generator:{}:{}", i, j)));
        }
    }
    for i in 0..filters.len() {
        for j in (i + 1)..filters.len() {
            let mk = |f: &Map<String, Value>| {
                let mut m = f.clone();
                m.insert("rules".into(), json!(["remove_comments", "rename_variables"]));
                Value::Object(m)
            };
            out.push(pair_case(mk(&filters[i].1), mk(&filters[j].1), &format!("pair:top-filters:{}:{}", filters[i].0, filters[j].0)));
        }
    }
    let bundles = model::bundle_forms();
    for i in 0..bundles.len() {
        for j in (i + 1)..bundles.len() {
            if (i + j) % 3 != 0 && i != 0 {
                continue;
            }
            out.push(pair_case(json!({"rules": [], "bundle": bundles[i]}), json!({"rules": [], "bundle": bundles[j]}), &format!("pair:bundle:{}:{}", i, j)));
        }
    }
    for (bi, b) in bundles.iter().enumerate().take(6) {
        out.push(pair_case(json!({"rules": []}), json!({"rules": [], "bundle": b}), &format!("pair:bundle:none:{}", bi)));
    }
    // 5b. list forms of the filters mean what the documentation says: a list selects the union
    //     of its patterns, a single string is the same as a one-element list (rule and top level)
    let pats = ["src/a/**", "**/y.lua", "**/x.lua", "src/b/y.lua", "**/*.luau", "src/b/**"];
    let frules = vec![json!({"rule": "remove_comments"}), json!({"rule": "append_text_comment", "text": "hello"}), json!({"rule": "rename_variables", "include_functions": true})];
    for (ri, fr) in frules.iter().enumerate() {
        for level in ["rule", "top"] {
            for field in ["apply_to_files", "skip_files"] {
                for (i, p1) in pats.iter().enumerate() {
                    for (j, p2) in pats.iter().enumerate() {
                        if i == j || (ri > 0 && (i + j) % 2 == 0) {
                            continue;
                        }
                        out.push(json!({"kind": "flist", "rule": fr, "level": level, "field": field, "patterns": [p1, p2]}));
                    }
                }
            }
        }
    }
    // 5c. inject_global_value: the injected value does not depend on where the JSON value stands
    //     (`value: V` injects E  <=>  `value: [V]` injects `{E}`)
    for v in [
        json!(true), json!(null), json!("str"), json!(12), json!(-0.5), json!([1, "a", true]), json!(["a", "b"]), json!([]), json!({}), json!({"a": 1, "b c": "x"}), json!({"k": [1, {"z": null}]}),
        json!({"name": "x"}), json!({"name": "path"}), json!({"name": "luau"}), json!({"name": "roblox"}), json!({"name": "path", "module_folder_name": "index"}), json!({"name": "dense", "column_span": 3}),
        json!({"rule": "remove_spaces"}),
    ] {
        let looks_like_require_mode = v.get("name").map(|n| n == "path" || n == "luau" || n == "roblox").unwrap_or(false);
        out.push(json!({"kind": "wrap", "value": v, "avoid": if looks_like_require_mode { json!(["inject_value_shaped_like_require_mode"]) } else { json!([]) }}));
    }
    out.push(json!({"kind": "wrap", "value": {"name": "path"}, "avoid": []}));
    // 6. corruptions: every rule in object form (first property set), rules with parameters also
    //    with their richest property set and with filters; top-level bases
    for rule in model::all_rules() {
        let variants = model::rule_variants(rule);
        corrupt_cases(&model::config_with_rules(vec![model::rule_entry(rule, &variants[0], &none)]), &mut out);
        if variants.len() > 1 {
            let last = variants.len() - 1;
            corrupt_cases(&model::config_with_rules(vec![model::rule_entry(rule, &variants[last], &filters[6].1)]), &mut out);
        } else if rule.len() % 3 == 0 {
            corrupt_cases(&model::config_with_rules(vec![json!(rule), model::rule_entry(rule, &variants[0], &filters[5].1)]), &mut out);
        }
    }
    for base in [
        json!({}),
        json!({"rules": [], "generator": "dense", "apply_to_files": "src/**", "skip_files": ["**/x.lua"]}),
        json!({"process": ["remove_spaces"], "generator": {"name": "readable", "column_span": 40}}),
        json!({"rules": [], "bundle": {"require_mode": "path", "modules_identifier": "__M", "excludes": ["@pkg/**"]}}),
        json!({"rules": [], "bundle": {"require_mode": {"name": "luau", "aliases": {"pkg": "."}}}}),
        json!({"rules": [], "bundle": {"require_mode": {"name": "path", "module_folder_name": "main", "sources": {"@pkg": "."}, "use_luau_configuration": false}}}),
        json!({"rules": [{"rule": "convert_require", "current": {"name": "luau", "aliases": {"pkg": "."}}, "target": {"name": "roblox", "indexing_style": "property", "rojo_sourcemap": "../sourcemap.json"}}]}),
        json!({"rules": [{"rule": "convert_require", "current": {"name": "path", "sources": {"@pkg": "."}}, "target": {"name": "path", "module_folder_name": "main"}}]}),
    ] {
        corrupt_cases(&base, &mut out);
    }
    out
}

// ---------------------------------------------------------------------------------------------

struct Scratch(Option<PathBuf>);
impl Drop for Scratch {
    fn drop(&mut self) {
        if let Some(p) = self.0.take() {
            let _ = std::fs::remove_dir_all(p);
        }
    }
}

/// replace the `$SCRATCH` placeholder by a directory created for this case (holding `banner.txt`)
fn materialise(text: &str) -> (String, Scratch) {
    if !text.contains(model::SCRATCH) {
        return (text.to_string(), Scratch(None));
    }
    let dir = std::env::temp_dir().join(format!("dlverif-c19-{}", std::process::id()));
    let _ = std::fs::create_dir_all(&dir);
    let _ = std::fs::write(dir.join("banner.txt"), "banner from file\nsecond line");
    (text.replace(model::SCRATCH, &dir.to_string_lossy()), Scratch(Some(dir)))
}

fn parse_cfg(text: &str) -> Result<Configuration, String> {
    json5::from_str::<Configuration>(text).map_err(|e| e.to_string())
}

fn serialize_cfg(c: &Configuration) -> Result<String, String> {
    // exactly what has_configuration_changed hashes
    serde_json::to_vec(c).map_err(|e| e.to_string()).and_then(|v| String::from_utf8(v).map_err(|e| e.to_string()))
}

/// serialised text as a value with the documented *sets* in canonical order (bundle.excludes is a
/// set; JSON objects are compared as maps)
fn canonical(text: &str) -> Option<Value> {
    let mut v: Value = serde_json::from_str(text).ok()?;
    if let Some(ex) = v.get_mut("bundle").and_then(|b| b.get_mut("excludes")).and_then(|e| e.as_array_mut()) {
        ex.sort_by_key(|a| a.to_string());
    }
    Some(v)
}

fn clip(s: &str, n: usize) -> String {
    if s.len() > n {
        let mut e = n;
        while !s.is_char_boundary(e) {
            e -= 1;
        }
        format!("{}…[{} bytes]", &s[..e], s.len())
    } else {
        s.to_string()
    }
}

fn case_text(case: &Case, key_cfg: &str, key_text: &str) -> Option<String> {
    if let Some(t) = case.get(key_text).and_then(|t| t.as_str()) {
        return Some(t.to_string());
    }
    case.get(key_cfg).map(|c| model::to_text(c, None))
}

fn avoided(case: &Case, cfg: Option<&Value>) -> Option<&'static str> {
    let avoid: Vec<&str> = case.get("avoid").and_then(|a| a.as_array()).map(|a| a.iter().filter_map(|x| x.as_str()).collect()).unwrap_or_default();
    if avoid.is_empty() {
        return None;
    }
    if let Some(cfg) = cfg {
        for t in model::triggers(cfg) {
            if avoid.contains(&t) {
                return Some(t);
            }
        }
    }
    if avoid.contains(&"inject_global_value_nonfinite_number") {
        return Some("inject_global_value_nonfinite_number");
    }
    None
}

fn rule_names(cfg: &Value) -> Vec<String> {
    cfg.get("rules")
        .or_else(|| cfg.get("process"))
        .and_then(|r| r.as_array())
        .map(|a| {
            a.iter()
                .map(|r| match r {
                    Value::String(s) => s.clone(),
                    Value::Object(m) => m.get("rule").and_then(|x| x.as_str()).unwrap_or("?").to_string(),
                    _ => "?".into(),
                })
                .collect()
        })
        .unwrap_or_default()
}

fn rules_label(cfg: &Value) -> String {
    let mut names = rule_names(cfg);
    names.dedup();
    if cfg.get("rules").is_none() && cfg.get("process").is_none() {
        return "default-rules".into();
    }
    if names.is_empty() {
        return "no-rules".into();
    }
    if names.len() > 3 {
        return format!("{}+{}more", names[..3].join("+"), names.len() - 3);
    }
    names.join("+")
}

/// is a rule that was given as an object with properties or filters serialised as a bare name?
fn written_as_string(cfg: &Value, serialized: &str) -> bool {
    let Ok(ser) = serde_json::from_str::<Value>(serialized) else { return false };
    let rules = cfg.get("rules").or_else(|| cfg.get("process")).and_then(|r| r.as_array()).cloned().unwrap_or_default();
    let srules = ser.get("rules").and_then(|r| r.as_array()).cloned().unwrap_or_default();
    rules.iter().enumerate().any(|(i, r)| r.as_object().map(|m| m.len() > 1).unwrap_or(false) && srules.get(i).map(|s| s.is_string()).unwrap_or(false))
}

/// keys written in the input configuration that do not appear in its serialisation
fn lost_keys(cfg: &Value, serialized: &str) -> Vec<String> {
    let mut lost = vec![];
    let Ok(ser) = serde_json::from_str::<Value>(serialized) else { return lost };
    if let Some(top) = cfg.as_object() {
        for k in top.keys() {
            let k2 = if k == "process" { "rules" } else { k.as_str() };
            if ser.get(k2).is_none() {
                lost.push(k.clone());
            }
        }
    }
    let rules = cfg.get("rules").or_else(|| cfg.get("process")).and_then(|r| r.as_array()).cloned().unwrap_or_default();
    let srules = ser.get("rules").and_then(|r| r.as_array()).cloned().unwrap_or_default();
    for (i, r) in rules.iter().enumerate() {
        let Some(m) = r.as_object() else { continue };
        let s = srules.get(i);
        for k in m.keys() {
            if k == "rule" {
                continue;
            }
            let present = match s {
                Some(Value::Object(sm)) => sm.contains_key(k),
                _ => false,
            };
            if !present && !lost.contains(k) {
                lost.push(k.clone());
            }
        }
    }
    // top-level settings that are written back with another meaning
    let norm_gen = |g: Option<&Value>| -> Value {
        let (name, span) = match g {
            None => ("retain_lines".to_string(), None),
            Some(Value::String(s)) => (s.clone(), None),
            Some(o) => (o.get("name").and_then(|n| n.as_str()).unwrap_or("").to_string(), o.get("column_span").cloned()),
        };
        let name = name.replace('-', "_");
        if name == "retain_lines" {
            json!({ "name": name })
        } else {
            json!({"name": name, "column_span": span.unwrap_or(json!(80))})
        }
    };
    if norm_gen(cfg.get("generator")) != norm_gen(ser.get("generator")) {
        lost.push("generator~".into());
    }
    let norm_list = |v: Option<&Value>| -> Value {
        match v {
            None => json!([]),
            Some(Value::String(s)) => json!([s]),
            Some(o) => o.clone(),
        }
    };
    for k in ["apply_to_files", "skip_files"] {
        if cfg.get(k).is_some() && ser.get(k).is_some() && norm_list(cfg.get(k)) != norm_list(ser.get(k)) {
            lost.push(format!("{}~", k));
        }
    }
    lost.sort();
    lost
}

impl C19 {
    fn det(&self) -> &Vec<Case> {
        self.det.get_or_init(build_deterministic)
    }

    fn behave(&mut self, text: &str) -> Rc<Behaviour> {
        let h = hash64(text.as_bytes());
        if let Some(b) = self.cache.get(&h) {
            return b.clone();
        }
        if self.cache.len() > 2000 {
            self.cache.clear();
        }
        let b = Rc::new(probe::behave(text));
        self.cache.insert(h, b.clone());
        b
    }

    fn effect_visible(b: &Behaviour) -> bool {
        if !b.ok {
            return true;
        }
        let input = probe::probe_files();
        input.iter().any(|(p, c)| b.files.get(p) != Some(c))
    }

    fn run_rt(&mut self, case: &Case, cov: &mut Cov) -> Verdict {
        let cfg = case.get("cfg");
        if let Some(t) = avoided(case, cfg) {
            cov.hit("rt:avoided_known_defect");
            return Verdict::discard(format!("avoid-known:{}", t));
        }
        let Some(raw) = case_text(case, "cfg", "text") else { return Verdict::discard("malformed case") };
        let (text, _scratch) = materialise(&raw);
        let c = match parse_cfg(&text) {
            Ok(c) => c,
            Err(e) => {
                let tag = case.get("tag").and_then(|t| t.as_str()).unwrap_or("");
                if tag.contains("required-missing") {
                    cov.hit("rt:string_form_of_rule_with_required_property_rejected");
                    return Verdict::discard("rejected: string form of a rule with a required property");
                }
                cov.hit("rt:model_valid_configuration_rejected");
                if cov.want_sample() {
                    cov.sample(json!({"rejected_model_valid": text, "error": e}));
                }
                return Verdict::discard("rejected: configuration the model considers valid");
            }
        };
        cov.hit("rt:accepted");
        let s1 = match serialize_cfg(&c) {
            Ok(s) => s,
            Err(e) => return Verdict::violated("rt-serialize-error", format!("configuration\n  {}\nis accepted but cannot be serialised: {}", text, e)),
        };
        let c2 = match parse_cfg(&s1) {
            Ok(c) => c,
            Err(e) => {
                return Verdict::violated("rt-reparse-error", format!("configuration\n  {}\nis accepted and serialises to\n  {}\nwhich is rejected when read back: {}", clip(&text, 1500), clip(&s1, 1500), e));
            }
        };
        let b0 = self.behave(&text);
        let b1 = self.behave(&s1);
        let visible = Self::effect_visible(&b0);
        // coverage
        if let Some(cfg) = cfg {
            for r in cfg.get("rules").or_else(|| cfg.get("process")).and_then(|r| r.as_array()).cloned().unwrap_or_default() {
                match &r {
                    Value::String(s) => {
                        cov.hit(&format!("rt:rule:{}", s));
                        cov.hit("rt:form:string");
                    }
                    Value::Object(m) => {
                        cov.hit(&format!("rt:rule:{}", m.get("rule").and_then(|x| x.as_str()).unwrap_or("?")));
                        cov.hit("rt:form:object");
                        let fa = m.get("apply_to_files");
                        let fs = m.get("skip_files");
                        if fa.is_some() || fs.is_some() {
                            cov.hit(&format!("rt:rule_filters:{}{}", fa.map(|v| if v.is_array() { "apply[]" } else { "apply" }).unwrap_or(""), fs.map(|v| if v.is_array() { "+skip[]" } else { "+skip" }).unwrap_or("")));
                        }
                        for k in m.keys() {
                            if k != "rule" && k != "apply_to_files" && k != "skip_files" {
                                cov.hit(&format!("rt:prop:{}.{}", m.get("rule").and_then(|x| x.as_str()).unwrap_or("?"), k));
                            }
                        }
                    }
                    _ => {}
                }
            }
            match cfg.get("generator") {
                None => cov.hit("rt:generator:absent"),
                Some(Value::String(s)) => cov.hit(&format!("rt:generator:'{}'", s)),
                Some(g) => cov.hit(&format!("rt:generator:{{{}{}}}", g.get("name").and_then(|n| n.as_str()).unwrap_or("?"), if g.get("column_span").is_some() { ",column_span" } else { "" })),
            }
            if cfg.get("bundle").is_some() {
                cov.hit("rt:bundle");
            }
            if cfg.get("apply_to_files").is_some() || cfg.get("skip_files").is_some() {
                cov.hit("rt:top_level_filters");
            }
            // do the filters select some probe files and exclude others?
            let filtered = cfg.get("apply_to_files").is_some() || cfg.get("skip_files").is_some() || cfg.get("rules").and_then(|r| r.as_array()).map(|a| a.iter().any(|r| r.get("apply_to_files").is_some() || r.get("skip_files").is_some())).unwrap_or(false);
            if filtered && b0.ok {
                let input = probe::probe_files();
                let changed = probe::PROBES.iter().filter(|p| b0.files.get(**p) != input.iter().find(|(q, _)| q == *p).map(|(_, c)| c)).count();
                if changed > 0 && changed < probe::PROBES.len() {
                    cov.hit("rt:filters_select_some_probes_and_exclude_others");
                }
            }
        } else {
            cov.hit("rt:raw_json5_text");
        }
        if visible {
            cov.hit("rt:effect_visible_on_probes");
        }
        cov.eval(if visible { Some(hash64(format!("rt\u{1}{}", s1).as_bytes())) } else { None });
        if *b0 != *b1 {
            // the difference must be reproducible with fresh runs, and the behaviour of the
            // original configuration must itself be deterministic
            let (f0, f0b, f1) = (probe::behave(&text), probe::behave(&text), probe::behave(&s1));
            if f0 != f0b || f0 != *b0 || f1 != *b1 {
                cov.hit("rt:probe_behaviour_not_deterministic");
                return Verdict::discard("probe behaviour not deterministic");
            }
            let coarse = if cfg.map(|c| written_as_string(c, &s1)).unwrap_or(false) { "rt-behaviour:rule-written-as-string" } else { "rt-behaviour" };
            return Verdict::violated(
                coarse,
                format!(
                    "configuration\n  {}\nserialises to\n  {}\nwhich transforms the probe tree differently (first = original configuration, second = read back):\n{}",
                    clip(&text, 1500),
                    clip(&s1, 1500),
                    b0.diff(&b1)
                ),
            );
        }
        let s2 = serialize_cfg(&c2).unwrap_or_else(|e| format!("<error {}>", e));
        if s1 == s2 {
            cov.hit("rt:text_fixpoint_identical");
        } else if canonical(&s1).is_some() && canonical(&s1) == canonical(&s2) {
            cov.hit("rt:text_fixpoint_up_to_set_order");
        } else {
            return Verdict::violated("rt-text-unstable", format!("configuration\n  {}\nserialises to\n  {}\nbut reading that back and serialising again gives\n  {}", clip(&text, 1500), clip(&s1, 1500), clip(&s2, 1500)));
        }
        if cov.want_sample() && visible {
            cov.sample(json!({"kind": "rt", "config": clip(&text, 400), "serialized": clip(&s1, 400), "probe_files_changed": b0.differing_probes(&Behaviour{ok: true, errors: vec![], files: probe::probe_files().into_iter().collect()})}));
        }
        Verdict::Held
    }

    fn run_pair(&mut self, case: &Case, cov: &mut Cov) -> Verdict {
        let (Some(a), Some(b)) = (case.get("a"), case.get("b")) else { return Verdict::discard("malformed case") };
        if let Some(t) = avoided(case, Some(a)).or_else(|| avoided(case, Some(b))) {
            cov.hit("pair:avoided_known_defect");
            return Verdict::discard(format!("avoid-known:{}", t));
        }
        let (ta, _s1) = materialise(&model::to_text(a, None));
        let (tb, _s2) = materialise(&model::to_text(b, None));
        let (ca, cb) = match (parse_cfg(&ta), parse_cfg(&tb)) {
            (Ok(x), Ok(y)) => (x, y),
            _ => {
                cov.hit("pair:member_rejected");
                return Verdict::discard("rejected: member of a pair");
            }
        };
        let (sa, sb) = match (serialize_cfg(&ca), serialize_cfg(&cb)) {
            (Ok(x), Ok(y)) => (x, y),
            _ => return Verdict::violated("rt-serialize-error", format!("one of\n  {}\n  {}\ncannot be serialised", ta, tb)),
        };
        let ba = self.behave(&ta);
        let bb = self.behave(&tb);
        let separated = *ba != *bb;
        cov.hit(if separated { "pair:separated_by_probes" } else { "pair:same_behaviour" });
        cov.hit(if sa == sb { "pair:same_text" } else { "pair:different_text" });
        cov.eval(if separated { Some(hash64(format!("pair\u{1}{}\u{1}{}", sa, sb).as_bytes())) } else { None });
        if separated && sa == sb {
            let (fa, fa2, fb, fb2) = (probe::behave(&ta), probe::behave(&ta), probe::behave(&tb), probe::behave(&tb));
            if fa != fa2 || fb != fb2 || fa != *ba || fb != *bb {
                cov.hit("pair:probe_behaviour_not_deterministic");
                return Verdict::discard("probe behaviour not deterministic");
            }
            return Verdict::violated(
                "indistinguishable",
                format!("the configurations\n  A: {}\n  B: {}\nboth serialise to\n  {}\nbut transform the probe tree differently (first = A, second = B):\n{}", clip(&ta, 1200), clip(&tb, 1200), clip(&sa, 1200), ba.diff(&bb)),
            );
        }
        Verdict::Held
    }

    /// list forms of `apply_to_files` / `skip_files` (documentation: "Each field can be a single
    /// pattern string or an array of patterns"; apply: "matches at least one pattern"; skip:
    /// "matches any pattern")
    fn run_flist(&mut self, case: &Case, cov: &mut Cov) -> Verdict {
        let (Some(rule), Some(level), Some(field)) = (case.get("rule").and_then(|r| r.as_object()), case.get("level").and_then(|l| l.as_str()), case.get("field").and_then(|l| l.as_str())) else {
            return Verdict::discard("malformed case");
        };
        let pats: Vec<Value> = case.get("patterns").and_then(|p| p.as_array()).cloned().unwrap_or_default();
        if pats.len() < 2 {
            return Verdict::discard("malformed case");
        }
        let build = |filter: Option<Value>| -> String {
            let mut entry = rule.clone();
            let mut top = Map::new();
            if let Some(f) = filter {
                if level == "rule" {
                    entry.insert(field.to_string(), f);
                } else {
                    top.insert(field.to_string(), f);
                }
            }
            top.insert("rules".into(), json!([Value::Object(entry)]));
            model::to_text(&Value::Object(top), None)
        };
        let texts = vec![
            build(None),
            "{ rules: [] }".to_string(),
            build(Some(pats[0].clone())),
            build(Some(pats[1].clone())),
            build(Some(Value::Array(pats.clone()))),
            build(Some(json!([pats[0]]))),
        ];
        let mut bs: Vec<Rc<Behaviour>> = vec![];
        for t in &texts {
            if parse_cfg(t).is_err() {
                cov.hit("flist:member_rejected");
                return Verdict::discard("rejected: member of a filter-list case");
            }
            let b = self.behave(t);
            if !b.ok {
                return Verdict::discard("filter-list case: processing failed");
            }
            bs.push(b);
        }
        let (on, off, b1, b2, b12, bl1) = (&bs[0], &bs[1], &bs[2], &bs[3], &bs[4], &bs[5]);
        cov.hit("flist:evaluated");
        let place = format!("{}.{}", level, field);
        if **b1 != **bl1 {
            let (f1, f2) = (probe::behave(&texts[2]), probe::behave(&texts[5]));
            if f1 != **b1 || f2 != **bl1 {
                return Verdict::discard("probe behaviour not deterministic");
            }
            return Verdict::violated(format!("filter-single-string-differs-from-one-element-list:{}", place), format!("the configurations\n  {}\n  {}\nmust mean the same, but transform the probe tree differently:\n{}", texts[2], texts[5], b1.diff(bl1)));
        }
        // state of each informative file under each variant
        #[derive(PartialEq, Clone, Copy)]
        enum St {
            On,
            Off,
            Third,
        }
        let state = |b: &Behaviour, f: &str| -> St {
            let x = b.files.get(f);
            if x == on.files.get(f) {
                St::On
            } else if x == off.files.get(f) || x.is_none() {
                // at top level a file that is filtered out is not written at all ("skipped entirely")
                St::Off
            } else {
                St::Third
            }
        };
        // the patterns of the deterministic cases are simple enough to state which probe files
        // they select; a single pattern must select exactly those
        for (k, b) in [(0usize, b1), (1usize, b2)] {
            let Some(members) = pats[k].as_str().and_then(expected_members) else { continue };
            for f in probe::PROBES {
                if on.files.get(f) == off.files.get(f) {
                    continue;
                }
                let st = state(b, f);
                let selected = members.contains(&f);
                let expected = if (field == "apply_to_files") == selected { St::On } else { St::Off };
                if st != St::Third && st != expected {
                    let fresh = probe::behave(&texts[2 + k]);
                    if fresh != **b {
                        return Verdict::discard("probe behaviour not deterministic");
                    }
                    return Verdict::violated(
                        format!("filter-selects-wrong-files:{}", place),
                        format!("with\n  {}\nthe rule must {}be applied to {} (the pattern {} {} it), but it is {}applied", texts[2 + k], if expected == St::On { "" } else { "not " }, f, pats[k], if selected { "matches" } else { "does not match" }, if st == St::On { "" } else { "not " }),
                    );
                }
                cov.hit("flist:single_pattern_membership_checked");
            }
        }
        let mut informative = 0;
        let mut differ = false;
        for f in on.files.keys() {
            if on.files.get(f) == off.files.get(f) {
                continue;
            }
            informative += 1;
            let (s1, s2, s12) = (state(b1, f), state(b2, f), state(b12, f));
            if s1 == St::Third || s2 == St::Third || s12 == St::Third {
                cov.hit("flist:file_in_neither_state");
                return Verdict::discard("filter-list case: a file is neither transformed nor untouched");
            }
            if s1 != s2 {
                differ = true;
            }
            let expected = if field == "apply_to_files" {
                if s1 == St::On || s2 == St::On { St::On } else { St::Off }
            } else if s1 == St::Off || s2 == St::Off {
                St::Off
            } else {
                St::On
            };
            if s12 != expected {
                let name = |s: St| if s == St::On { "applied" } else { "not applied" };
                let fresh = probe::behave(&texts[4]);
                if fresh != **b12 {
                    return Verdict::discard("probe behaviour not deterministic");
                }
                return Verdict::violated(
                    format!("filter-list-is-not-the-union:{}", place),
                    format!(
                        "file {}: the rule is {} with\n  {}\nand {} with\n  {}\nso with the list\n  {}\nit must be {}, but it is {}",
                        f, name(s1), texts[2], name(s2), texts[3], texts[4], name(expected), name(s12)
                    ),
                );
            }
        }
        cov.add("flist:informative_files", informative);
        if differ {
            cov.hit("flist:patterns_select_different_files");
        }
        cov.eval(if differ { Some(hash64(format!("flist\u{1}{}", texts[4]).as_bytes())) } else { None });
        Verdict::Held
    }

    /// `inject_global_value`: `value: V` injects the expression E exactly when `value: [V]`
    /// injects `{E}` (the value "means what it says" wherever it stands)
    fn run_wrap(&mut self, case: &Case, cov: &mut Cov) -> Verdict {
        let Some(v) = case.get("value") else { return Verdict::discard("malformed case") };
        if case.get("avoid").and_then(|a| a.as_array()).map(|a| !a.is_empty()).unwrap_or(false) {
            cov.hit("wrap:avoided_known_defect");
            return Verdict::discard("avoid-known:inject_value_shaped_like_require_mode");
        }
        let mk = |v: &Value| model::to_text(&json!({"rules": [{"rule": "inject_global_value", "identifier": "INJ", "value": v}]}), None);
        let (t1, t2) = (mk(v), mk(&json!([v])));
        if parse_cfg(&t1).is_err() || parse_cfg(&t2).is_err() {
            return Verdict::discard("rejected: member of a wrap case");
        }
        let (b1, b2) = (self.behave(&t1), self.behave(&t2));
        let line = |b: &Behaviour| -> Option<String> { b.files.get("src/a/x.lua").and_then(|f| f.lines().find(|l| l.starts_with("print(") && !l.starts_with("print('str')") && !l.starts_with("print(i)")).map(|l| l.to_string())) };
        let (Some(l1), Some(l2)) = (line(&b1), line(&b2)) else { return Verdict::discard("wrap case: injected line not found") };
        // l1 = print(E, E)
        let inner = &l1["print(".len()..l1.len().saturating_sub(1)];
        if inner.len() < 3 || (inner.len() - 2) % 2 != 0 {
            return Verdict::discard("wrap case: unexpected shape of the injected line");
        }
        let e = &inner[..(inner.len() - 2) / 2];
        if format!("print({}, {})", e, e) != l1 {
            return Verdict::discard("wrap case: unexpected shape of the injected line");
        }
        cov.hit("wrap:evaluated");
        cov.eval(Some(hash64(format!("wrap\u{1}{}", t1).as_bytes())));
        let expected = format!("print({{{}}}, {{{}}})", e, e);
        if l2 != expected {
            return Verdict::violated(
                "inject-value-changes-when-wrapped-in-a-list",
                format!("the same JSON value is injected differently depending on where it stands: with\n  {}\nthe line `print(INJ, _G.INJ)` becomes\n  {}\nso with the value wrapped in a list\n  {}\nit should become\n  {}\nbut it becomes\n  {}\n(one of the two configurations does not mean what it says)", t1, l1, t2, expected, l2),
            );
        }
        Verdict::Held
    }

    fn judge_corruption(&mut self, text_raw: &str, base: Option<&Value>, class: &str, place: &str, must_reject: bool, cov: &mut Cov) -> Option<(String, String)> {
        let (text, _scratch) = materialise(text_raw);
        cov.add("corrupt:items", 1);
        cov.eval(Some(hash64(format!("corrupt\u{1}{}", text_raw).as_bytes())));
        match parse_cfg(&text) {
            Err(e) => {
                cov.hit(&format!("corrupt:{}:rejected", class));
                if cov.want_sample() && hash64(text.as_bytes()) % 97 == 0 {
                    cov.sample(json!({"kind": "corrupt", "class": class, "place": place, "config": clip(&text, 300), "error": clip(&e, 200)}));
                }
                None
            }
            Ok(c) => {
                if !must_reject {
                    cov.hit(&format!("corrupt:{}:accepted(not judged)", class));
                    cov.hit(&format!("not_judged_accepted:{}:{}", class, place));
                    return None;
                }
                cov.hit(&format!("corrupt:{}:accepted(VIOLATION)", class));
                let ser = serialize_cfg(&c).unwrap_or_else(|e| format!("<serialisation error: {}>", e));
                let mut how = String::new();
                if let Some(base) = base {
                    let (bt, _s) = materialise(&model::to_text(base, None));
                    if parse_cfg(&bt).is_ok() {
                        let b0 = self.behave(&bt);
                        let b1 = self.behave(&text);
                        how = if *b0 == *b1 {
                            format!("\nthe accepted configuration transforms the probe tree exactly like the uncorrupted one\n  {}", clip(&bt, 800))
                        } else {
                            format!("\ncompared with the uncorrupted configuration\n  {}\nit transforms the probe tree differently:\n{}", clip(&bt, 800), b0.diff(&b1))
                        };
                    }
                }
                Some((format!("accepted:{}:{}", class, place), format!("corruption `{}` at {} must be an error, but the configuration\n  {}\nis accepted (serialised as {}){}", class, place, clip(&text, 1200), clip(&ser, 600), how)))
            }
        }
    }

    fn run_corrupt(&mut self, case: &Case, cov: &mut Cov) -> Verdict {
        let Some(base0) = case.get("base") else { return Verdict::discard("malformed case") };
        let class = case.get("class").and_then(|c| c.as_str()).unwrap_or("");
        let place = case.get("place").and_then(|c| c.as_str()).unwrap_or("");
        let avoid: Vec<&str> = case.get("avoid").and_then(|a| a.as_array()).map(|a| a.iter().filter_map(|x| x.as_str()).collect()).unwrap_or_default();
        if avoid.contains(&format!("{}:{}", class, place).as_str()) {
            cov.hit("corrupt:avoided_known_defect");
            return Verdict::discard(format!("avoid-known:{}:{}", class, place));
        }
        // two-field corruption: apply a first corruption to the base
        let mut base = base0.clone();
        let mut pre_reject = false;
        if let Some(pre) = case.get("pre").and_then(|p| p.as_u64()) {
            let all = model::corruptions(base0);
            match all.get(pre as usize) {
                Some(c) if c.dup.is_none() && c.value.is_object() => {
                    if avoid.contains(&format!("{}:{}", c.class, c.place).as_str()) {
                        return Verdict::discard("avoid-known: first corruption of a two-field case");
                    }
                    // the verdict of the first corruption carries over only when the second one
                    // cannot overwrite it (it edits another part of the configuration)
                    pre_reject = c.must_reject && area(&c.place) != area(place) && area(place) != "whole";
                    base = c.value.clone();
                    cov.hit("corrupt:two_field");
                }
                _ => return Verdict::discard("two-field case: first corruption not applicable"),
            }
        }
        let items: Vec<Corruption> = model::corruptions(&base).into_iter().filter(|c| c.class == class && c.place == place).collect();
        if items.is_empty() {
            return Verdict::discard("corruption group empty");
        }
        for it in items {
            let text = it.text();
            let must = it.must_reject || pre_reject;
            let cls = if case.get("pre").is_some() { format!("two-field:{}", class) } else { class.to_string() };
            if let Some((sig, detail)) = self.judge_corruption(&text, if pre_reject || case.get("pre").is_some() { None } else { Some(base0) }, &cls, place, must, cov) {
                let narrowed = json!({"kind": "corrupt1", "text": text, "base": if case.get("pre").is_some() { Value::Null } else { base0.clone() }, "class": cls, "place": place, "must_reject": true});
                return Verdict::Violated { signature: sig, detail, narrowed: Some(narrowed) };
            }
        }
        Verdict::Held
    }

    fn run_corrupt1(&mut self, case: &Case, cov: &mut Cov) -> Verdict {
        let text = case.get("text").and_then(|c| c.as_str()).unwrap_or("");
        let class = case.get("class").and_then(|c| c.as_str()).unwrap_or("");
        let place = case.get("place").and_then(|c| c.as_str()).unwrap_or("");
        let must = case.get("must_reject").and_then(|c| c.as_bool()).unwrap_or(false);
        let base = case.get("base").filter(|b| b.is_object());
        match self.judge_corruption(text, base, class, place, must, cov) {
            Some((sig, detail)) => Verdict::violated(sig, detail),
            None => Verdict::Held,
        }
    }

    fn random_case(&self, tier: Tier, r: &mut Rng) -> Case {
        // resample until no avoided trigger is present (keeps the random part productive)
        let fresh = |r: &mut Rng| {
            let mut c = model::random_config(r);
            for _ in 0..30 {
                if !model::triggers(&c).iter().any(|t| AVOID_KNOWN.contains(t)) {
                    break;
                }
                c = model::random_config(r);
            }
            c
        };
        match r.below(10) {
            0..=4 => rt_case(fresh(r), "random"),
            5 | 6 => {
                let a = fresh(r);
                let b = mutate(&a, r);
                pair_case(a, b, "random")
            }
            _ => {
                let base = fresh(r);
                let two = tier == Tier::Thorough && r.chance(1, 3);
                if two {
                    let all = model::corruptions(&base);
                    let pre = r.below(all.len().max(1));
                    let second_base = all.get(pre).map(|c| c.value.clone()).unwrap_or(base.clone());
                    let groups = corrupt_groups(&second_base);
                    if groups.is_empty() {
                        return rt_case(base, "random");
                    }
                    let (class, place) = r.pick(&groups).clone();
                    json!({"kind": "corrupt", "base": base, "pre": pre, "class": class, "place": place, "avoid": avoid_value()})
                } else {
                    let groups = corrupt_groups(&base);
                    let (class, place) = r.pick(&groups).clone();
                    json!({"kind": "corrupt", "base": base, "class": class, "place": place, "avoid": avoid_value()})
                }
            }
        }
    }
}

/// change exactly one thing: a rule's property set, a rule's filters, the generator, the
/// top-level filters or the bundle settings
fn mutate(cfg: &Value, r: &mut Rng) -> Value {
    let mut c = cfg.clone();
    let rules_key = if c.get("process").is_some() { "process" } else { "rules" };
    let n = c.get(rules_key).and_then(|x| x.as_array()).map(|a| a.len()).unwrap_or(0);
    let fo = model::filter_options();
    for _ in 0..20 {
        match r.below(5) {
            0 | 1 if n > 0 => {
                let i = r.below(n);
                let cur = c[rules_key][i].clone();
                let name = match &cur {
                    Value::String(s) => s.clone(),
                    Value::Object(m) => m.get("rule").and_then(|x| x.as_str()).unwrap_or("").to_string(),
                    _ => continue,
                };
                let variants = model::rule_variants(&name);
                let mut filters = Map::new();
                if let Some(m) = cur.as_object() {
                    for k in ["apply_to_files", "skip_files"] {
                        if let Some(v) = m.get(k) {
                            filters.insert(k.to_string(), v.clone());
                        }
                    }
                }
                let new = if variants.len() > 1 && r.bool() { model::rule_entry(&name, r.pick(&variants), &filters) } else {
                    let mut props = cur.as_object().cloned().unwrap_or_default();
                    props.remove("rule");
                    props.remove("apply_to_files");
                    props.remove("skip_files");
                    model::rule_entry(&name, &props, &r.pick(&fo).1)
                };
                c[rules_key][i] = new;
            }
            2 => match r.pick(&model::generator_forms()) {
                Some(g) => c["generator"] = g.clone(),
                None => {
                    c.as_object_mut().map(|m| m.remove("generator"));
                }
            },
            3 => {
                if let Some(m) = c.as_object_mut() {
                    m.remove("apply_to_files");
                    m.remove("skip_files");
                    for (k, v) in &r.pick(&fo).1 {
                        m.insert(k.clone(), v.clone());
                    }
                }
            }
            _ => {
                if r.bool() {
                    c["bundle"] = r.pick(&model::bundle_forms()).clone();
                } else {
                    c.as_object_mut().map(|m| m.remove("bundle"));
                }
            }
        }
        if &c != cfg && !model::triggers(&c).iter().any(|t| AVOID_KNOWN.contains(t)) {
            return c;
        }
        c = cfg.clone();
    }
    c
}

/// part of the configuration a corruption edits (from its place label)
fn area(place: &str) -> &'static str {
    match place {
        "top" => "whole",
        "top.+" => "top+",
        "top.rules" | "top.process" => "rules",
        "top.generator" => "generator",
        "top.bundle" => "bundle",
        "top.apply_to_files" | "top.apply_to_files[]" | "top.skip_files" | "top.skip_files[]" => "top-filters",
        p if p.starts_with("generator") => "generator",
        p if p.starts_with("bundle") => "bundle",
        _ => "rules",
    }
}

/// probe files selected by the (deliberately simple) patterns of the deterministic filter cases
fn expected_members(pattern: &str) -> Option<Vec<&'static str>> {
    Some(match pattern {
        "src/a/**" => vec!["src/a/x.lua", "src/a/y.luau"],
        "src/b/**" => vec!["src/b/x.lua", "src/b/y.lua"],
        "**/y.lua" => vec!["src/b/y.lua"],
        "**/x.lua" => vec!["src/a/x.lua", "src/b/x.lua"],
        "src/b/y.lua" => vec!["src/b/y.lua"],
        "**/*.luau" => vec!["src/a/y.luau"],
        _ => return None,
    })
}

fn shrink_cfg(cfg: &Value) -> Vec<Value> {
    let mut out = vec![];
    let Some(top) = cfg.as_object() else { return out };
    let rules_key = if top.contains_key("process") { "process" } else { "rules" };
    if let Some(rules) = top.get(rules_key).and_then(|r| r.as_array()) {
        if rules.len() > 1 {
            for i in 0..rules.len() {
                let mut rs = rules.clone();
                rs.remove(i);
                let mut c = cfg.clone();
                c[rules_key] = Value::Array(rs);
                out.push(c);
            }
        }
    }
    if let Some(rules) = top.get(rules_key).and_then(|r| r.as_array()) {
        if !rules.is_empty() {
            let mut c = cfg.clone();
            c[rules_key] = json!([]);
            out.push(c);
        }
    }
    for k in ["generator", "bundle", "apply_to_files", "skip_files"] {
        if top.contains_key(k) {
            let mut c = cfg.clone();
            c.as_object_mut().map(|m| m.remove(k));
            out.push(c);
        }
    }
    if let Some(rules) = top.get(rules_key).and_then(|r| r.as_array()) {
        for (i, r) in rules.iter().enumerate() {
            if let Some(m) = r.as_object() {
                for k in m.keys() {
                    if k == "rule" {
                        continue;
                    }
                    let mut c = cfg.clone();
                    c[rules_key][i].as_object_mut().map(|mm| mm.remove(k));
                    out.push(c);
                    if let Some(a) = m[k].as_array() {
                        if a.len() > 1 && a.iter().all(|x| x.is_string()) {
                            for j in 0..a.len() {
                                let mut b = a.clone();
                                b.remove(j);
                                let mut c = cfg.clone();
                                c[rules_key][i][k] = Value::Array(b);
                                out.push(c);
                            }
                        }
                    }
                }
            }
        }
    }
    if let Some(b) = top.get("bundle").and_then(|b| b.as_object()) {
        for k in b.keys() {
            if k != "require_mode" {
                let mut c = cfg.clone();
                c["bundle"].as_object_mut().map(|m| m.remove(k));
                out.push(c);
            }
        }
    }
    out
}

impl Monitor for C19 {
    fn id(&self) -> &'static str {
        "C19"
    }

    fn rule_text(&self) -> String {
        "Cases are configurations written from a schema model of the documentation (32 rules; 9 with parameters; filters; generator forms; bundle settings) and evaluated on a probe tree \
         (4 Lua/Luau files holding one construct per rule + support modules, .luaurc, Rojo sourcemap). \
         Deterministic prefix (seed independent, always complete): every rule in string and object form x every listed property set x filters {none, apply, skip, both} x {single string, list}; \
         generator forms x 4 rule lists x top-level filters; bundle settings; JSON5-syntax samples; all pairs of property sets per rule, of filter options on 5 rules, of generator forms, of top-level filters and a selection of bundle pairs; list forms of filters (pattern pairs x apply/skip x rule/top level x 3 rules: list = union, string = one-element list, each simple pattern selects exactly the probe files it names); \
         inject_global_value values (`value: V` and `value: [V]` inject E and `{E}`); \
         every (class, place) group of single-field corruptions of 50+ base configurations. Beyond: random multi-rule configurations (round trip, pair with one mutated field, corruption groups; two-field corruptions in thorough). \
         An `rt` evaluation is non-trivial when the configuration visibly changes the probe tree (normal form: its serialisation); a `pair` evaluation when the probe tree separates the two configurations; every corrupted text is one evaluation (normal form: the text)."
            .into()
    }

    fn assumptions(&self) -> Vec<String> {
        vec![
            "serde_json::to_vec(&Configuration) is the serialisation the property speaks about (it is what WorkerTree::has_configuration_changed hashes); json5::from_str is how configurations are read (Worker::read_configuration)".into(),
            "two behaviours are equal when darklua_core::process over the in-memory probe tree yields the same success flag, the same error messages and byte-identical files".into(),
            "order inside bundle.excludes (a set) and inside JSON objects is not part of the serialised meaning: a serialisation that differs only there after a round trip is accepted".into(),
            "corruptions judged as must-be-rejected: unknown/misspelt top-level keys, unknown rule names, unknown properties (also on parameterless rules), wrong JSON types, values outside a documented enumeration, invalid glob/regex patterns in filters and rule properties, documented mutually exclusive properties, unknown keys inside generator/bundle/require-mode objects. Observed but not judged: duplicate keys, missing required fields, invalid globs in bundle.excludes (logged as a warning by design), `roblox` as current require mode, default_value without env, non-identifier globals".into(),
            "the six filter patterns of the deterministic filter cases (`src/a/**`, `src/b/**`, `**/y.lua`, `**/x.lua`, `src/b/y.lua`, `**/*.luau`) select the probe files listed in `expected_members`; a top-level filter that excludes a file leaves it out of the output (documented: skipped entirely)".into(),
            "the globs `src/{a` and `src/[a` are invalid for wax; the regexes `(`, `[a`, `*a` are invalid for the regex crate".into(),
            "environment variables DLVERIF_C19_SET / DLVERIF_C19_JSON are set and DLVERIF_C19_UNSET is removed by the monitor before every case".into(),
        ]
    }

    fn plan(&self, tier: Tier) -> Plan {
        Plan { deterministic: self.det().len() as u64, max_cases: u64::MAX, budget_s: if tier == Tier::Quick { 20.0 } else { 240.0 } }
    }

    fn gen(&mut self, tier: Tier, seed: u64, index: u64) -> Option<Case> {
        let det = self.det();
        if (index as usize) < det.len() {
            return Some(det[index as usize].clone());
        }
        let mut r = case_rng("C19", seed, index);
        Some(self.random_case(tier, &mut r))
    }

    fn run(&mut self, case: &Case, cov: &mut Cov) -> Verdict {
        probe::pin_environment();
        match case.get("kind").and_then(|k| k.as_str()) {
            Some("rt") => self.run_rt(case, cov),
            Some("pair") => self.run_pair(case, cov),
            Some("corrupt") => self.run_corrupt(case, cov),
            Some("corrupt1") => self.run_corrupt1(case, cov),
            Some("flist") => self.run_flist(case, cov),
            Some("wrap") => self.run_wrap(case, cov),
            _ => Verdict::discard("unknown case kind"),
        }
    }

    fn shrink(&mut self, case: &Case) -> Vec<Case> {
        match case.get("kind").and_then(|k| k.as_str()) {
            Some("rt") => {
                let Some(cfg) = case.get("cfg") else { return vec![] };
                shrink_cfg(cfg)
                    .into_iter()
                    .map(|c| {
                        let mut n = case.clone();
                        n["cfg"] = c;
                        n
                    })
                    .collect()
            }
            Some("pair") => {
                // remove the same top-level key / rule from both members
                let (Some(a), Some(b)) = (case.get("a"), case.get("b")) else { return vec![] };
                let mut out = vec![];
                for k in ["generator", "bundle", "apply_to_files", "skip_files"] {
                    if a.get(k).is_some() && a.get(k) == b.get(k) {
                        let mut n = case.clone();
                        n["a"].as_object_mut().map(|m| m.remove(k));
                        n["b"].as_object_mut().map(|m| m.remove(k));
                        out.push(n);
                    }
                }
                for key in ["rules", "process"] {
                    if let (Some(ra), Some(rb)) = (a.get(key).and_then(|x| x.as_array()), b.get(key).and_then(|x| x.as_array())) {
                        if ra.len() == rb.len() && ra.len() > 1 {
                            for i in 0..ra.len() {
                                if ra[i] == rb[i] {
                                    let mut n = case.clone();
                                    n["a"][key].as_array_mut().map(|v| v.remove(i));
                                    n["b"][key].as_array_mut().map(|v| v.remove(i));
                                    out.push(n);
                                }
                            }
                        }
                    }
                }
                out
            }
            _ => vec![],
        }
    }

    fn classify(&mut self, case: &Case, signature: &str) -> String {
        match (case.get("kind").and_then(|k| k.as_str()), signature) {
            (Some("rt"), "rt-behaviour") | (Some("rt"), "rt-behaviour:rule-written-as-string") | (Some("rt"), "rt-reparse-error") | (Some("rt"), "rt-text-unstable") => {
                let text = case_text(case, "cfg", "text").unwrap_or_default();
                let cfg: Option<Value> = case.get("cfg").cloned().or_else(|| json5::from_str::<Value>(&text).ok());
                let Some(cfg) = cfg else { return signature.to_string() };
                let (mt, _s) = materialise(&text);
                let ser = parse_cfg(&mt).ok().and_then(|c| serialize_cfg(&c).ok()).unwrap_or_default();
                let nonfinite = case.get("text").and_then(|t| t.as_str()).map(|t| t.contains("Infinity") || t.contains("NaN")).unwrap_or(false);
                format!("{}:{}:lost[{}]{}", signature, rules_label(&cfg), lost_keys(&cfg, &ser).join(","), if nonfinite { ":nonfinite-number" } else { "" })
            }
            (Some("pair"), "indistinguishable") => {
                let (Some(a), Some(b)) = (case.get("a"), case.get("b")) else { return signature.to_string() };
                // the keys in which the two members differ
                let mut keys: Vec<String> = vec![];
                let mut note = |k: &str| {
                    if !keys.contains(&k.to_string()) {
                        keys.push(k.to_string())
                    }
                };
                for k in ["generator", "bundle", "apply_to_files", "skip_files"] {
                    if a.get(k) != b.get(k) {
                        note(k);
                    }
                }
                let ra = a.get("rules").or_else(|| a.get("process")).and_then(|x| x.as_array()).cloned().unwrap_or_default();
                let rb = b.get("rules").or_else(|| b.get("process")).and_then(|x| x.as_array()).cloned().unwrap_or_default();
                for i in 0..ra.len().max(rb.len()) {
                    let (x, y) = (ra.get(i), rb.get(i));
                    if x != y {
                        let ox = x.and_then(|v| v.as_object()).cloned().unwrap_or_default();
                        let oy = y.and_then(|v| v.as_object()).cloned().unwrap_or_default();
                        for k in ox.keys().chain(oy.keys()) {
                            if ox.get(k) != oy.get(k) {
                                note(k);
                            }
                        }
                    }
                }
                keys.sort();
                format!("indistinguishable:{}:differ[{}]", rules_label(a), keys.join(","))
            }
            _ => signature.to_string(),
        }
    }

    fn floors(&self, tier: Tier) -> Vec<(String, u64)> {
        let k = if tier == Tier::Quick { 1 } else { 2 };
        vec![
            ("rt:accepted".into(), 100 * k),
            ("rt:effect_visible_on_probes".into(), 80 * k),
            ("rt:filters_select_some_probes_and_exclude_others".into(), 20 * k),
            ("pair:separated_by_probes".into(), 40 * k),
            ("flist:patterns_select_different_files".into(), 20),
            ("corrupt:items".into(), 2000 * k),
            ("corrupt:unknown_top_key:rejected".into(), 50),
            ("corrupt:unknown_rule_name:rejected".into(), 50),
            ("corrupt:unknown_rule_property:rejected".into(), 20),
            ("corrupt:prop_on_parameterless:rejected".into(), 50),
            ("corrupt:wrong_type:rejected".into(), 200),
            ("corrupt:invalid_pattern:rejected".into(), 50),
            ("corrupt:contradictory:rejected".into(), 5),
        ]
    }

    fn case_cpu_limit_s(&self) -> f64 {
        20.0
    }

    fn exhaustive_note(&self, _tier: Tier) -> Option<String> {
        Some(format!("deterministic prefix: {} cases (witnesses, rule x property set x filter product, generator and bundle forms, pairs, corruption groups), all executed in every run", self.det().len()))
    }
}

#[allow(dead_code)]
fn _unused(_: Seg) {}
