//! C19 — probe tree and behaviour observation.
//!
//! The probe tree is a small in-memory project in which every one of the 32 rules has something
//! to do, every rule parameter changes the output of at least one file, and every filter pattern
//! used by the configuration generator selects some probe files and excludes others.

use crate::dl;
use crate::rng::hash64;
use std::collections::BTreeMap;

/// Environment variables read by `inject_global_value` (`env`, `env_json`).  They are (re)set at
/// the start of every case so that a replay in a fresh process sees the same environment.
pub const ENV_SET: &str = "DLVERIF_C19_SET";
pub const ENV_JSON: &str = "DLVERIF_C19_JSON";
pub const ENV_UNSET: &str = "DLVERIF_C19_UNSET";

pub fn pin_environment() {
    std::env::set_var(ENV_SET, "from-env");
    std::env::set_var(ENV_JSON, "{ k: [1, true], s: 'v' }");
    std::env::remove_var(ENV_UNSET);
}

/// One construct per rule (see the table in `rule_text`).  The global `a` is used so that
/// `rename_variables.detect_globals` matters; `INJ` is the injected global.
pub const UNIVERSAL: &str = r#"--!native
-- plain comment
local dep = require('./dep')
local pkg = require('./pkg')
local c1 = 1 + 2
function gfn() return 1 end
local t = {}
t['field'] = 1
local function lf() return 1 end
local n = 0b1010 + 1_000
local sq = math.sqrt(n)
local function early() do return 1 end return 2 end
local g1 = 1
local g2 = 2
print(INJ, _G.INJ)
const mal = 1
assert(cond(), 'msg')
@native local function nf() return 3 end
@deprecated function gdep() return 4 end
n += 1
for i = 1, 2 do if i == 1 then continue end print(i) end
debug.profilebegin(label())
debug.profileend()
do end
local fd = n // 2
print('str')
local ie = if n then 1 else 2
local s = `a{n}b`
t:method(1)
function t:m() return self end
local nd = nil
local ty: number = 1
if true then a() else b() end
local unused = 1
while false do x() end
local function named(longparam) return longparam end
return dep, pkg, c1, t, lf, sq, early, g1, g2, mal, nf, fd, ie, s, nd, ty, named
"#;

/// the four probe files (all with the universal content); the other files are support modules
pub const PROBES: [&str; 4] = ["src/a/x.lua", "src/a/y.luau", "src/b/x.lua", "src/b/y.lua"];

pub fn probe_files() -> Vec<(String, String)> {
    let mut v: Vec<(String, String)> = vec![];
    for p in PROBES {
        let mut text = String::new();
        text.push_str(UNIVERSAL);
        if p == "src/b/y.lua" {
            // requires through aliases: `.luaurc` alias, `sources` alias
            text = text.replacen("local c1 = 1 + 2", "local lib = require('@lib/dep')\nlocal viasrc = require('@pkg/dep')\nlocal c1 = 1 + 2", 1);
        }
        v.push((p.to_string(), text));
    }
    for d in ["src/a", "src/b"] {
        v.push((format!("{}/dep.lua", d), format!("-- dep of {}\nreturn {{ name = '{}' }}\n", d, d)));
        v.push((format!("{}/pkg/init.lua", d), "return { entry = 'init' }\n".to_string()));
        v.push((format!("{}/pkg/main.lua", d), "return { entry = 'main' }\n".to_string()));
    }
    v.push(("src/.luaurc".to_string(), "{ \"aliases\": { \"lib\": \"./a\" } }".to_string()));
    v.push(("src/sourcemap.json".to_string(), SOURCEMAP.to_string()));
    v
}

const SOURCEMAP: &str = r#"{"name":"Project","className":"ModuleScript","filePaths":["default.project.json"],"children":[
 {"name":"a","className":"Folder","children":[
   {"name":"x","className":"ModuleScript","filePaths":["a/x.lua"]},
   {"name":"y","className":"ModuleScript","filePaths":["a/y.luau"]},
   {"name":"dep","className":"ModuleScript","filePaths":["a/dep.lua"]},
   {"name":"pkg","className":"ModuleScript","filePaths":["a/pkg/init.lua"],"children":[{"name":"main","className":"ModuleScript","filePaths":["a/pkg/main.lua"]}]}]},
 {"name":"b","className":"Folder","children":[
   {"name":"x","className":"ModuleScript","filePaths":["b/x.lua"]},
   {"name":"y","className":"ModuleScript","filePaths":["b/y.lua"]},
   {"name":"dep","className":"ModuleScript","filePaths":["b/dep.lua"]},
   {"name":"pkg","className":"ModuleScript","filePaths":["b/pkg/init.lua"],"children":[{"name":"main","className":"ModuleScript","filePaths":["b/pkg/main.lua"]}]}]}]}"#;

#[derive(Clone, PartialEq, Eq, Debug)]
pub struct Behaviour {
    pub ok: bool,
    pub errors: Vec<String>,
    pub files: BTreeMap<String, String>,
}

impl Behaviour {
    pub fn hash(&self) -> u64 {
        let mut s = String::new();
        s.push_str(if self.ok { "ok" } else { "err" });
        for e in &self.errors {
            s.push_str(e);
            s.push('\u{1}');
        }
        for (k, v) in &self.files {
            s.push_str(k);
            s.push('\u{2}');
            s.push_str(v);
            s.push('\u{3}');
        }
        hash64(s.as_bytes())
    }

    /// human readable first difference
    pub fn diff(&self, other: &Behaviour) -> String {
        if self.ok != other.ok || self.errors != other.errors {
            return format!("result: ok={} errors={:?}\n    vs: ok={} errors={:?}", self.ok, clip_vec(&self.errors), other.ok, clip_vec(&other.errors));
        }
        for (k, v) in &self.files {
            match other.files.get(k) {
                None => return format!("file {} exists only on the first side", k),
                Some(w) if w != v => {
                    let (la, lb) = first_diff_line(v, w);
                    return format!("file {} differs:\n  first : {}\n  second: {}", k, la, lb);
                }
                _ => {}
            }
        }
        for k in other.files.keys() {
            if !self.files.contains_key(k) {
                return format!("file {} exists only on the second side", k);
            }
        }
        "identical".into()
    }

    /// names of the probe files whose content differs between the two behaviours
    pub fn differing_probes(&self, other: &Behaviour) -> Vec<&'static str> {
        PROBES.iter().copied().filter(|p| self.files.get(*p) != other.files.get(*p)).collect()
    }
}

fn clip(s: &str) -> String {
    if s.len() > 300 {
        let mut e = 300;
        while !s.is_char_boundary(e) {
            e -= 1;
        }
        format!("{}…", &s[..e])
    } else {
        s.to_string()
    }
}
fn clip_vec(v: &[String]) -> Vec<String> {
    v.iter().take(3).map(|s| clip(s)).collect()
}

fn first_diff_line(a: &str, b: &str) -> (String, String) {
    let mut ia = a.lines();
    let mut ib = b.lines();
    let mut n = 1;
    loop {
        match (ia.next(), ib.next()) {
            (Some(x), Some(y)) if x == y => n += 1,
            (x, y) => return (format!("line {}: {}", n, clip(x.unwrap_or("<end of file>"))), format!("line {}: {}", n, clip(y.unwrap_or("<end of file>")))),
        }
    }
}

/// Run darklua over the probe tree with the given configuration text: input directory `src`,
/// output directory `out` (not in place: bundling and convert_require read other source files,
/// and in place the result would depend on the order in which the files are overwritten).
/// The keys of `files` are the *source* paths.
pub fn behave(config_text: &str) -> Behaviour {
    let files = probe_files();
    let r = dl::process_memory(&files, config_text, "src", Some("out"), "out");
    let files = r.files.into_iter().map(|(k, v)| (format!("src{}", k.strip_prefix("out").unwrap_or(&k)), v)).collect();
    Behaviour { ok: r.ok, errors: r.errors, files }
}
