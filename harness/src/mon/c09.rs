//! C09 — renaming variables never changes which binding a name refers to (independent resolver).

use super::c02::norm_block;
use super::exec::{compare, Cmp, ExecOpts};
use crate::corpus;
use crate::dl;
use crate::framework::*;
use crate::gen::prog::{self, Feat};
use crate::gen::shrink::SrcShrinker;
use crate::reflua::lexer::is_keyword;
use crate::reflua::parser::{parse_block, Mode};
use crate::reflua::print::print_block;
use crate::reflua::resolve::resolve;
use crate::rng::hash64;
use serde_json::json;

#[derive(Default)]
pub struct C09 {
    corpus: Vec<corpus::CorpusItem>,
    loaded: bool,
}

const LUA_GLOBALS: [&str; 41] = [
    "arg", "assert", "collectgarbage", "coroutine", "debug", "dofile", "error", "gcinfo", "getfenv", "getmetatable", "io", "ipairs", "load", "loadfile", "loadstring", "math", "module", "newproxy", "next", "os", "package", "pairs", "pcall", "print", "rawequal", "rawget", "rawset", "require", "select", "setfenv",
    "setmetatable", "string", "table", "tonumber", "tostring", "type", "unpack", "xpcall", "_G", "_VERSION", "utf8",
];

/// globals option variants: (json5 text of the property or "" for default, explicit names to avoid, uses $default)
const GLOBALS_VARIANTS: [(&str, &[&str], bool); 6] = [
    ("", &[], true),
    ("globals: []", &[], false),
    ("globals: ['$default', '$roblox']", &[], true),
    ("globals: ['$default', 'a', 'b', 'c', 'd']", &["a", "b", "c", "d"], true),
    ("globals: ['e', 'f', 'g', 'aa', 'ab']", &["e", "f", "g", "aa", "ab"], false),
    ("globals: ['$default', 'a1', 'z', 'h', 'i']", &["a1", "z", "h", "i"], true),
];

impl C09 {
    fn load(&mut self) {
        if !self.loaded {
            self.loaded = true;
            for it in corpus::load() {
                if it.text.len() < 6000 && matches!(guarded(|| dl::parse(&it.text).is_ok()), Ok(true)) && parse_block(&it.text, Mode::Luau).is_ok() {
                    self.corpus.push(it);
                }
            }
        }
    }
}

fn rule_json(variant: usize, include_functions: bool) -> String {
    let (g, _, _) = GLOBALS_VARIANTS[variant % GLOBALS_VARIANTS.len()];
    let mut props = vec!["rule: 'rename_variables'".to_string()];
    if !g.is_empty() {
        props.push(g.to_string());
    }
    if include_functions {
        props.push("include_functions: true".to_string());
    }
    format!("{{ {} }}", props.join(", "))
}

impl Monitor for C09 {
    fn id(&self) -> &'static str {
        "C09"
    }
    fn rule_text(&self) -> String {
        "inputs: every corpus file both parsers accept (deterministic) and generated programs tuned for scope stress (shadowing at every scope kind, names reused after scope exit, locals named like globals the file uses, 60-260 simultaneously live locals forcing multi-character names, recursive local functions, repeat-until conditions reading body locals, typed Luau programs), each renamed with include_functions in {false,true} x 6 `globals` lists (default, empty, $default+$roblox, lists containing the first names the generator hands out, a keyword). Oracle: the independent resolver rewrites input and output into alpha-normal form (every local replaced by the index of its declaration): the two must be identical (same bindings for every occurrence; globals, fields, methods, self untouched); every new local name must not be a keyword, a listed global or a global the file uses; generated programs are additionally executed (trace equality). Non-trivial = the input declares at least one local that is used; distinct = hash(source, options).".into()
    }
    fn assumptions(&self) -> Vec<String> {
        vec!["reflua::resolve implements Lua's scoping rules (repeat-until condition in body scope, local function sees itself, for variables per loop, implicit self)".into(), "global detection is on (the default), as the property states".into()]
    }
    fn plan(&self, tier: Tier) -> Plan {
        let mut me = C09::default();
        me.load();
        Plan { deterministic: me.corpus.len() as u64, max_cases: u64::MAX, budget_s: if tier == Tier::Quick { 40.0 } else { 600.0 } }
    }
    fn floors(&self, _tier: Tier) -> Vec<(String, u64)> {
        vec![("held".into(), 300), ("declarations_renamed".into(), 5000)]
    }
    fn gen(&mut self, _tier: Tier, seed: u64, index: u64) -> Option<Case> {
        self.load();
        let i = index as usize;
        if i < self.corpus.len() {
            return Some(json!({"origin": format!("corpus:{}", self.corpus[i].name), "src": self.corpus[i].text, "variant": i % GLOBALS_VARIANTS.len(), "include_functions": i % 2 == 1, "execute": false}));
        }
        let mut r = case_rng("C09", seed, index);
        let mut f = Feat::default();
        f.scope_stress = true;
        f.luau = r.chance(1, 3);
        f.types = f.luau && r.bool();
        f.idioms_refactor = r.bool();
        f.max_stmts = 15 + r.below(60);
        f.avoid = vec!["and_or_multivalue_tail".into()];
        let (block, _) = prog::generate(&mut r, f);
        let src = print_block(&block);
        Some(json!({"origin": "gen", "src": src, "variant": r.below(GLOBALS_VARIANTS.len()), "include_functions": r.bool(), "execute": true}))
    }

    fn run(&mut self, case: &Case, cov: &mut Cov) -> Verdict {
        let src = case["src"].as_str().unwrap_or("");
        let variant = case["variant"].as_u64().unwrap_or(0) as usize;
        let incl = case["include_functions"].as_bool().unwrap_or(false);
        let Ok(b0) = parse_block(src, Mode::Luau) else { return Verdict::discard("reference parser rejects the input") };
        let rule = rule_json(variant, incl);
        let out = match dl::process_one(src, &format!("{{ rules: [{}] }}", rule)) {
            Ok(o) => o,
            Err(e) => {
                if dl::parse_tokens(src).is_err() {
                    return Verdict::discard("darklua's parser rejects the input");
                }
                if e.starts_with("config:") {
                    return Verdict::discard("harness produced a configuration darklua rejects");
                }
                return Verdict::violated("process-error", format!("rename_variables fails on a parsable input: {}", e.lines().next().unwrap_or("")));
            }
        };
        let b1 = match parse_block(&out, Mode::Luau) {
            Ok(b) => b,
            Err(e) => return Verdict::violated("unparsable-output", format!("{}\n--- input\n{}\n--- output\n{}", e, src, out)),
        };
        let r0 = resolve(&b0);
        let r1 = resolve(&b1);
        let n0 = norm_block(&r0.block);
        let n1 = norm_block(&r1.block);
        if n0 != n1 {
            // locate the first difference
            let p = n0.bytes().zip(n1.bytes()).position(|(a, b)| a != b).unwrap_or(n0.len().min(n1.len()));
            let ctx = |s: &str| s[p.saturating_sub(60)..(p + 60).min(s.len())].to_string();
            let kind = if r0.decls.len() != r1.decls.len() { "declaration-count" } else if r0.globals != r1.globals { "global-set-changed" } else { "binding-changed" };
            return Verdict::violated(format!("alpha:{}", kind), format!("alpha-normal forms differ ({}): input …{}… output …{}…\n  input globals {:?}\n  output globals {:?}\n--- rule {}\n--- input\n{}\n--- output\n{}", kind, ctx(&n0), ctx(&n1), r0.globals, r1.globals, rule, src, out));
        }
        // new names
        let (_, explicit, uses_default) = GLOBALS_VARIANTS[variant % GLOBALS_VARIANTS.len()];
        let mut renamed = 0u64;
        for (d0, d1) in r0.decls.iter().zip(r1.decls.iter()) {
            if d0.name == d1.name {
                continue;
            }
            renamed += 1;
            if d0.kind == "self" {
                return Verdict::violated("renamed:self", format!("the implicit `self` was renamed to {}", d1.name));
            }
            let bad = if is_keyword(&d1.name) {
                Some("a reserved word")
            } else if explicit.contains(&d1.name.as_str()) {
                Some("a name listed in `globals`")
            } else if uses_default && LUA_GLOBALS.contains(&d1.name.as_str()) {
                Some("a $default global")
            } else if r1.globals.contains(&d1.name) {
                Some("a global the file uses")
            } else {
                None
            };
            if let Some(why) = bad {
                let class = why.replace(' ', "-");
                return Verdict::violated(format!("new-name:{}", class), format!("{} `{}` was renamed to `{}`, which is {}\n--- rule {}\n--- input\n{}\n--- output\n{}", d0.kind, d0.name, d1.name, why, rule, src, out));
            }
        }
        cov.add("declarations_renamed", renamed);
        cov.add("declarations_seen", r0.decls.len() as u64);
        cov.hit(&format!("variant:{}", variant));
        cov.hit(if incl { "include_functions:true" } else { "include_functions:false" });
        if r1.decls.iter().any(|d| d.name.len() >= 2 && d.name != "self" && !r0.decls.iter().any(|x| x.name == d.name)) {
            cov.hit("multi_character_names_generated");
        }
        let nontrivial = r0.decls.iter().any(|d| d.uses > 0);
        // behaviour backstop for closed programs
        if case["execute"].as_bool().unwrap_or(false) {
            let opts = ExecOpts { both_dialects: parse_block(src, Mode::Strict51).is_ok(), universal: false, fuel: 200_000, model: super::exec::Model::None };
            match compare(src, &out, &opts) {
                Cmp::Same => cov.hit("executed:same-behaviour"),
                Cmp::Discard(_) => cov.hit("executed:not-judged"),
                Cmp::Differ { kind, detail } => return Verdict::violated(format!("behaviour:{}", kind), format!("{}\n--- rule {}\n--- input\n{}\n--- output\n{}", detail, rule, src, out)),
            }
        }
        cov.eval(if nontrivial { Some(hash64(format!("{}|{}", src, rule).as_bytes())) } else { None });
        if nontrivial && cov.want_sample() && src.len() < 400 {
            cov.sample(json!({"source": src, "rule": rule, "output": out}));
        }
        Verdict::Held
    }

    fn shrink_count(&mut self, case: &Case) -> Option<usize> {
        Some(SrcShrinker::new(case["src"].as_str().unwrap_or("")).map(|s| s.count()).unwrap_or(0))
    }
    fn shrink_candidate(&mut self, case: &Case, i: usize) -> Option<Case> {
        let sh = SrcShrinker::new(case["src"].as_str().unwrap_or(""))?;
        let text = sh.candidate(i)?;
        let mut c = case.clone();
        c["src"] = json!(text);
        Some(c)
    }
}
