//! C10 — incremental reprocessing equals processing from scratch (history checker + H1
//! invariants).  See DESIGN.md §6 "C10".
//!
//! The protocol under test is the one `FileWatcher::process_events` (src/cli/utils/
//! file_watcher.rs) uses: first `darklua_core::process`, then per batch of events
//! `source_changed(p)` for modifications, `remove_source(p)` for removals, `collect_work` when
//! something was created, then `WorkerTree::process(resources, fresh Options)` with the
//! configuration re-read from the resources.  Events are delivered only for the paths the watcher
//! watches: the input directory, the configuration file and `iter_external_dependencies()` as of
//! the previous pass.

use super::c10_inv::{self as inv, Snap};
use super::c10_model::{self as model, Ev, Model, Mutation};
use crate::framework::*;
use crate::rng::hash64;
use darklua_core::{Options, Resources, WorkerTree};
use serde_json::{json, Value};
use std::collections::{BTreeMap, BTreeSet, HashMap};
use std::path::{Path, PathBuf};
use std::rc::Rc;

// Triggers of known defects the generator can avoid (so that they do not mask other failures).
// Each one keeps a deterministic witness case (`WITNESSES`) that runs with an empty avoid list.
/// `remove_source(directory)` leaves the ids of the removed nodes inside `external_dependencies`
pub const T_RMDIR: &str = "rmdir-stale-ids";
/// rule filters are (partly) not serialised, so the configuration fingerprint does not see them
pub const T_FILTER: &str = "filter-hash";
/// a require that fails is not recorded as a dependency: repairing it does not restart the bundle
pub const T_DEPFIX: &str = "dep-repair";
/// `process` returns before `clean_files` when no item needs work (a pass with only removals)
pub const T_PURE_RM: &str = "pure-removal";

/// a source removed and created again before the queued deletion of its output ran (same batch,
/// atomic save by rename, or after a pass that skipped the cleaning): the regenerated output is
/// deleted by `clean_files`
pub const T_RECREATE: &str = "recreate-before-clean";

/// no directory is ever pruned when the output directory did not exist before the first run
pub const T_NOPRUNE: &str = "no-prune-without-output-dir";

/// `remove_source(directory)` does not restart the items that pull in a file of that directory
/// (avoided by reporting the removal of such files one by one before the directory event)
pub const T_RMDIR_DEPS: &str = "rmdir-no-restart";

/// live `--watch` back end: an atomic save (temporary file renamed over the source) followed, inside the same
/// debounce window, by a rename or removal of that source is folded by the debouncer into events that never
/// mention the replaced source (avoided by letting the watcher converge after every atomic save)
pub const T_WATCH_FOLD: &str = "watch-save-folded-with-next-event";

/// what the generator avoids by default.  Remove an entry once the defect is fixed in /repo.
// (T_RMDIR, T_PURE_RM, T_RECREATE, T_RMDIR_DEPS were repaired by "fix:" commits in /repo and are exercised again)
pub const DEFAULT_AVOID: [&str; 3] = [T_DEPFIX, T_NOPRUNE, T_WATCH_FOLD];

struct Witness {
    name: &'static str,
    backend: &'static str,
    foreign: bool,
    dir_events: bool,
    ops: &'static [&'static str],
}

/// deterministic cases 0..: minimal histories exhibiting the known defects (no avoidance)
const WITNESSES: [Witness; 9] = [
    Witness { name: T_RMDIR, backend: "mem", foreign: true, dir_events: true, ops: &["rmdir:src/mods", "edit:lib/util.lua"] },
    Witness { name: T_FILTER, backend: "mem", foreign: true, dir_events: true, ops: &["filter:1"] },
    Witness { name: T_DEPFIX, backend: "mem", foreign: true, dir_events: true, ops: &["break:src/mods/m1.lua", "process", "edit:src/mods/m1.lua"] },
    Witness { name: T_PURE_RM, backend: "mem", foreign: true, dir_events: true, ops: &["rm:src/a.lua"] },
    Witness { name: T_RECREATE, backend: "mem", foreign: true, dir_events: true, ops: &["rm:src/a.lua", "restore:src/a.lua"] },
    Witness { name: "recreate-before-clean-atomic-save", backend: "mem", foreign: true, dir_events: false, ops: &["save:src/a.lua"] },
    Witness { name: "rmdir-stale-ids-fs", backend: "fs", foreign: true, dir_events: true, ops: &["rmdir:src/app", "process", "edit:lib/leaf.lua"] },
    Witness { name: T_RMDIR_DEPS, backend: "mem", foreign: true, dir_events: true, ops: &["rmdir:src/mods", "restore"] },
    Witness { name: T_NOPRUNE, backend: "fs", foreign: false, dir_events: true, ops: &["rm:src/sub/deep/c.lua", "process", "edit:src/a.lua"] },
];

#[derive(Clone, Debug)]
struct Block {
    len: usize,
    each: bool,
    dir_events: bool,
    fs: bool,
    foreign: bool,
    /// only the sequences that contain a directory removal
    rmdir_only: bool,
    count: u64,
}

#[derive(Clone, Debug, Default, PartialEq, Eq)]
struct Tree {
    files: BTreeMap<String, String>,
    dirs: BTreeSet<String>,
}

struct FreshOut {
    tree: Tree,
    snap: Snap,
}

pub struct C10 {
    /// known triggers the generated cases avoid: `DEFAULT_AVOID`, or the comma separated list in
    /// the environment variable `DLVERIF_C10_AVOID` (development aid: e.g. `DLVERIF_C10_AVOID=`
    /// to avoid nothing)
    avoid: Vec<String>,
    alphabet: Vec<String>,
    random_ops: Vec<String>,
    fresh_cache: HashMap<u64, Rc<FreshOut>>,
    rmdir_seqs: HashMap<usize, Rc<Vec<u32>>>,
    blocks: HashMap<&'static str, Rc<Vec<Block>>>,
    dir_counter: u64,
    cache_hits: u64,
    watch: super::c10_watch::WatchState,
}

impl Default for C10 {
    fn default() -> Self {
        let avoid: Vec<String> = match std::env::var("DLVERIF_C10_AVOID") {
            Ok(v) => v.split(',').map(|s| s.trim().to_string()).filter(|s| !s.is_empty()).collect(),
            Err(_) => DEFAULT_AVOID.iter().map(|s| s.to_string()).collect(),
        };
        let avoid_filter = avoid.iter().any(|a| a == T_FILTER);
        let avoid_recreate = avoid.iter().any(|a| a == T_RECREATE);
        C10 {
            avoid,
            alphabet: model::alphabet(avoid_filter, avoid_recreate),
            random_ops: model::random_ops(avoid_filter, avoid_recreate),
            fresh_cache: HashMap::new(),
            rmdir_seqs: HashMap::new(),
            blocks: HashMap::new(),
            dir_counter: 0,
            cache_hits: 0,
            watch: Default::default(),
        }
    }
}

fn max_len(tier: Tier) -> usize {
    match tier {
        Tier::Quick => 3,
        Tier::Thorough => 4,
    }
}

fn pow(n: u64, l: usize) -> u64 {
    n.pow(l as u32)
}

impl C10 {
    fn rmdir_sequences(&mut self, len: usize) -> Rc<Vec<u32>> {
        if let Some(v) = self.rmdir_seqs.get(&len) {
            return v.clone();
        }
        let n = self.alphabet.len() as u64;
        let is_rmdir: Vec<bool> = self.alphabet.iter().map(|o| o.starts_with("rmdir:")).collect();
        let total = pow(n, len);
        let mut v = vec![];
        for s in 0..total {
            let mut x = s;
            let mut has = false;
            for _ in 0..len {
                if is_rmdir[(x % n) as usize] {
                    has = true;
                    break;
                }
                x /= n;
            }
            if has {
                v.push(s as u32);
            }
        }
        let v = Rc::new(v);
        self.rmdir_seqs.insert(len, v.clone());
        v
    }

    /// layout of the deterministic (seed independent) prefix after the witnesses
    fn block_list(&mut self, tier: Tier) -> Rc<Vec<Block>> {
        if let Some(b) = self.blocks.get(tier.name()) {
            return b.clone();
        }
        let n = self.alphabet.len() as u64;
        let mut blocks = vec![];
        let maxl = max_len(tier);
        // 1. memory back end, every sequence, directory removals reported file by file
        for len in 1..=maxl {
            for each in [true, false] {
                if len == 1 && !each {
                    continue;
                }
                blocks.push(Block { len, each, dir_events: false, fs: false, foreign: true, rmdir_only: false, count: pow(n, len) });
            }
        }
        // 2. memory back end, sequences with a directory removal reported as one event
        for len in 1..=maxl {
            let cnt = self.rmdir_sequences(len).len() as u64;
            for each in [true, false] {
                if len == 1 && !each {
                    continue;
                }
                blocks.push(Block { len, each, dir_events: true, fs: false, foreign: true, rmdir_only: true, count: cnt });
            }
        }
        // 3. real directory: every sequence up to length 2 under both schedules, directory removal
        //    reported file by file; the sequences with a directory removal again with one event;
        //    without a pre-existing output directory: length 1, and the removals of length 2
        for len in 1..=2usize {
            let cnt = self.rmdir_sequences(len).len() as u64;
            for each in [true, false] {
                if len == 1 && !each {
                    continue;
                }
                blocks.push(Block { len, each, dir_events: false, fs: true, foreign: true, rmdir_only: false, count: pow(n, len) });
                blocks.push(Block { len, each, dir_events: true, fs: true, foreign: true, rmdir_only: true, count: cnt });
                if len == 1 {
                    blocks.push(Block { len, each, dir_events: false, fs: true, foreign: false, rmdir_only: false, count: pow(n, len) });
                } else {
                    blocks.push(Block { len, each, dir_events: false, fs: true, foreign: false, rmdir_only: true, count: cnt });
                }
            }
        }
        let b = Rc::new(blocks);
        self.blocks.insert(tier.name(), b.clone());
        b
    }

    fn deterministic_count(&mut self, tier: Tier) -> u64 {
        WITNESSES.len() as u64 + self.watch_count(tier) + self.block_list(tier).iter().map(|b| b.count).sum::<u64>()
    }

    /// histories played against a live `darklua process --watch` (deterministic part): every operation of
    /// the alphabet alone (quick and thorough); thorough adds every ordered pair, alternately as one burst
    /// and with a convergence point in between
    fn watch_count(&self, tier: Tier) -> u64 {
        let n = self.alphabet.len() as u64;
        match tier {
            Tier::Quick => n,
            Tier::Thorough => n + n * n,
        }
    }

    fn watch_case(&self, k: u64) -> Case {
        let n = self.alphabet.len() as u64;
        let ops: Vec<String> = if k < n {
            vec![self.alphabet[k as usize].clone()]
        } else {
            let j = k - n;
            let (a, b) = ((j / n) as usize, (j % n) as usize);
            let fold = self.avoid.iter().any(|x| x == T_WATCH_FOLD) && self.alphabet[a].starts_with("save:");
            if j % 2 == 0 && !fold {
                vec![self.alphabet[a].clone(), self.alphabet[b].clone()]
            } else {
                vec![self.alphabet[a].clone(), "process".into(), self.alphabet[b].clone()]
            }
        };
        json!({ "backend": "watch", "ops": ops, "pace_ms": (k % 3) * 15 })
    }

    fn decode(&self, mut s: u64, len: usize) -> Vec<String> {
        let n = self.alphabet.len() as u64;
        let mut digits = vec![0usize; len];
        for i in (0..len).rev() {
            digits[i] = (s % n) as usize;
            s /= n;
        }
        digits.into_iter().map(|d| self.alphabet[d].clone()).collect()
    }
}

fn make_case(backend: &str, dir_events: bool, foreign: bool, cfg_path: bool, ops: Vec<String>, avoid: &[String]) -> Case {
    json!({ "backend": backend, "dir_events": dir_events, "foreign": foreign, "cfg_path": cfg_path, "ops": ops, "avoid": avoid })
}

fn with_schedule(ops: Vec<String>, each: bool) -> Vec<String> {
    if !each {
        return ops;
    }
    let mut v = vec![];
    for o in ops {
        v.push(o);
        v.push("process".to_string());
    }
    v
}

// ---------------------------------------------------------------------------------------------
// the world a history runs in

struct World {
    res: Resources,
    fs: bool,
    /// "" (memory) or the absolute temporary directory, without trailing slash
    root: String,
}

/// removes the temporary directory even when darklua panics
struct DirGuard(Option<PathBuf>);
impl Drop for DirGuard {
    fn drop(&mut self) {
        if let Some(p) = &self.0 {
            let _ = std::fs::remove_dir_all(p);
        }
    }
}

impl World {
    fn full(&self, rel: &str) -> PathBuf {
        if self.root.is_empty() {
            PathBuf::from(rel)
        } else {
            Path::new(&self.root).join(rel)
        }
    }

    fn write(&self, rel: &str, text: &str) -> Result<(), String> {
        if self.fs {
            let p = self.full(rel);
            if let Some(parent) = p.parent() {
                std::fs::create_dir_all(parent).map_err(|e| format!("mkdir {}: {}", parent.display(), e))?;
            }
            std::fs::write(&p, text).map_err(|e| format!("write {}: {}", p.display(), e))
        } else {
            self.res.write(rel, text).map_err(|e| format!("memory write {}: {:?}", rel, e))
        }
    }

    fn mutate(&self, m: &Mutation) -> Result<(), String> {
        match m {
            Mutation::Write(p, t) => self.write(p, t),
            Mutation::Delete(p) => {
                if self.fs {
                    std::fs::remove_file(self.full(p)).map_err(|e| format!("rm {}: {}", p, e))
                } else {
                    self.res.remove(p).map_err(|e| format!("memory rm {}: {:?}", p, e))
                }
            }
            Mutation::DeleteDir(p) => {
                if self.fs {
                    std::fs::remove_dir_all(self.full(p)).map_err(|e| format!("rm -r {}: {}", p, e))
                } else {
                    self.res.remove(p).map_err(|e| format!("memory rm -r {}: {:?}", p, e))
                }
            }
            Mutation::Rename(from, to) => {
                if self.fs {
                    let t = self.full(to);
                    if let Some(parent) = t.parent() {
                        std::fs::create_dir_all(parent).map_err(|e| format!("mkdir {}: {}", parent.display(), e))?;
                    }
                    std::fs::rename(self.full(from), &t).map_err(|e| format!("mv {} {}: {}", from, to, e))
                } else {
                    let text = self.res.get(from).map_err(|e| format!("memory mv {}: {:?}", from, e))?;
                    self.res.write(to, &text).map_err(|e| format!("memory mv {}: {:?}", to, e))?;
                    self.res.remove(from).map_err(|e| format!("memory mv {}: {:?}", from, e))
                }
            }
        }
    }

    fn seed(&self, files: &BTreeMap<String, String>, foreign: bool) -> Result<(), String> {
        for (p, t) in files {
            self.write(p, t)?;
        }
        if foreign {
            for (p, t) in model::FOREIGN {
                if let Some(dir) = p.strip_suffix('/') {
                    if self.fs {
                        std::fs::create_dir_all(self.full(dir)).map_err(|e| format!("mkdir {}: {}", dir, e))?;
                    }
                } else {
                    self.write(p, t)?;
                }
            }
        }
        Ok(())
    }

    fn options(&self, cfg_path: bool) -> Options {
        let o = Options::new(self.full(model::INPUT)).with_output(self.full(model::OUTPUT));
        if cfg_path || self.fs {
            o.with_configuration_at(self.full(model::CONFIG))
        } else {
            o
        }
    }

    fn out_tree(&self) -> Tree {
        let mut t = Tree::default();
        if self.fs {
            let base = self.full(model::OUTPUT);
            let mut stack = vec![base.clone()];
            while let Some(d) = stack.pop() {
                let Ok(rd) = std::fs::read_dir(&d) else { continue };
                for e in rd.flatten() {
                    let p = e.path();
                    let r = inv::rel(&self.root, &p);
                    if p.is_dir() {
                        t.dirs.insert(r);
                        stack.push(p);
                    } else {
                        let text = std::fs::read(&p).map(|b| String::from_utf8_lossy(&b).to_string()).unwrap_or_else(|e| format!("<unreadable: {}>", e));
                        t.files.insert(r, text);
                    }
                }
            }
        } else {
            for p in self.res.walk(model::OUTPUT) {
                if let Ok(c) = self.res.get(&p) {
                    t.files.insert(p.to_string_lossy().to_string(), c);
                }
            }
        }
        t
    }
}

fn ancestors_of(files: &BTreeMap<String, String>) -> BTreeSet<String> {
    let mut s = BTreeSet::new();
    for p in files.keys() {
        let mut cur = Path::new(p).parent();
        while let Some(a) = cur {
            if a.as_os_str().is_empty() {
                break;
            }
            s.insert(a.to_string_lossy().to_string());
            cur = a.parent();
        }
    }
    s
}

fn short(s: &str) -> String {
    let one: String = s.replace('\n', "\\n");
    if one.len() > 160 {
        let mut end = 160;
        while !one.is_char_boundary(end) {
            end -= 1;
        }
        format!("{}…", &one[..end])
    } else {
        one
    }
}

#[derive(Debug)]
struct Mismatch {
    path: String,
    kind: &'static str,
    role: &'static str,
    inc_status: String,
    fresh_status: String,
    text: String,
}

impl Mismatch {
    fn signature(&self) -> String {
        format!("tree:{}:{}:inc={}:fresh={}", self.kind, self.role, self.inc_status, self.fresh_status)
    }
}

struct Hist<'a> {
    world: &'a World,
    cfg_path: bool,
    dir_events: bool,
    avoid: BTreeSet<String>,
    model: Model,
    tree: WorkerTree,
    watch: BTreeSet<String>,
    has_created: bool,
    pending: bool,
    last_good: BTreeMap<String, String>,
    trace: Vec<String>,
    snap: Snap,
    /// dependencies that could not be loaded at some quiescent point while bundling was on
    dep_trouble: BTreeSet<String>,
    hard: Vec<(String, String)>,
    soft: BTreeSet<String>,
    passes: u32,
    process_errors: u32,
    /// a violation found while dispatching events
    stopped: Option<Verdict>,
}

enum Step {
    Continue,
    Stop(Verdict),
}

impl<'a> Hist<'a> {
    fn watched(&self, p: &str) -> bool {
        p.starts_with("src/") || p == model::INPUT || p == model::CONFIG || self.watch.contains(p)
    }

    /// call into the worker tree; a panic ends the history with a violation whose signature names
    /// the API call (the location of the panic depends on hash-map iteration order)
    fn call<T>(&mut self, what: &str, f: impl FnOnce(&mut WorkerTree) -> T) -> Result<T, Verdict> {
        let tree = &mut self.tree;
        match guarded(move || f(tree)) {
            Ok(v) => Ok(v),
            Err(msg) => {
                let mut detail = format!("WorkerTree::{} panicked: {}\nhistory ({} back end, directory removal reported {}):\n", what, msg.replace(&self.world.root, ""), if self.world.fs { "file-system" } else { "memory" }, if self.dir_events { "as one event" } else { "file by file" });
                detail.push_str(&self.trace.join("\n"));
                detail.push_str(&format!("\n  >>> panic inside {}", what));
                Err(Verdict::Violated { signature: format!("panic:WorkerTree::{}", what), detail, narrowed: None })
            }
        }
    }

    fn dispatch(&mut self, ev: &Ev, cov: &mut Cov) -> Result<(), Verdict> {
        if let Ev::Renamed(from, to) = ev {
            // EventKind::Modify(ModifyKind::Name(_)): remove_source on every path, then collect
            for p in [from, to] {
                if self.watched(p) {
                    self.trace.push(format!("    remove_source({})   [rename {} -> {}]", p, from, to));
                    cov.hit("call:remove_source");
                    cov.hit("call:remove_source(rename)");
                    let full = self.world.full(p);
                    self.call("remove_source", |t| t.remove_source(&full))?;
                } else {
                    cov.hit("event:not_watched");
                }
            }
            self.has_created = true;
            return Ok(());
        }
        if let Ev::MovedIn(p) | Ev::MovedOut(p) = ev {
            // EventKind::Modify(ModifyKind::Name(To | From)) with the single path that is watched
            let dir = if matches!(ev, Ev::MovedIn(_)) { "moved in" } else { "moved out" };
            if self.watched(p) {
                self.trace.push(format!("    remove_source({})   [{}] -> collect_work before the next pass", p, dir));
                cov.hit("call:remove_source");
                cov.hit("call:remove_source(rename)");
                let full = self.world.full(p);
                self.call("remove_source", |t| t.remove_source(&full))?;
                self.has_created = true;
            } else {
                cov.hit("event:not_watched");
            }
            return Ok(());
        }
        let (p, what) = match ev {
            Ev::Changed(p) => (p, "modified"),
            Ev::Removed(p) => (p, "removed"),
            Ev::Created(p) => (p, "created"),
            Ev::Renamed(_, to) => (to, "renamed"),
            Ev::MovedIn(p) | Ev::MovedOut(p) => (p, "moved"),
        };
        if !self.watched(p) {
            self.trace.push(format!("    ({} {}: not watched, no notification)", what, p));
            cov.hit("event:not_watched");
            return Ok(());
        }
        let full = self.world.full(p);
        match ev {
            Ev::Changed(_) => {
                self.trace.push(format!("    source_changed({})", p));
                cov.hit("call:source_changed");
                self.call("source_changed", |t| t.source_changed(&full))?;
            }
            Ev::Removed(_) => {
                self.trace.push(format!("    remove_source({})", p));
                cov.hit("call:remove_source");
                self.call("remove_source", |t| t.remove_source(&full))?;
            }
            Ev::Created(_) => {
                // EventKind::Create: source_changed on the path, then collect_work before the next pass
                self.trace.push(format!("    created {} -> source_changed + collect_work before the next pass", p));
                cov.hit("call:source_changed");
                cov.hit("call:source_changed(create)");
                self.call("source_changed", |t| t.source_changed(&full))?;
                self.has_created = true;
            }
            Ev::Renamed(..) | Ev::MovedIn(_) | Ev::MovedOut(_) => {}
        }
        Ok(())
    }

    /// give the worker one unit of real work so that `clean_files` runs (avoidance helper)
    fn flush(&mut self, why: &str, cov: &mut Cov) -> Step {
        let target = self.model.files.keys().find(|p| p.starts_with("src/") && model::is_lua(p) && !self.model.broken.contains(*p) && !Model::is_dep(p) && p.as_str() != model::MAIN).cloned();
        match target {
            Some(p) => {
                cov.hit(&format!("avoided:{}(flush edit + pass inserted)", why));
                self.trace.push(format!("  (avoid {}: extra edit + pass to flush the queued deletions)", why));
                if let Err(e) = self.apply_inner(&format!("edit:{}", p), cov) {
                    return Step::Stop(Verdict::discard(format!("harness: {}", e.split(':').next().unwrap_or(""))));
                }
                if let Some(v) = self.stopped.take() {
                    return Step::Stop(v);
                }
                if let Step::Stop(v) = self.process(cov) {
                    return Step::Stop(v);
                }
                if self.snap.remove_files.is_empty() {
                    Step::Continue
                } else {
                    Step::Stop(Verdict::discard(format!("known trigger avoided: {} (flush did not help)", why)))
                }
            }
            None => {
                cov.hit(&format!("avoided:{}(no source left to flush with)", why));
                Step::Stop(Verdict::discard(format!("known trigger avoided: {} (nothing left to flush with)", why)))
            }
        }
    }

    /// snapshot + invariants; `quiescent` right after a process that returned Ok
    fn observe(&mut self, quiescent: bool, cov: &mut Cov) -> Step {
        self.snap = inv::take(&self.tree, &self.world.root);
        if !self.snap.edges.is_empty() {
            cov.hit("graph_edges_observed");
        }
        let rep = inv::check(&self.snap, quiescent);
        cov.hit("invariant_checks");
        for (k, d) in rep.soft {
            if self.soft.insert(k.clone()) {
                self.trace.push(format!("    note: {}", d));
            }
            cov.hit(&format!("soft:{}", k));
        }
        for (k, d) in rep.hard {
            if k == "stale-node-id-in-external_dependencies" && self.avoid.contains(T_RMDIR) {
                cov.hit("avoided:rmdir-stale-ids");
                return Step::Stop(Verdict::discard("known trigger avoided: remove_source(directory) left stale ids"));
            }
            if !self.hard.iter().any(|(k2, _)| *k2 == k) {
                self.trace.push(format!("    INVARIANT: {}", d));
                self.hard.push((k, d));
            }
        }
        Step::Continue
    }

    fn process(&mut self, cov: &mut Cov) -> Step {
        if self.has_created {
            self.has_created = false;
            cov.hit("call:collect_work");
            let (res, opts) = (self.world.res.clone(), self.world.options(self.cfg_path));
            match self.call("collect_work", |t| t.collect_work(&res, &opts)) {
                Ok(Ok(())) => {}
                Ok(Err(e)) => {
                    self.trace.push(format!("    collect_work error: {}", short(&e.to_string())));
                    cov.hit("collect_work_error");
                }
                Err(v) => return Step::Stop(v),
            }
        }
        // the state between notification and process is observed too (hard invariants only)
        if let Step::Stop(v) = self.observe(false, cov) {
            return Step::Stop(v);
        }
        cov.hit("call:process");
        cov.hit("op:process");
        self.passes += 1;
        let (res, opts) = (self.world.res.clone(), self.world.options(self.cfg_path));
        let r = match self.call("process", |t| t.process(&res, opts)) {
            Ok(r) => r,
            Err(v) => return Step::Stop(v),
        };
        self.pending = false;
        let ok = match r {
            Ok(()) => true,
            Err(e) => {
                self.process_errors += 1;
                cov.hit("process_returned_error");
                self.trace.push(format!("  process -> Err({})", short(&e.to_string())));
                false
            }
        };
        if let Step::Stop(v) = self.observe(ok, cov) {
            return Step::Stop(v);
        }
        self.after_pass(cov);
        Step::Continue
    }

    fn after_pass(&mut self, cov: &mut Cov) {
        self.watch = self.tree.iter_external_dependencies().map(|p| inv::rel(&self.world.root, p)).collect();
        let out = self.world.out_tree();
        let mut line = String::from("  process:");
        let nodes = self.snap.nodes.clone();
        for n in &nodes {
            if n.status == "done_ok" {
                if let Some(c) = out.files.get(&n.output) {
                    self.last_good.insert(n.output.clone(), c.clone());
                }
            } else if n.status == "done_err" {
                cov.hit("node_failed_at_quiescent_point");
            }
            line.push_str(&format!(" {}={}", n.source.trim_start_matches("src/"), n.status.trim_start_matches("done_")));
        }
        if !self.snap.remove_files.is_empty() {
            line.push_str(&format!(" pending_remove={:?}", self.snap.remove_files));
        }
        self.trace.push(line);
        if self.model.cfg.bundle {
            for d in self.model.unloadable_deps() {
                self.dep_trouble.insert(d.to_string());
            }
        }
    }

    /// Ok(Ok(effective)) / Ok(Err(verdict that ends the history)) / Err(harness I/O problem)
    fn apply(&mut self, op: &str, cov: &mut Cov) -> Result<Result<bool, Verdict>, String> {
        if self.avoid.contains(T_RECREATE) {
            // would this operation create a source whose previous output is still queued for deletion?
            let mut probe = self.model.clone();
            let probe_applied = probe.apply(op, self.dir_events);
            let creates: Vec<String> = probe_applied
                .events
                .iter()
                .filter_map(|e| match e {
                    Ev::Created(p) | Ev::MovedIn(p) => Some(p.clone()),
                    Ev::Renamed(_, to) => Some(to.clone()),
                    _ => None,
                })
                .filter_map(|p| model::output_of(&p))
                .collect();
            if !creates.is_empty() {
                let pending = inv::take(&self.tree, &self.world.root).remove_files;
                if creates.iter().any(|o| pending.contains(o)) {
                    if let Step::Stop(v) = self.flush(T_RECREATE, cov) {
                        return Ok(Err(v));
                    }
                }
            }
        }
        self.apply_inner(op, cov).map(Ok)
    }

    fn apply_inner(&mut self, op: &str, cov: &mut Cov) -> Result<bool, String> {
        let before: Vec<String> = if self.dir_events && op.starts_with("rmdir:") && self.avoid.contains(T_RMDIR_DEPS) { self.model.files.keys().cloned().collect() } else { vec![] };
        let mut applied = self.model.apply(op, self.dir_events);
        if !before.is_empty() && applied.effective {
            // avoidance: the files of the directory that other items pull in are reported one by one
            let extra: Vec<Ev> = before.iter().filter(|p| !self.model.files.contains_key(*p) && Model::is_dep(p)).map(|p| Ev::Removed(p.clone())).collect();
            if !extra.is_empty() {
                cov.hit("avoided:rmdir-no-restart(dependency removal reported by file)");
                let mut evs = extra;
                evs.append(&mut applied.events);
                applied.events = evs;
            }
        }
        if !applied.effective {
            self.trace.push(format!("  {} (no effect)", op));
            cov.hit("op:noop");
            return Ok(false);
        }
        self.trace.push(format!("  {}", op));
        for l in &applied.labels {
            cov.hit(&format!("op:{}", l));
        }
        for m in &applied.mutations {
            self.world.mutate(m)?;
        }
        self.pending = true;
        for ev in &applied.events {
            if let Err(v) = self.dispatch(ev, cov) {
                self.stopped = Some(v);
                return Ok(true);
            }
        }
        Ok(true)
    }
}

impl C10 {
    fn new_world(&mut self, fs: bool) -> Result<(World, DirGuard), String> {
        if fs {
            self.dir_counter += 1;
            let nanos = std::time::SystemTime::now().duration_since(std::time::UNIX_EPOCH).map(|d| d.subsec_nanos()).unwrap_or(0);
            let dir = std::env::temp_dir().join(format!("dlverif-c10-{}-{}-{}", std::process::id(), self.dir_counter, nanos));
            let _ = std::fs::remove_dir_all(&dir);
            std::fs::create_dir_all(&dir).map_err(|e| format!("create {}: {}", dir.display(), e))?;
            // the canonical path: what the watcher would see
            let dir = dir.canonicalize().unwrap_or(dir);
            let root = dir.to_string_lossy().trim_end_matches('/').to_string();
            Ok((World { res: Resources::from_file_system(), fs: true, root }, DirGuard(Some(dir))))
        } else {
            Ok((World { res: Resources::from_memory(), fs: false, root: String::new() }, DirGuard(None)))
        }
    }

    /// the oracle: a fresh `darklua_core::process` over the final sources/configuration into an
    /// output directory pre-seeded with the same foreign files
    fn fresh(&mut self, m: &Model, fs: bool, foreign: bool, cfg_path: bool, reuse: Option<&World>) -> Result<Rc<FreshOut>, String> {
        let key = if fs {
            None
        } else {
            let mut text = format!("{}|{}|", foreign, cfg_path);
            for (p, c) in &m.files {
                text.push_str(p);
                text.push('\u{1}');
                text.push_str(c);
                text.push('\u{2}');
            }
            Some(hash64(text.as_bytes()))
        };
        if let Some(k) = key {
            if let Some(f) = self.fresh_cache.get(&k) {
                self.cache_hits += 1;
                return Ok(f.clone());
            }
        }
        let (owned, _guard);
        let world: &World = match reuse {
            Some(w) if fs => {
                // same absolute paths as the incremental run: wipe the directory and start over
                let root = PathBuf::from(&w.root);
                if let Ok(rd) = std::fs::read_dir(&root) {
                    for e in rd.flatten() {
                        let p = e.path();
                        let _ = if p.is_dir() { std::fs::remove_dir_all(&p) } else { std::fs::remove_file(&p) };
                    }
                }
                w
            }
            _ => {
                let (w, g) = self.new_world(fs)?;
                owned = w;
                _guard = g;
                &owned
            }
        };
        world.seed(&m.files, foreign)?;
        let tree = darklua_core::process(&world.res, world.options(cfg_path)).map_err(|e| format!("fresh process failed: {}", short(&e.to_string())))?;
        let snap = inv::take(&tree, &world.root);
        let out = Rc::new(FreshOut { tree: world.out_tree(), snap });
        if let Some(k) = key {
            if self.fresh_cache.len() > 4000 {
                self.fresh_cache.clear();
            }
            self.fresh_cache.insert(k, out.clone());
        }
        Ok(out)
    }

    fn run_history(&mut self, case: &Case, cov: &mut Cov) -> Verdict {
        let fs = case["backend"].as_str() == Some("fs");
        let dir_events = case["dir_events"].as_bool().unwrap_or(true);
        let foreign = case["foreign"].as_bool().unwrap_or(true);
        let cfg_path = case["cfg_path"].as_bool().unwrap_or(false);
        let ops: Vec<String> = case["ops"].as_array().map(|a| a.iter().filter_map(|v| v.as_str().map(String::from)).collect()).unwrap_or_default();
        let avoid: BTreeSet<String> = case["avoid"].as_array().map(|a| a.iter().filter_map(|v| v.as_str().map(String::from)).collect()).unwrap_or_default();

        let (world, _guard) = match self.new_world(fs) {
            Ok(w) => w,
            Err(e) => return Verdict::discard(format!("harness: {}", e.split(':').next().unwrap_or(""))),
        };
        let m0 = Model::initial();
        if let Err(e) = world.seed(&m0.files, foreign) {
            return Verdict::discard(format!("harness: seed: {}", e.split(':').next().unwrap_or("")));
        }
        cov.hit(if fs { "backend:file_system" } else { "backend:memory" });
        cov.hit(if foreign { "output_dir:pre_existing_with_foreign_files" } else { "output_dir:absent_at_first_run" });
        // first pass: exactly what the watcher does first
        let tree = match darklua_core::process(&world.res, world.options(cfg_path)) {
            Ok(t) => t,
            Err(e) => return Verdict::discard(format!("initial process failed: {}", short(&e.to_string()))),
        };
        let mut h = Hist {
            world: &world,
            cfg_path,
            dir_events,
            avoid,
            model: m0,
            tree,
            watch: BTreeSet::new(),
            has_created: false,
            pending: false,
            last_good: BTreeMap::new(),
            trace: vec!["  (initial darklua_core::process)".to_string()],
            snap: Snap::default(),
            dep_trouble: BTreeSet::new(),
            hard: vec![],
            soft: BTreeSet::new(),
            passes: 0,
            process_errors: 0,
            stopped: None,
        };
        if let Step::Stop(v) = h.observe(true, cov) {
            return v;
        }
        h.after_pass(cov);

        let mut effective: Vec<String> = vec![];
        for op in &ops {
            if op == "process" {
                if h.pending {
                    effective.push(op.clone());
                    if let Step::Stop(v) = h.process(cov) {
                        return v;
                    }
                }
                continue;
            }
            match h.apply(op, cov) {
                Ok(Ok(true)) => {
                    effective.push(op.clone());
                    if let Some(v) = h.stopped.take() {
                        return v;
                    }
                    // hard invariants are observed after every notification batch
                    if let Step::Stop(v) = h.observe(false, cov) {
                        return v;
                    }
                }
                Ok(Ok(false)) => {}
                Ok(Err(v)) => return v,
                Err(e) => return Verdict::discard(format!("harness: {}", e.split(':').next().unwrap_or(""))),
            }
        }
        if h.pending {
            if let Step::Stop(v) = h.process(cov) {
                return v;
            }
        }
        // avoidance of the "pass with only removals does not clean" defect: give the worker one
        // unit of real work so that the queued deletions are flushed
        if h.avoid.contains(T_PURE_RM) && !h.snap.remove_files.is_empty() {
            if let Step::Stop(v) = h.flush(T_PURE_RM, cov) {
                return v;
            }
        }

        // ---- oracle
        let inc_tree = world.out_tree();
        let inc_snap = h.snap.clone();
        let final_model = h.model.clone();
        let trace = std::mem::take(&mut h.trace);
        let last_good = std::mem::take(&mut h.last_good);
        let hard = std::mem::take(&mut h.hard);
        let dep_trouble = std::mem::take(&mut h.dep_trouble);
        let avoid = std::mem::take(&mut h.avoid);
        let passes = h.passes;
        drop(h);

        let hits_before = self.cache_hits;
        let fresh = match self.fresh(&final_model, fs, foreign, cfg_path, Some(&world)) {
            Ok(f) => {
                cov.hit(if self.cache_hits > hits_before { "fresh_run:reused_for_identical_final_state" } else { "fresh_run:executed" });
                f
            }
            Err(e) => return Verdict::discard(format!("oracle: {}", e.split(':').next().unwrap_or(""))),
        };

        let nontrivial = !effective.is_empty();
        let norm = format!("{}|{}|{}|{}|{}", fs, dir_events, foreign, cfg_path, effective.join(","));
        cov.eval(if nontrivial { Some(hash64(norm.as_bytes())) } else { None });
        cov.hit("histories");
        cov.add("steps", effective.len() as u64);
        cov.add("passes", passes as u64 + 1);
        cov.hit(&format!("history_length:{}", match effective.iter().filter(|o| *o != "process").count() { 0 => "0", 1 => "1", 2 => "2", 3 => "3", 4 => "4", 5..=9 => "5-9", 10..=19 => "10-19", _ => "20+" }));

        let failing: BTreeSet<String> = fresh.snap.nodes.iter().filter(|n| n.status == "done_err").map(|n| n.output.clone()).collect();
        if !failing.is_empty() {
            cov.hit("final_state_has_failing_source");
        }
        let mut mismatches: Vec<Mismatch> = vec![];
        let mut excused: Vec<String> = vec![];
        let paths: BTreeSet<&String> = inc_tree.files.keys().chain(fresh.tree.files.keys()).collect();
        for p in paths {
            let i = inc_tree.files.get(p);
            let f = fresh.tree.files.get(p);
            if i == f {
                continue;
            }
            if failing.contains(p) {
                // lenient: absent, or the output of the last successful pass
                match i {
                    None => {
                        cov.hit("lenient:failing_source_output_absent");
                        continue;
                    }
                    Some(c) if last_good.get(p) == Some(c) => {
                        cov.hit("lenient:failing_source_keeps_last_good_output");
                        continue;
                    }
                    _ => {}
                }
            }
            let kind = match (i, f) {
                (Some(_), None) => "stale-output",
                (None, Some(_)) => "missing-output",
                _ => "content-differs",
            };
            let role = model::role_of_output(p);
            let mm = Mismatch {
                path: p.clone(),
                kind,
                role,
                inc_status: if kind == "stale-output" && inc_snap.remove_files.contains(p) { format!("{}(deletion-queued)", inc_snap.status_of_output(p)) } else { inc_snap.status_of_output(p) },
                fresh_status: fresh.snap.status_of_output(p),
                text: format!(
                    "{}: incremental = {} ; fresh = {}",
                    p,
                    i.map(|c| format!("`{}`", short(c))).unwrap_or_else(|| "<absent>".into()),
                    f.map(|c| format!("`{}`", short(c))).unwrap_or_else(|| "<absent>".into())
                ),
            };
            // known defect: a require that failed is not a recorded dependency
            if avoid.contains(T_DEPFIX) && mm.inc_status == "done_err" && mm.fresh_status == "done_ok" && (role == "entry" || role == "module") {
                // the recorded failure comes from the bundler (not from the source itself) and one of
                // the files this item pulls in could not be loaded at an earlier quiescent point
                let err = inc_snap.node_by_output(p).and_then(|n| n.error.clone()).unwrap_or_default();
                let src = inc_snap.node_by_output(p).map(|n| n.source.clone()).unwrap_or_default();
                let own_deps: &[&str] = if role == "entry" { &model::DEPS } else { &[model::UTIL, model::LEAF] };
                // ... and that very file was repaired later (the trigger of the listed finding); an error that went away
                // because another module stopped requiring the file is not excused
                let dep_was_in_trouble = dep_trouble.iter().any(|d| d != &src && own_deps.contains(&d.as_str()) && final_model.repaired_directly.contains(d));
                if err.contains("(bundler)") && dep_was_in_trouble {
                    excused.push(format!("{} (recorded error: {})", p, short(&err)));
                    continue;
                }
            }
            mismatches.push(mm);
        }
        // directories (real file system only): nothing empty may be left behind, nothing foreign lost
        let mut dir_problems: Vec<(String, String)> = vec![];
        if fs {
            let needed = ancestors_of(&inc_tree.files);
            for d in &inc_tree.dirs {
                if !fresh.tree.dirs.contains(d) && !needed.contains(d) {
                    if !foreign && avoid.contains(T_NOPRUNE) {
                        cov.hit("avoided:no-prune-without-output-dir(empty directory not judged)");
                        continue;
                    }
                    dir_problems.push(("empty-directory-left".into(), format!("{}/ exists (empty) after the incremental run, a fresh run has no such directory", d)));
                }
            }
            let needed_fresh = ancestors_of(&fresh.tree.files);
            for d in &fresh.tree.dirs {
                if !inc_tree.dirs.contains(d) && !needed_fresh.contains(d) {
                    dir_problems.push(("foreign-directory-removed".into(), format!("{}/ (pre-existing, empty) is kept by a fresh run but missing after the incremental run", d)));
                }
            }
        }

        let describe = |head: &str| -> String {
            let mut d = String::new();
            d.push_str(head);
            d.push_str(&format!("\nhistory ({} back end, directory removal reported {}, output dir {}):\n", if fs { "file-system" } else { "memory" }, if dir_events { "as one event" } else { "file by file" }, if foreign { "pre-seeded with foreign files" } else { "absent at first run" }));
            d.push_str(&trace.join("\n"));
            d.push_str("\nfinal incremental state: ");
            for n in &inc_snap.nodes {
                d.push_str(&format!("{}={}{} ", n.source, n.status, n.error.as_ref().map(|e| format!("[{}]", short(e))).unwrap_or_default()));
            }
            d.push_str("\nfresh run state: ");
            for n in &fresh.snap.nodes {
                d.push_str(&format!("{}={}{} ", n.source, n.status, n.error.as_ref().map(|e| format!("[{}]", short(e))).unwrap_or_default()));
            }
            d
        };

        if !mismatches.is_empty() {
            let first = &mismatches[0];
            let mut head = format!("output tree after the history differs from a fresh run over the final sources/configuration ({} path(s)):", mismatches.len());
            for m in mismatches.iter().take(6) {
                head.push_str(&format!("\n  [{} {} inc={} fresh={}] {}", m.kind, m.role, m.inc_status, m.fresh_status, m.text));
            }
            return Verdict::Violated { signature: first.signature(), detail: describe(&head), narrowed: None };
        }
        if let Some((k, d)) = hard.first() {
            return Verdict::Violated { signature: format!("invariant:{}", k), detail: describe(&format!("internal state is inconsistent: {}", d)), narrowed: None };
        }
        if let Some((k, d)) = dir_problems.first() {
            return Verdict::Violated { signature: format!("tree:{}", k), detail: describe(d), narrowed: None };
        }
        if !excused.is_empty() {
            cov.hit("avoided:dep-repair");
            return Verdict::discard("known trigger avoided: stale failure after a broken/missing dependency was repaired");
        }
        if cov.want_sample() && effective.len() >= 3 {
            cov.sample(json!({ "ops": effective, "backend": if fs { "fs" } else { "mem" }, "output_files": inc_tree.files.len(), "failing_in_fresh": failing.len() }));
        }
        Verdict::Held
    }
}

impl Monitor for C10 {
    fn id(&self) -> &'static str {
        "C10"
    }

    fn rule_text(&self) -> String {
        format!(
            "A case is one history over a small project (5 Lua sources in nested directories under src/, among them a bundle entry src/app/main.lua whose module DAG is src/mods/m1.lua -> lib/util.lua -> lib/leaf.lua plus the data file src/app/data.json; lib/ lies outside the input directory; the configuration is the file .darklua.json inside the resources and is re-read on every pass).  \
             Operations: edit, edit-to-syntax-error, repair, add file, remove file, remove directory (reported as one event or file by file), re-add, edit/break/remove/re-add a dependency, change rules, change a rule filter, change generator, switch bundling, touch/reformat the configuration without change, process.  \
             The deterministic prefix enumerates EVERY sequence over an alphabet of {} concrete operations up to length 3 (quick) / 4 (thorough), each under two schedules (a pass after every operation; one pass at the end), on the in-memory back end, plus every sequence up to length 2 on a real temporary directory (output directory pre-seeded with foreign files; without a pre-existing output directory: length 1 and the length-2 sequences that remove a directory); the sequences that remove a directory run a second time with the removal reported as a single event; random histories of 5-30 operations with random pass points follow.  \
             The protocol is the one of FileWatcher::process_events: darklua_core::process, then source_changed / remove_source / collect_work, then WorkerTree::process with fresh Options; notifications are sent only for watched paths (input directory, configuration file, iter_external_dependencies() of the previous pass).  \
             Oracle: the files (and on the real file system the directories) under out/ must equal those of a fresh darklua_core::process over the final sources and configuration into an output directory pre-seeded with the same foreign files; for a source that fails in the fresh run, 'absent' and 'output of its last successful pass' are both accepted.  Hook H1 invariants (node_map <-> graph bijective, no id of a removed node inside external_dependencies, no edge to a missing node) are checked after every notification batch and every pass.  \
             LIVE WATCHER: a further family of histories is played against a real `darklua process --watch src out` child process (inotify, notify-debouncer-full, FileWatcher::process_events) by changing the files of a scratch directory: every operation of the alphabet alone (quick and thorough), every ordered pair (thorough; alternately as one burst and with a convergence point in between) and random histories of 2-7 operations in 1-4 bursts at paces of 0-450 ms between file-system changes; after every burst the output directory, polled from outside, must converge (equal at two polls 0.7 s apart, within 8 s; a failing history is played a second time at half speed before it is reported) to the tree a plain `darklua process` of the same binary writes for the current sources, the child must stay alive, and once the output is stable the watcher must not keep running passes (at most 2 pass reports in 2.5 idle seconds).               A history is non-trivial when at least one operation had an effect; distinct = distinct (back end, event style, effective operation sequence with pass points).  Avoided known triggers: {:?}.",
            self.alphabet.len(),
            self.avoid
        )
    }

    fn assumptions(&self) -> Vec<String> {
        vec![
            "the event protocol of FileWatcher::process_events is reproduced at the API level for the exhaustive part; the debouncer / inotify glue is exercised by the live-watcher histories only (seconds per history, hence far fewer of them)".into(),
            "live watcher: convergence is decided by polling; a divergence must be observed twice (second play at half speed) to be reported, a history that diverges once and converges on the slower play is discarded as timing".into(),
            "a created file yields only a 'created' event (notify-debouncer-full drops modifications that follow a creation in the same batch)".into(),
            "the fresh darklua_core::process run is the reference; its own correctness is the subject of other properties".into(),
            "foreign files never collide with an output path".into(),
            "in-memory Resources have no directories: directory pruning is judged on the temporary-directory back end only".into(),
        ]
    }

    fn plan(&self, tier: Tier) -> Plan {
        let mut me = C10::default();
        let det = me.deterministic_count(tier);
        Plan { deterministic: det, max_cases: u64::MAX, budget_s: if tier == Tier::Quick { 45.0 } else { 900.0 } }
    }

    fn gen(&mut self, tier: Tier, seed: u64, index: u64) -> Option<Case> {
        let w = WITNESSES.len() as u64;
        if index < w {
            let wi = &WITNESSES[index as usize];
            let mut c = make_case(wi.backend, wi.dir_events, wi.foreign, false, wi.ops.iter().map(|s| s.to_string()).collect(), &[]);
            c["witness"] = json!(wi.name);
            return Some(c);
        }
        let mut rest = index - w;
        let wc = self.watch_count(tier);
        if rest < wc {
            return Some(self.watch_case(rest));
        }
        rest -= wc;
        let blocks = self.block_list(tier);
        for b in blocks.iter() {
            if rest < b.count {
                let s = if b.rmdir_only { self.rmdir_sequences(b.len)[rest as usize] as u64 } else { rest };
                let ops = with_schedule(self.decode(s, b.len), b.each);
                return Some(make_case(if b.fs { "fs" } else { "mem" }, b.dir_events, b.foreign, false, ops, &self.avoid));
            }
            rest -= b.count;
        }
        // random histories
        let mut r = case_rng("C10", seed, index);
        if r.chance(1, if tier == Tier::Quick { 1500 } else { 600 }) {
            // against the live watcher: 2-7 operations in 1-4 bursts
            let len = r.range(2, 7) as usize;
            let mut ops = vec![];
            let avoid_fold = self.avoid.iter().any(|x| x == T_WATCH_FOLD);
            for _ in 0..len {
                ops.push(r.pick(&self.random_ops[..]).clone());
                if r.chance(4, 10) || (avoid_fold && ops.last().map(|o| o.starts_with("save:")).unwrap_or(false)) {
                    ops.push("process".to_string());
                }
            }
            return Some(json!({ "backend": "watch", "ops": ops, "pace_ms": *r.pick(&[0u64, 0, 5, 30, 120, 450]) }));
        }
        let len = r.range(5, 30) as usize;
        let pass_chance = *r.pick(&[1u32, 3, 5, 8]);
        let mut ops = vec![];
        for _ in 0..len {
            ops.push(r.pick(&self.random_ops[..]).clone());
            if r.chance(pass_chance, 10) {
                ops.push("process".to_string());
            }
        }
        let fs = r.chance(1, 12);
        let dir_events = r.chance(2, 3);
        let foreign = r.chance(5, 6);
        let cfg_path = r.chance(1, 3);
        Some(make_case(if fs { "fs" } else { "mem" }, dir_events, foreign, cfg_path, ops, &self.avoid))
    }

    fn run(&mut self, case: &Case, cov: &mut Cov) -> Verdict {
        if case["backend"] == "watch" {
            return self.watch.run(case, cov);
        }
        self.run_history(case, cov)
    }

    fn shrink(&mut self, case: &Case) -> Vec<Case> {
        let ops: Vec<Value> = case["ops"].as_array().cloned().unwrap_or_default();
        let mut out = vec![];
        let with_ops = |ops: Vec<Value>| {
            let mut c = case.clone();
            c["ops"] = Value::Array(ops);
            c
        };
        // drop halves, then single operations, then pass points
        if ops.len() > 3 {
            out.push(with_ops(ops[ops.len() / 2..].to_vec()));
            out.push(with_ops(ops[..ops.len() / 2].to_vec()));
        }
        for i in 0..ops.len() {
            let mut v = ops.clone();
            v.remove(i);
            out.push(with_ops(v));
        }
        if case["backend"] == "fs" {
            let mut c = case.clone();
            c["backend"] = json!("mem");
            out.push(c);
        }
        if case["cfg_path"] == true {
            let mut c = case.clone();
            c["cfg_path"] = json!(false);
            out.push(c);
        }
        if case["foreign"] == false {
            let mut c = case.clone();
            c["foreign"] = json!(true);
            out.push(c);
        }
        out
    }

    fn classify(&mut self, case: &Case, signature: &str) -> String {
        // after shrinking: the classes of operation of the minimal history name the cause.
        // Panics, hangs and invariant failures are classified by their location alone.
        if !signature.starts_with("tree:") && !signature.starts_with("watch:tree:") {
            return signature.to_string();
        }
        let mut kinds: BTreeSet<String> = BTreeSet::new();
        if let Some(a) = case["ops"].as_array() {
            for o in a {
                if let Some(s) = o.as_str() {
                    let k = model::op_kind(s);
                    let target = s.split_once(':').map(|(_, t)| t).unwrap_or("");
                    let dep = if model::DEPS.iter().any(|d| target.contains(d)) { "-dep" } else { "" };
                    let class = match k {
                        "process" => continue,
                        "edit" | "break" | "cut" => format!("write{}", dep),
                        "save" => "rename-over".to_string(),
                        "mvin" => "move-in".to_string(),
                        "rm" | "rmdir" | "mv" | "mvout" => format!("remove{}", dep),
                        "add" | "restore" => "create".to_string(),
                        "touch" | "reformat" => "config-touch".to_string(),
                        other => format!("config-{}", other),
                    };
                    kinds.insert(class);
                }
            }
        }
        format!("{}|ops={}", signature, kinds.into_iter().collect::<Vec<_>>().join("+"))
    }

    fn floors(&self, tier: Tier) -> Vec<(String, u64)> {
        let mut v: Vec<(String, u64)> = vec![("histories".into(), if tier == Tier::Quick { 4000 } else { 50000 }), ("distinct_nontrivial".into(), if tier == Tier::Quick { 3000 } else { 40000 })];
        for k in [
            "op:edit", "op:edit_to_syntax_error", "op:repair", "op:add_file", "op:remove_file", "op:remove_directory", "op:re_add", "op:edit_dependency", "op:remove_dependency", "op:change_rules", "op:change_rule_filter",
            "op:change_generator", "op:touch_config", "op:process", "backend:file_system", "backend:memory", "call:source_changed", "call:remove_source", "call:collect_work",
        ] {
            v.push((k.to_string(), 100));
        }
        v.push(("watch_histories".into(), if tier == Tier::Quick { 25 } else { 400 }));
        v
    }

    fn case_cpu_limit_s(&self) -> f64 {
        10.0
    }

    fn exhaustive_note(&self, tier: Tier) -> Option<String> {
        Some(format!(
            "all {}^L operation sequences for L = 1..{} under both schedules (memory back end, directory removal reported file by file), the subset containing a directory removal again with one event per directory, and all sequences for L <= 2 on a temporary directory with a pre-seeded output directory (without one: L = 1 and the L = 2 sequences containing a directory removal)",
            self.alphabet.len(),
            max_len(tier)
        ))
    }
}
