//! C07 — each Luau-lowering rule removes every occurrence of its construct (census by the
//! independent parser).

use crate::corpus;
use crate::dl;
use crate::framework::*;
use crate::gen::shrink::shrink_source;
use crate::reflua::ast::*;
use crate::reflua::parser::{parse_block, Mode};
use crate::rng::{hash64, Rng};
use serde_json::json;
use std::collections::BTreeMap;

#[derive(Default)]
pub struct C07 {
    corpus: Vec<corpus::CorpusItem>,
    loaded: bool,
}

/// (rule configuration, construct key)
pub const RULES: [(&str, &str); 9] = [
    ("'remove_types'", "types"),
    ("'remove_compound_assignment'", "compound_assignment"),
    ("'remove_continue'", "continue"),
    ("'remove_if_expression'", "if_expression"),
    ("'remove_interpolated_string'", "interpolated_string"),
    ("'remove_floor_division'", "floor_division"),
    ("'convert_luau_number'", "luau_number"),
    ("'make_assignment_local'", "const"),
    ("'remove_attribute'", "attribute"),
];

#[derive(Default, Debug, Clone)]
pub struct Census {
    pub counts: BTreeMap<&'static str, u32>,
}

impl Census {
    fn add(&mut self, k: &'static str) {
        *self.counts.entry(k).or_insert(0) += 1;
    }
    pub fn get(&self, k: &str) -> u32 {
        self.counts.get(k).copied().unwrap_or(0)
    }
}

fn is_luau_number(raw: &str) -> bool {
    let l = raw.to_ascii_lowercase();
    l.contains('_') || l.starts_with("0b")
}

pub fn census_block(b: &Block, c: &mut Census) {
    for s in &b.stmts {
        census_stmt(s, c);
    }
}

fn census_ty(t: &Ty, c: &mut Census) {
    for k in &t.kids {
        census_ty(k, c);
    }
    for e in &t.exprs {
        census_expr(e, c);
    }
}

fn census_binding(b: &Binding, c: &mut Census) {
    if let Some(t) = &b.ty {
        c.add("types");
        census_ty(t, c);
    }
}

fn census_func(f: &FuncBody, c: &mut Census) {
    for _ in &f.attributes {
        c.add("attribute");
    }
    if let Some(g) = &f.generics {
        c.add("types");
        census_ty(g, c);
    }
    for p in &f.params {
        census_binding(p, c);
    }
    if let Some(t) = &f.vararg_ty {
        c.add("types");
        census_ty(t, c);
    }
    if let Some(t) = &f.ret_ty {
        c.add("types");
        census_ty(t, c);
    }
    census_block(&f.body, c);
}

fn census_stmt(s: &Stmt, c: &mut Census) {
    match s {
        Stmt::Local { names, values, is_const } => {
            if *is_const {
                c.add("const");
            }
            for n in names {
                census_binding(n, c);
            }
            for v in values {
                census_expr(v, c);
            }
        }
        Stmt::Assign { targets, values } => {
            for e in targets.iter().chain(values.iter()) {
                census_expr(e, c);
            }
        }
        Stmt::CompoundAssign { target, op, value } => {
            c.add("compound_assignment");
            if *op == BinOp::IDiv {
                c.add("floor_division");
            }
            census_expr(target, c);
            census_expr(value, c);
        }
        Stmt::Call(e) => census_expr(e, c),
        Stmt::Do(b) => census_block(b, c),
        Stmt::While { cond, body } => {
            census_expr(cond, c);
            census_block(body, c);
        }
        Stmt::Repeat { body, cond } => {
            census_block(body, c);
            census_expr(cond, c);
        }
        Stmt::If { clauses, else_block } => {
            for (e, b) in clauses {
                census_expr(e, c);
                census_block(b, c);
            }
            if let Some(b) = else_block {
                census_block(b, c);
            }
        }
        Stmt::NumFor { var, start, limit, step, body } => {
            census_binding(var, c);
            census_expr(start, c);
            census_expr(limit, c);
            if let Some(s) = step {
                census_expr(s, c);
            }
            census_block(body, c);
        }
        Stmt::GenFor { vars, exprs, body } => {
            for v in vars {
                census_binding(v, c);
            }
            for e in exprs {
                census_expr(e, c);
            }
            census_block(body, c);
        }
        Stmt::Function { func, .. } | Stmt::LocalFunction { func, .. } => census_func(func, c),
        Stmt::Return(es) => {
            for e in es {
                census_expr(e, c);
            }
        }
        Stmt::Break => {}
        Stmt::Continue => c.add("continue"),
        Stmt::TypeDecl { generics, ty, .. } => {
            c.add("types");
            if let Some(g) = generics {
                census_ty(g, c);
            }
            census_ty(ty, c);
        }
        Stmt::TypeFunction { func, .. } => {
            c.add("types");
            census_func(func, c);
        }
    }
}

fn census_expr(e: &Expr, c: &mut Census) {
    match e {
        Expr::Number(_, raw) => {
            if is_luau_number(raw) {
                c.add("luau_number");
            }
        }
        Expr::Function(f) => census_func(f, c),
        Expr::Index(a, b) => {
            census_expr(a, c);
            census_expr(b, c);
        }
        Expr::Field(a, _) | Expr::Unary(_, a) | Expr::Paren(a) => census_expr(a, c),
        Expr::Call { func, args, .. } => {
            census_expr(func, c);
            for a in args {
                census_expr(a, c);
            }
        }
        Expr::MethodCall { obj, args, targs, .. } => {
            census_expr(obj, c);
            if let Some(t) = targs {
                c.add("types");
                census_ty(t, c);
            }
            for a in args {
                census_expr(a, c);
            }
        }
        Expr::Binary(op, a, b) => {
            if *op == BinOp::IDiv {
                c.add("floor_division");
            }
            census_expr(a, c);
            census_expr(b, c);
        }
        Expr::Table(items) => {
            for it in items {
                match it {
                    TableItem::Pos(v) | TableItem::Named(_, v) => census_expr(v, c),
                    TableItem::Keyed(k, v) => {
                        census_expr(k, c);
                        census_expr(v, c);
                    }
                }
            }
        }
        Expr::IfExpr { clauses, else_ } => {
            c.add("if_expression");
            for (a, b) in clauses {
                census_expr(a, c);
                census_expr(b, c);
            }
            census_expr(else_, c);
        }
        Expr::Interp(parts) => {
            c.add("interpolated_string");
            for p in parts {
                if let InterpPart::Expr(x) = p {
                    census_expr(x, c);
                }
            }
        }
        Expr::Cast(a, t) => {
            c.add("types");
            census_expr(a, c);
            census_ty(t, c);
        }
        Expr::TypeInstantiation(a, t) => {
            c.add("types");
            census_expr(a, c);
            census_ty(t, c);
        }
        _ => {}
    }
}

pub fn census_of(src: &str) -> Option<Census> {
    let b = parse_block(src, Mode::Luau).ok()?;
    let mut c = Census::default();
    census_block(&b, &mut c);
    Some(c)
}

// ------------------------------------------------------------------ deterministic position table

/// expression-level constructs
const EXPR_CONSTRUCTS: [(&str, &str); 7] = [
    ("if_expression", "if c then a else b"),
    ("interpolated_string", "`v={a}`"),
    ("floor_division", "a // 2"),
    ("luau_number", "1_000"),
    ("luau_number", "0b101"),
    ("types", "(a :: any)"),
    ("types", "f<<number>>(a)"),
];

/// expression positions (H = hole)
const EXPR_POSITIONS: [(&str, &str); 33] = [
    ("local-init", "local x = H"),
    ("return", "return H"),
    ("call-argument", "f(H)"),
    ("call-last-argument", "f(1, H)"),
    ("method-argument", "obj:m(H)"),
    ("index-key", "t[H] = 1"),
    ("assign-value", "t.x = H"),
    ("table-positional", "x = {H}"),
    ("table-key", "x = {[H] = 1}"),
    ("table-named", "x = {k = H}"),
    ("table-bracket-value", "x = {[1] = H}"),
    ("table-bracket-value-after-others", "x = {1, k = 2, ['a b'] = H, 3}"),
    ("return-list-middle", "return 1, H, 2"),
    ("table-call-sugar", "x = f{H}"),
    ("if-condition", "if H then end"),
    ("elseif-condition", "if c then elseif H then end"),
    ("while-condition", "while H do break end"),
    ("repeat-condition", "repeat until H"),
    ("numeric-for-bounds", "for i = H, H, H do end"),
    ("generic-for-header", "for k in H do end"),
    ("function-body", "local function g() return H end"),
    ("function-expression", "x = function() return H end"),
    ("parenthesised", "x = (H)"),
    ("unary-operand", "x = -H"),
    ("binary-operand", "x = H + 1"),
    ("interpolation-hole", "x = `a{H}b`"),
    ("if-expression-branch", "x = if c then H else 0"),
    ("if-expression-condition", "x = if H then 1 else 0"),
    ("typeof-annotation", "local y: typeof(H) = 1"),
    ("cast-operand", "x = H :: any"),
    ("compound-value", "x += H"),
    ("nested-function-in-loop", "for i = 1, 2 do local g = function() return H end end"),
    ("prefix-of-call", "x = (H)(1)"),
];

/// statement-level constructs
const STMT_CONSTRUCTS: [(&str, &str); 9] = [
    ("compound_assignment", "x += 1"),
    ("compound_assignment", "t[k()] ..= 'a'"),
    ("floor_division", "x //= 2"),
    ("const", "const K = 1"),
    ("types", "local v: number = 1"),
    ("types", "type T = {a: number}"),
    ("types", "local function tf<T>(a: T, ...: any): T return a end"),
    ("attribute", "@native local function nf() end"),
    ("continue", "for i = 1, 3 do if i == 2 then continue end f(i) end"),
];

const STMT_POSITIONS: [(&str, &str); 20] = [
    ("top-level", "S"),
    ("do-block", "do S end"),
    ("function-body", "local function g() S end"),
    ("function-expression-body", "x = function() S end"),
    ("if-branch", "if c then S end"),
    ("else-branch", "if c then else S end"),
    ("while-body", "while c do S break end"),
    ("repeat-body", "repeat S until c"),
    ("numeric-for-body", "for j = 1, 2 do S end"),
    ("generic-for-body", "for k, v in pairs(t) do S end"),
    ("nested-function-in-loop", "for j = 1, 2 do local g = function() S end end"),
    ("after-other-statements", "f() S f()"),
    ("function-in-table-bracket-value", "x = {[1] = function() S end}"),
    ("function-in-table-named-value", "x = {k = function() S end}"),
    ("function-in-table-positional", "x = {function() S end}"),
    ("function-in-call-argument", "f(1, function() S end)"),
    ("function-in-generic-for-header", "for k in (function() S end) do end"),
    ("function-in-numeric-for-bound", "for i = 1, g(function() S end) do end"),
    ("function-in-if-condition", "if g(function() S end) then end"),
    ("function-in-return", "return function() S end"),
];

/// continue in every loop kind / nesting
const CONTINUE_CASES: [&str; 8] = [
    "while c do if a then continue end f() end",
    "repeat if a then continue end f() until c",
    "for i = 1, 3 do for j = 1, 3 do if j == 2 then continue end f(i, j) end if i == 2 then continue end end",
    "for k, v in pairs(t) do if v then continue end f(k) end",
    "for i = 1, 3 do if a then break end if b then continue end f() end",
    "for i = 1, 3 do local g = function() for j = 1, 2 do continue end end g() continue end",
    "while c do do continue end end",
    "for i = 1, 2 do if a then if b then continue end end end",
];

/// constructs nested in themselves
const SELF_NESTED: [(&str, &str); 8] = [
    ("if_expression", "x = if (if a then b else c) then (if d then 1 else 2) else (if e then 3 else 4)"),
    ("interpolated_string", "x = `a{ `b{ `c{d}` }` }`"),
    ("floor_division", "x = (a // b) // (c // d)"),
    ("compound_assignment", "t[(function() x += 1 return x end)()] += 1"),
    ("types", "local v: {a: {b: (number) -> (string, ...any)}} = f() :: typeof(g() :: any)"),
    ("types", "type T<U = number> = typeof((x :: any)) | {read k: U?}"),
    ("luau_number", "x = {0b1, {1_0, f(0x_F)}}"),
    ("continue", "for i = 1, 2 do for j = 1, 2 do for k = 1, 2 do continue end continue end continue end"),
];

fn deterministic_cases() -> Vec<(String, String, String)> {
    // (construct, position, source)
    let mut v = vec![];
    for (key, c) in EXPR_CONSTRUCTS {
        for (pname, p) in EXPR_POSITIONS {
            v.push((key.to_string(), pname.to_string(), p.replace('H', c)));
        }
    }
    for (key, c) in STMT_CONSTRUCTS {
        for (pname, p) in STMT_POSITIONS {
            v.push((key.to_string(), pname.to_string(), p.replace('S', c)));
        }
    }
    for c in CONTINUE_CASES {
        v.push(("continue".into(), "loop-kinds".into(), c.to_string()));
    }
    for (key, c) in SELF_NESTED {
        v.push((key.to_string(), "nested-in-itself".into(), c.to_string()));
    }
    v
}

impl C07 {
    fn load(&mut self) {
        if !self.loaded {
            self.loaded = true;
            for it in corpus::load() {
                if it.text.len() < 8000 && matches!(guarded(|| dl::parse(&it.text).is_ok()), Ok(true)) {
                    if let Some(c) = census_of(&it.text) {
                        if c.counts.values().sum::<u32>() > 0 {
                            self.corpus.push(it);
                        }
                    }
                }
            }
        }
    }
}

impl Monitor for C07 {
    fn id(&self) -> &'static str {
        "C07"
    }
    fn rule_text(&self) -> String {
        format!("deterministic position table: {} sources = every Luau construct (if-expression, interpolated string, floor division, Luau number spellings, casts / type instantiation, compound assignment incl. //= and effectful targets, const, typed locals, type declarations, generic typed functions, attributes, continue) in every syntactic position of a table written from the grammar ({} expression positions, {} statement positions, continue in every loop kind, each construct nested in itself); plus every corpus file that uses a construct and generated Luau programs (with types). Each source is processed by each lowering rule alone (census of that rule's construct in the output must be 0, counted on the independent parser's tree) and by all nine in a random order (output must be accepted by the strict Lua 5.1 grammar). Non-trivial = the input census of the rule's construct is > 0; distinct = hash(source, rule).", deterministic_cases().len(), EXPR_POSITIONS.len(), STMT_POSITIONS.len())
    }
    fn assumptions(&self) -> Vec<String> {
        vec!["the census is taken on reflua's parse of the output; an output reflua cannot parse is reported as such".into(), "remove_interpolated_string may leave `%*` format strings (Luau library feature, not syntax)".into()]
    }
    fn plan(&self, tier: Tier) -> Plan {
        let mut me = C07::default();
        me.load();
        Plan { deterministic: (deterministic_cases().len() + me.corpus.len()) as u64, max_cases: u64::MAX, budget_s: if tier == Tier::Quick { 35.0 } else { 600.0 } }
    }
    fn floors(&self, _tier: Tier) -> Vec<(String, u64)> {
        vec![("held".into(), 300), ("distinct_prefix:removed:".into(), 8)]
    }
    fn gen(&mut self, _tier: Tier, seed: u64, index: u64) -> Option<Case> {
        self.load();
        let det = deterministic_cases();
        let i = index as usize;
        if i < det.len() {
            let (k, p, s) = &det[i];
            return Some(json!({"origin": format!("table:{}@{}", k, p), "construct": k, "position": p, "src": s, "order_seed": index}));
        }
        let i = i - det.len();
        if i < self.corpus.len() {
            return Some(json!({"origin": format!("corpus:{}", self.corpus[i].name), "src": self.corpus[i].text, "order_seed": index}));
        }
        let mut r = case_rng("C07", seed, index);
        let mut f = crate::gen::prog::Feat::default();
        f.luau = true;
        f.types = true;
        f.idioms_default = false;
        f.max_stmts = 10 + r.below(40);
        let (block, _) = crate::gen::prog::generate(&mut r, f);
        let src = crate::reflua::print::print_block(&block);
        Some(json!({"origin": "gen", "src": src, "order_seed": r.next_u64()}))
    }

    fn run(&mut self, case: &Case, cov: &mut Cov) -> Verdict {
        let src = case["src"].as_str().unwrap_or("");
        if dl::parse(src).is_err() {
            cov.hit("skipped:darklua_rejects_input");
            return Verdict::discard("darklua's parser rejects the input");
        }
        let Some(before) = census_of(src) else {
            return Verdict::discard("reference parser rejects the input");
        };
        // `continue` outside a loop is not a program (darklua's parser is lenient about it)
        if before.get("continue") > 0 {
            if let Ok(b) = parse_block(src, Mode::Luau) {
                if continue_outside_loop(&b, false) {
                    return Verdict::discard("`continue` outside of a loop");
                }
            }
        }
        let only: Option<&str> = case["only_rule"].as_str();
        // each rule alone
        for (rule, key) in RULES {
            if let Some(o) = only {
                if o != rule {
                    continue;
                }
            }
            let n_before = before.get(key);
            let out = match dl::process_one(src, &format!("{{ rules: [{}] }}", rule)) {
                Ok(o) => o,
                Err(e) => return Verdict::Violated { signature: format!("process-error:{}", key), detail: format!("rule {} fails on a parsable input: {}\n--- input\n{}", rule, e.lines().next().unwrap_or(""), src), narrowed: Some(narrow(case, rule)) },
            };
            let Some(after) = census_of(&out) else {
                return Verdict::Violated { signature: format!("unparsable-output:{}", key), detail: format!("after {} the reference parser rejects the output\n--- input\n{}\n--- output\n{}", rule, src, out), narrowed: Some(narrow(case, rule)) };
            };
            let n_after = after.get(key);
            cov.eval(if n_before > 0 { Some(hash64(format!("{}|{}", src, rule).as_bytes())) } else { None });
            if n_after > 0 {
                let pos = case["position"].as_str().unwrap_or("program");
                return Verdict::Violated {
                    signature: format!("left-over:{}", key),
                    detail: format!("after {} the output still contains {} occurrence(s) of `{}` ({} before) [position: {}]\n--- input\n{}\n--- output\n{}", rule, n_after, key, n_before, pos, src, out),
                    narrowed: Some(narrow(case, rule)),
                };
            }
            if n_before > 0 {
                cov.add(&format!("removed:{}", key), n_before as u64);
                if let Some(p) = case["position"].as_str() {
                    cov.hit(&format!("position:{}@{}", key, p));
                }
            }
        }
        // all together, in an order drawn from the case
        // the Lua 5.1 claim is about programs using *only* the nine constructs: Luau string escapes have no lowering rule
        let other_extension = crate::reflua::lexer::lex(src, true).map(|lx| lx.tokens.iter().any(|t| t.kind == crate::reflua::lexer::Tk::Str && { let x = lx.text(t); !x.starts_with('[') && (x.contains("\\x") || x.contains("\\z") || x.contains("\\u")) })).unwrap_or(false);
        if other_extension {
            cov.hit("all_rules:skipped_(input_uses_luau_string_escapes)");
        }
        if only.is_none() && !other_extension {
            let mut r = Rng::new(case["order_seed"].as_u64().unwrap_or(1));
            let mut rules: Vec<String> = RULES.iter().map(|x| x.0.to_string()).collect();
            r.shuffle(&mut rules);
            let out = match dl::process_one(src, &format!("{{ rules: [{}] }}", rules.join(", "))) {
                Ok(o) => o,
                Err(e) => return Verdict::violated("process-error:all", format!("all lowering rules in order {:?} fail: {}\n--- input\n{}", rules, e.lines().next().unwrap_or(""), src)),
            };
            match parse_block(&out, Mode::Strict51) {
                Ok(_) => cov.hit("all_rules:accepted_by_lua51_grammar"),
                Err(e) => {
                    // name the left-over construct when the Luau parser can see it
                    let left = census_of(&out).map(|c| c.counts.iter().filter(|(_, v)| **v > 0).map(|(k, _)| k.to_string()).collect::<Vec<_>>().join("+")).unwrap_or_else(|| "unparsable".into());
                    return Verdict::violated(format!("not-lua51:{}", if left.is_empty() { "other".to_string() } else { left }), format!("after all lowering rules (order {:?}) the output is not Lua 5.1: {}\n--- input\n{}\n--- output\n{}", rules, e, src, out));
                }
            }
        }
        if cov.want_sample() && src.len() < 200 {
            cov.sample(json!({"source": src, "census_before": format!("{:?}", before.counts)}));
        }
        Verdict::Held
    }

    fn shrink(&mut self, case: &Case) -> Vec<Case> {
        let src = case["src"].as_str().unwrap_or("");
        shrink_source(src, 300)
            .into_iter()
            .map(|s| {
                let mut c = case.clone();
                c["src"] = json!(s);
                c
            })
            .collect()
    }

    fn classify(&mut self, case: &Case, signature: &str) -> String {
        // name the syntactic context of the left-over construct in the shrunk input: outermost statement kind
        let src = case["src"].as_str().unwrap_or("");
        let ctx = match parse_block(src, Mode::Luau) {
            Ok(b) => b
                .stmts
                .first()
                .map(|s| match s {
                    Stmt::Local { .. } => "local",
                    Stmt::Assign { .. } => "assign",
                    Stmt::CompoundAssign { .. } => "compound",
                    Stmt::Call(_) => "call",
                    Stmt::Do(_) => "do",
                    Stmt::While { .. } => "while",
                    Stmt::Repeat { .. } => "repeat",
                    Stmt::If { .. } => "if",
                    Stmt::NumFor { .. } => "numeric-for",
                    Stmt::GenFor { .. } => "generic-for",
                    Stmt::Function { .. } => "function",
                    Stmt::LocalFunction { .. } => "local-function",
                    Stmt::Return(_) => "return",
                    Stmt::TypeDecl { .. } => "type-declaration",
                    Stmt::TypeFunction { .. } => "type-function",
                    _ => "other",
                })
                .unwrap_or("empty"),
            Err(_) => "unparsable",
        };
        format!("{}|{}", signature, ctx)
    }
}

fn continue_outside_loop(b: &Block, in_loop: bool) -> bool {
    b.stmts.iter().any(|s| match s {
        Stmt::Continue => !in_loop,
        Stmt::Do(b) => continue_outside_loop(b, in_loop),
        Stmt::If { clauses, else_block } => clauses.iter().any(|(_, b)| continue_outside_loop(b, in_loop)) || else_block.as_ref().map(|b| continue_outside_loop(b, in_loop)).unwrap_or(false),
        Stmt::While { body, .. } | Stmt::Repeat { body, .. } | Stmt::NumFor { body, .. } | Stmt::GenFor { body, .. } => continue_outside_loop(body, true),
        Stmt::Function { func, .. } | Stmt::LocalFunction { func, .. } => continue_outside_loop(&func.body, false),
        _ => false,
    })
}

fn narrow(case: &Case, rule: &str) -> Case {
    let mut c = case.clone();
    c["only_rule"] = json!(rule);
    c
}
