//! C11 — batch runs map files one-to-one, isolate failures and are deterministic.
//!
//! A case is a whole resource tree (memory or file-system back end) with some files made faulty,
//! an input (directory or file), an output location (none = in place, new path, existing
//! directory, file) and a configuration.  The model of a batch run is
//! `initial tree + { mirror(rel(f)) -> alone(f) | f healthy .lua/.luau file under the input }`
//! where `alone(f)` is darklua's result for `f` processed on its own (input = that file, explicit
//! output file) in an untouched copy of the same tree.  The complete tree after the batch run is
//! compared byte for byte with the model, the error list with the set of faulty files, and the run
//! is repeated with other creation/insertion orders (and in a fresh process) to check determinism.

use super::fstree::{self, Item, Node, Snap, World};
use crate::framework::*;
use crate::rng::{hash64, Rng};
use serde_json::{json, Value};
use std::collections::{BTreeMap, BTreeSet};

#[derive(Default)]
pub struct C11 {}

/// generator switch: do not produce `require("./x")` next to a file literally named `x`
// (the panic on extension-less requires was repaired by a "fix:" commit: exercised again)
const AVOID_EXTENSIONLESS_REQUIRE: bool = false;

const MISSING_FILE: &str = "dlverif-this-file-does-not-exist/none.txt";

// ---------------------------------------------------------------------------------------------
// decoding helpers

fn normalize_rel(p: &str) -> String {
    let mut out: Vec<&str> = vec![];
    for c in p.split('/') {
        match c {
            "" | "." => {}
            ".." => {
                out.pop();
            }
            x => out.push(x),
        }
    }
    out.join("/")
}

fn has_extension(p: &str) -> bool {
    // std::path::Path::extension semantics on the last component
    let name = fstree::file_name(p);
    match name.rfind('.') {
        Some(i) => i > 0 && i + 1 < name.len(),
        None => false,
    }
}

struct Decoded {
    fs: bool,
    nodes: Vec<Node>,
    input_raw: String,
    input: String,
    output_raw: Option<String>,
    output: Option<String>,
    cfg_text: Option<String>,
    cfg_file: Option<String>,
    fail_fast: bool,
    reps: usize,
    order_seed: u64,
    subprocess: bool,
    expect_digest: Option<String>,
}

fn decode(case: &Case) -> Option<Decoded> {
    let nodes = fstree::nodes_from_json(&case["nodes"])?;
    let input_raw = case["input"].as_str()?.to_string();
    let output_raw = case["output"].as_str().map(|s| s.to_string());
    Some(Decoded {
        fs: case["fs"].as_bool().unwrap_or(false),
        input: normalize_rel(&input_raw),
        input_raw,
        output: output_raw.as_deref().map(normalize_rel),
        output_raw,
        nodes,
        cfg_text: case["cfg"]["text"].as_str().map(|s| s.to_string()),
        cfg_file: case["cfg"]["file"].as_str().map(|s| s.to_string()),
        fail_fast: case["fail_fast"].as_bool().unwrap_or(false),
        reps: case["reps"].as_u64().unwrap_or(2).clamp(1, 64) as usize,
        order_seed: case["order_seed"].as_u64().unwrap_or(0),
        subprocess: case["subprocess"].as_bool().unwrap_or(false),
        expect_digest: case["expect_digest"].as_str().map(|s| s.to_string()),
    })
}

impl Decoded {
    fn cfg(&self) -> Result<&str, &str> {
        match (&self.cfg_text, &self.cfg_file) {
            (Some(t), _) => Ok(t.as_str()),
            (None, Some(f)) => Err(f.as_str()),
            (None, None) => Ok("{}"),
        }
    }
}

fn permutation(n: usize, seed: u64, rep: usize) -> Vec<usize> {
    let mut v: Vec<usize> = (0..n).collect();
    if rep == 0 && seed == 0 {
        return v;
    }
    let mut r = Rng::derive(seed, "C11-order", rep as u64);
    r.shuffle(&mut v);
    if rep % 3 == 2 {
        v.reverse();
    }
    v
}

/// error texts with the scratch directory replaced, sorted
fn normal_errors(errors: &[String], prefix: &str) -> Vec<String> {
    let mut v: Vec<String> = errors.iter().map(|e| if prefix.is_empty() { e.clone() } else { e.replace(prefix, "<BASE>/") }).collect();
    v.sort();
    v
}

fn listing(snap: &Snap, errors: &[String]) -> String {
    let mut m = serde_json::Map::new();
    for (p, it) in snap {
        m.insert(
            p.clone(),
            match it {
                Item::Dir => json!({"dir": true}),
                Item::File(b) => match std::str::from_utf8(b) {
                    Ok(s) => json!(s),
                    Err(_) => json!({"hex": fstree::hex(b)}),
                },
            },
        );
    }
    json!({"tree": m, "errors": errors}).to_string()
}

fn names(err: &str, path: &str) -> bool {
    err.contains(&format!("`{}`", path))
}

struct Expectation {
    /// every work file with its destination (tree-relative)
    dests: Vec<(String, String)>,
    expected: Snap,
    /// directories that may or may not have been created (parents of destinations)
    lenient_dirs: BTreeSet<String>,
    /// faulty work files: source path -> (reason, acceptable names in an error text)
    faulty: BTreeMap<String, (String, Vec<String>)>,
}

/// `actual` with the directories the model does not judge removed
fn without_lenient_dirs(actual: &Snap, exp: &Expectation) -> Snap {
    let mut a = actual.clone();
    a.retain(|p, it| !(matches!(it, Item::Dir) && !exp.expected.contains_key(p) && exp.lenient_dirs.contains(p)));
    a
}

// ---------------------------------------------------------------------------------------------
// workload: file contents

fn lua_body(r: &mut Rng, id: usize, luau: bool) -> String {
    match r.below(if luau { 10 } else { 9 }) {
        0 => format!("return {}\n", id),
        1 => format!(
            "-- module {id}\nlocal M = {{}}\nlocal unused_{id} = nil\nfunction M.f(a, b)\n\tassert(a ~= nil, \"a is required\")\n\tdebug.profilebegin(\"f{id}\")\n\tlocal r = a + b * (2 + {id})\n\tdebug.profileend()\n\treturn r\nend\nif false then\n\tprint(\"never {id}\")\nend\nreturn M\n",
            id = id
        ),
        2 => format!(
            "--[[ block\ncomment {id} ]]\nlocal t = {{ key = {id}, ['other key'] = true }}\nlocal function helper(value, ...)\n\tlocal select = select\n\treturn assert(value, ...), select('#', ...)\nend\nwhile false do end\ndo end\nprint(t['key'], helper(t[\"other key\"], 'm'))\nreturn t\n",
            id = id
        ),
        3 => format!("local a, b = {}, nil\r\nlocal c = a .. 'x' -- trailing\r\n\r\nreturn {{ a = a, b = b, c = c }}\r\n", id),
        4 => String::new(),
        5 => format!("-- only a comment {}\n", id),
        6 => format!(
            "local Class = {{}}\nClass.__index = Class\nfunction Class.new(v) return setmetatable({{ v = v }}, Class) end\nfunction Class:get() return self.v + {id} end\nlocal o = Class.new(1 + 1)\nlocal s = 'str{id}'\nreturn o:get(), s:upper(), DEBUG_FLAG, _G.OTHER_FLAG\n",
            id = id
        ),
        7 => {
            let n = 3 + r.below(30);
            let mut s = String::from("local acc = 0\n");
            for k in 0..n {
                s.push_str(&format!("local v{k} = acc + {k} * {id}\nacc = acc + v{k}\n", k = k, id = id));
            }
            s.push_str("return acc\n");
            s
        }
        8 => format!("local x = {}\nfor i = 1, 3 do\n\tif i == 2 then x = x + i elseif i == 3 then x = x - 1 else x = x * 2 end\nend\nrepeat x = x - 1 until x < 0\nreturn x", id),
        _ => format!(
            "type Point = {{ x: number, y: number }}\nexport type Id = number | string\nlocal p: Point = {{ x = {id}, y = 2 }}\nlocal function norm(q: Point): number\n\treturn if q.x > q.y then q.x else q.y\nend\nlocal n = norm(p)\nn += 1\nreturn `{{n}} of {id}`\n",
            id = id
        ),
    }
}

const SYNTAX_ERRORS: [&str; 6] = ["local = 1\n", "return (\n", "x =\n", "function f(\n", "local a = 'unterminated\n", "if x then\n"];

const LUA_NAMES: [&str; 18] = [
    "a.lua", "b.lua", "c.lua", "init.lua", "main.lua", "a.luau", "init.luau", "mod.luau", "my file.lua", "x.test.lua", "a.b.c.luau", ".hidden.lua", "..lua", "é.lua", "日本 語.luau", "z-1_2.lua", "lua.lua", "a.lua.lua",
];
const OTHER_NAMES: [&str; 10] = ["notes.txt", "data.json", "a.lua.bak", "lua", "README", "x.luax", ".luaurc", "lua.txt", "a.lu", "b.luau~"];
const DIR_NAMES: [&str; 10] = ["util", "lib", "my dir", ".dot", "dir.with.dots", "ünï", "x.lua", "deep", "n", "init"];
const ROOTS: [&str; 7] = ["src", "src", "pkg/src", "my src", ".hidden-src", "in.lua", "ünï/ç"];

fn rule_sets(r: &mut Rng) -> Vec<Value> {
    let pool: Vec<Value> = vec![
        json!("remove_comments"),
        json!("remove_spaces"),
        json!("compute_expression"),
        json!("remove_unused_if_branch"),
        json!("remove_unused_while"),
        json!("remove_empty_do"),
        json!("remove_unused_variable"),
        json!("remove_method_definition"),
        json!("convert_index_to_field"),
        json!("remove_nil_declaration"),
        json!("rename_variables"),
        json!({"rule": "rename_variables", "globals": ["$default", "$roblox", "DEBUG_FLAG"], "include_functions": true}),
        json!("remove_function_call_parens"),
        json!("remove_assertions"),
        json!({"rule": "remove_assertions", "preserve_arguments_side_effects": false}),
        json!("remove_debug_profiling"),
        json!({"rule": "inject_global_value", "identifier": "DEBUG_FLAG", "value": false}),
        json!({"rule": "inject_global_value", "identifier": "OTHER_FLAG", "value": {"a": 1, "b": [1, 2], "c": "s"}}),
        json!("remove_types"),
        json!("remove_compound_assignment"),
        json!("remove_interpolated_string"),
        json!("remove_if_expression"),
        json!("group_local_assignment"),
        json!("convert_local_function_to_assign"),
        json!("remove_method_call"),
        json!({"rule": "append_text_comment", "text": "generated"}),
    ];
    let n = r.below(7);
    (0..n).map(|_| r.pick(&pool).clone()).collect()
}

// ---------------------------------------------------------------------------------------------
// generation

struct Build {
    nodes: Vec<Node>,
    faults: Vec<Value>,
}

impl Build {
    fn has(&self, p: &str) -> bool {
        self.nodes.iter().any(|n| n.path == p)
    }
    /// `p` can be added as a file without turning an existing file into a directory or vice versa
    fn free_for_file(&self, p: &str) -> bool {
        !self.nodes.iter().any(|n| n.path == p || fstree::is_under(&n.path, p) || (n.is_file() && fstree::is_under(p, &n.path)))
    }
    fn free_for_dir(&self, p: &str) -> bool {
        !self.nodes.iter().any(|n| n.is_file() && (n.path == p || fstree::is_under(p, &n.path)))
    }
}

fn gen_random(seed: u64, index: u64, tier: Tier) -> Case {
    let mut r = case_rng("C11", seed, index);
    let fs = r.chance(1, 3);
    let root = *r.pick(&ROOTS[..]);
    let mut b = Build { nodes: vec![], faults: vec![] };
    // directories (nesting <= 3 below the root)
    let mut dirs: Vec<String> = vec![String::new()];
    for _ in 0..r.below(5) {
        let parent = r.pick(&dirs).clone();
        if parent.matches('/').count() >= 2 && !parent.is_empty() {
            continue;
        }
        let d = *r.pick(&DIR_NAMES[..]);
        let p = if parent.is_empty() { d.to_string() } else { format!("{}/{}", parent, d) };
        if !dirs.contains(&p) {
            dirs.push(p);
        }
    }
    let bundling = r.chance(1, 5);
    let many = r.chance(1, 4);
    let nlua = 1 + r.below(if many { 12 } else { 6 });
    let mut lua_paths: Vec<String> = vec![];
    let mut guard = 0;
    while lua_paths.len() < nlua && guard < 60 {
        guard += 1;
        let d = r.pick(&dirs).clone();
        let n = *r.pick(&LUA_NAMES[..]);
        let p = if d.is_empty() { format!("{}/{}", root, n) } else { format!("{}/{}/{}", root, d, n) };
        if !b.free_for_file(&p) {
            continue;
        }
        let id = lua_paths.len();
        let mut body = lua_body(&mut r, id, n.ends_with(".luau"));
        if bundling && r.chance(1, 2) && !lua_paths.is_empty() {
            // require an earlier file of the same directory, or a module that does not exist
            let same_dir: Vec<&String> = lua_paths.iter().filter(|q| q.rsplit_once('/').map(|x| x.0) == p.rsplit_once('/').map(|x| x.0)).collect();
            if !same_dir.is_empty() && r.chance(4, 5) {
                // up to three requires, so that bundles hold several modules
                let mut picked: Vec<String> = vec![];
                for _ in 0..1 + r.below(3) {
                    let q = *r.pick(&same_dir);
                    let stem = fstree::file_name(q);
                    let stem = stem.strip_suffix(".luau").or_else(|| stem.strip_suffix(".lua")).unwrap_or(stem);
                    // known defect (kept as a deterministic case): requiring a path that resolves to an existing
                    // file without extension panics in the bundler; `AVOID_EXTENSIONLESS_REQUIRE` keeps the
                    // random workload away from it
                    let extensionless_exists = OTHER_NAMES.contains(&stem);
                    if stem.chars().all(|c| c.is_ascii_alphanumeric() || c == '.' || c == '_' || c == '-' || c == ' ') && !stem.starts_with('.') && !(AVOID_EXTENSIONLESS_REQUIRE && extensionless_exists) && !picked.iter().any(|x| x == stem) {
                        picked.push(stem.to_string());
                    }
                }
                for (k, stem) in picked.iter().enumerate() {
                    body = format!("local dep{} = require(\"./{}\")\n{}", k, stem, body);
                }
            }
        }
        b.nodes.push(Node::text(&p, &body));
        lua_paths.push(p);
    }
    // non-Lua files and (fs) directories with Lua names / empty directories
    for _ in 0..r.below(4) {
        let d = r.pick(&dirs).clone();
        let n = *r.pick(&OTHER_NAMES[..]);
        let p = if d.is_empty() { format!("{}/{}", root, n) } else { format!("{}/{}/{}", root, d, n) };
        if b.free_for_file(&p) {
            b.nodes.push(Node::text(&p, *r.pick(&["plain text (", "{\"json\": true}", "", "return 1"])));
        }
    }
    if fs && r.chance(1, 3) {
        let d = r.pick(&dirs).clone();
        let n = *r.pick(&["empty.lua", "dir.luau", "emptydir"]);
        let p = if d.is_empty() { format!("{}/{}", root, n) } else { format!("{}/{}/{}", root, d, n) };
        if b.free_for_dir(&p) && !b.has(&p) {
            b.nodes.push(Node::dir(&p));
            b.faults.push(json!({"p": p, "kind": "directory-named-like-lua"}));
        }
    }
    // a Lua file outside the input that must stay untouched
    if r.chance(1, 3) {
        b.nodes.push(Node::text("outside/o.lua", "return 'outside' -- untouched\n"));
    }

    // input
    let input_is_file = r.chance(1, 6);
    let input_rel = if input_is_file { r.pick(&lua_paths).clone() } else { root.to_string() };
    let input_raw = match r.below(8) {
        0 => format!("./{}", input_rel),
        1 if !input_is_file => format!("{}/", input_rel),
        _ => input_rel.clone(),
    };

    // output
    let work: Vec<String> = if input_is_file { vec![input_rel.clone()] } else { lua_paths.clone() };
    let mut output: Option<String> = None;
    match r.below(10) {
        0 | 1 | 2 => {}
        3 | 4 => output = Some((*r.pick(&["out", "build/out", "dist.d", "my out"])).to_string()),
        5 | 6 => {
            // existing directory with bystanders and stale files
            let o = (*r.pick(&["out", "existing/out", "dist.v2", "existing/out.d"])).to_string();
            b.nodes.push(Node::text(&format!("{}/keep.txt", o), "keep me"));
            if r.bool() {
                b.nodes.push(Node::text(&format!("{}/stale.lua", o), "return 'stale'"));
            }
            if !input_is_file && r.bool() {
                // a file that will be overwritten
                let f = r.pick(&work).clone();
                let dest = format!("{}/{}", o, &f[root.len() + 1..]);
                if b.free_for_file(&dest) {
                    b.nodes.push(Node::text(&dest, "return 'old output'"));
                }
            }
            output = Some(o);
        }
        7 => {
            if input_is_file {
                output = Some((*r.pick(&["out/result.lua", "result.luau", "bundle.lua"])).to_string());
            } else {
                output = Some("out".to_string());
            }
        }
        8 => {
            if input_is_file {
                // existing file that gets overwritten
                b.nodes.push(Node::text("res/existing.lua", "return 'previous'"));
                output = Some("res/existing.lua".to_string());
            } else if fs && r.chance(1, 3) {
                // a file where the output directory should be: every destination is blocked
                b.nodes.push(Node::text("out", "i am a file"));
                output = Some("out".to_string());
                b.faults.push(json!({"p": "out", "kind": "output-root-is-a-file"}));
            } else {
                output = Some("out".to_string());
            }
        }
        _ => output = Some("o".to_string()),
    }
    if bundling && !input_is_file && output.is_none() {
        // bundling a directory in place makes every output an input of its neighbours: out of scope
        output = Some("out".to_string());
    }

    // configuration
    let generator = *r.pick(&["retain_lines", "retain_lines", "dense", "readable"]);
    let mut rules = rule_sets(&mut r);
    let use_default_rules = r.chance(1, 6);

    // faults
    let nfaults = *r.pick(&[0usize, 0, 1, 1, 1, 2, 2, 3]);
    let mut victims: Vec<String> = work.clone();
    r.shuffle(&mut victims);
    victims.truncate(nfaults.min(victims.len()));
    let mut rule_error_targets: Vec<String> = vec![];
    for v in &victims {
        let dest = output.as_ref().map(|o| if input_is_file { o.clone() } else { format!("{}/{}", o, &v[root.len() + 1..]) });
        let mut kinds = vec!["syntax", "syntax", "rule-error"];
        if fs {
            kinds.push("invalid-utf8");
            if dest.is_some() && !input_is_file {
                kinds.push("dest-is-directory");
                kinds.push("dest-parent-is-file");
            }
        }
        if bundling {
            kinds.push("missing-require");
            kinds.push("missing-require");
        }
        let kind = *r.pick(&kinds);
        let idx = b.nodes.iter().position(|n| &n.path == v);
        let Some(idx) = idx else { continue };
        match kind {
            "syntax" => b.nodes[idx].item = Item::File(r.pick(&SYNTAX_ERRORS[..]).as_bytes().to_vec()),
            "invalid-utf8" => {
                let mut bytes = b"local s = '".to_vec();
                bytes.extend_from_slice(*r.pick(&[&[0xffu8, 0xfe][..], &[0xc3, 0x28][..], &[0xed, 0xa0, 0x80][..], &[0x80][..]]));
                bytes.extend_from_slice(b"'\nreturn s\n");
                b.nodes[idx].item = Item::File(bytes);
            }
            "rule-error" => rule_error_targets.push(v.clone()),
            "missing-require" => {
                let old = match &b.nodes[idx].item {
                    Item::File(x) => String::from_utf8_lossy(x).to_string(),
                    _ => String::new(),
                };
                b.nodes[idx].item = Item::File(format!("local missing = require(\"./does-not-exist-{}\")\n{}", idx, old).into_bytes());
            }
            "dest-is-directory" => {
                let d = dest.clone().unwrap();
                if b.free_for_dir(&d) && !b.has(&d) {
                    b.nodes.push(Node::dir(&d));
                } else {
                    continue;
                }
            }
            "dest-parent-is-file" => {
                let d = dest.clone().unwrap();
                let anc = fstree::ancestors(&d);
                // an ancestor strictly below the output root
                let out_depth = output.as_ref().map(|o| o.split('/').count()).unwrap_or(0);
                let cands: Vec<&String> = anc.iter().filter(|a| a.split('/').count() > out_depth).collect();
                if cands.is_empty() {
                    continue;
                }
                let a = (*r.pick(&cands)).clone();
                if b.free_for_file(&a) {
                    b.nodes.push(Node::text(&a, "blocker"));
                } else {
                    continue;
                }
            }
            _ => {}
        }
        b.faults.push(json!({"p": v, "kind": kind}));
    }
    if !rule_error_targets.is_empty() {
        // a rule that fails exactly on the targets, somewhere in the pipeline
        let pats: Vec<String> = rule_error_targets.iter().map(|p| p.clone()).collect();
        let usable = pats.iter().all(|p| p.chars().all(|c| !"*?{}[]<>()$,:\\!|~@+^#&;\"'`%".contains(c)));
        if usable && !use_default_rules {
            let rule = json!({"rule": "append_text_comment", "file": MISSING_FILE, "apply_to_files": pats.iter().map(|p| format!("**/{}", p)).collect::<Vec<_>>()});
            let pos = r.below(rules.len() + 1);
            rules.insert(pos, rule);
        } else {
            b.faults.retain(|f| f["kind"] != "rule-error");
        }
    }
    let mut cfg = serde_json::Map::new();
    cfg.insert("generator".into(), json!(generator));
    if !use_default_rules {
        cfg.insert("rules".into(), Value::Array(rules));
    }
    if bundling {
        let mut excludes = vec![];
        if r.chance(1, 3) {
            excludes.push("@lune/**");
            excludes.push("**/vendor/**");
            excludes.push("~/**");
        }
        cfg.insert("bundle".into(), json!({"require_mode": {"name": "path", "use_luau_configuration": false}, "excludes": excludes, "modules_identifier": "__MODS"}));
    }
    let cfg_text = Value::Object(cfg).to_string();
    let cfg_v = if r.chance(1, 4) {
        let p = (*r.pick(&[".darklua.json5", "conf/dark.json", "cfg.json5"])).to_string();
        if b.free_for_file(&p) {
            b.nodes.push(Node::text(&p, &cfg_text));
            json!({"file": p})
        } else {
            json!({"text": cfg_text})
        }
    } else {
        json!({"text": cfg_text})
    };
    if !fs {
        // the memory back end has neither directories nor raw bytes
        b.nodes.retain(|n| n.is_file());
    }
    let reps = if tier == Tier::Quick { 2 + r.below(2) } else { 3 + r.below(4) };
    let subprocess = r.chance(1, if tier == Tier::Quick { 8 } else { 4 });
    json!({
        "origin": "random", "fs": fs, "nodes": fstree::nodes_to_json(&b.nodes), "input": input_raw, "output": output,
        "cfg": cfg_v, "fail_fast": r.chance(1, 4), "reps": reps, "order_seed": r.next_u64() >> 12, "subprocess": subprocess,
        "faults": b.faults,
    })
}

/// hand-written scenarios: every fault kind, layout and option at least once, seed-independent
fn deterministic_cases() -> Vec<Case> {
    let mut out = vec![];
    let t = |p: &str, s: &str| json!({"p": p, "t": s});
    let base = vec![
        t("src/a.lua", "local x = 1 + 1 -- c\nreturn x\n"),
        t("src/b.luau", "local y: number = 2\nreturn y\n"),
        t("src/util/c.lua", "return { c = 3 }\n"),
        t("src/util/deep/er/d.lua", "do end\nreturn 4\n"),
        t("src/my dir/my file.lua", "return 'space'\n"),
        t("src/.dot/.hidden.lua", "return 'hidden'\n"),
        t("src/ünï/é.lua", "return 'unicode'\n"),
        t("src/notes.txt", "not lua ("),
        t("src/a.lua.bak", "return"),
        t("outside/o.lua", "return 'outside'\n"),
    ];
    let cfgs = [
        r#"{"generator":"retain_lines","rules":["remove_comments","compute_expression","remove_empty_do"]}"#,
        r#"{"generator":"dense","rules":["remove_types","rename_variables"]}"#,
        r#"{}"#,
    ];
    let mk = |nodes: Vec<Value>, fs: bool, input: &str, output: Option<&str>, cfg: Value, ff: bool, origin: &str, faults: Value| -> Case {
        json!({"origin": origin, "fs": fs, "nodes": nodes, "input": input, "output": output, "cfg": cfg, "fail_fast": ff, "reps": 3, "order_seed": 7, "subprocess": true, "faults": faults})
    };
    // healthy layouts x back ends x output modes
    for fs in [false, true] {
        for (ci, cfg) in cfgs.iter().enumerate() {
            for (oi, output) in [None, Some("out"), Some("build/nested/out")].iter().enumerate() {
                out.push(mk(base.clone(), fs, "src", *output, json!({"text": cfg}), false, &format!("healthy:{}:{}:{}", fs, ci, oi), json!([])));
            }
        }
        // file input: in place, to a file, to an existing directory, to a new path without extension
        out.push(mk(base.clone(), fs, "src/a.lua", None, json!({"text": cfgs[0]}), false, "file-in-place", json!([])));
        out.push(mk(base.clone(), fs, "src/a.lua", Some("out/res.lua"), json!({"text": cfgs[0]}), false, "file-to-file", json!([])));
        let mut n = base.clone();
        n.push(t("out/keep.txt", "keep"));
        out.push(mk(n.clone(), fs, "src/util/c.lua", Some("out"), json!({"text": cfgs[0]}), false, "file-to-existing-dir", json!([])));
        out.push(mk(base.clone(), fs, "src/util/c.lua", Some("newplace"), json!({"text": cfgs[0]}), false, "file-to-new-path", json!([])));
        // existing output directory with stale content
        n.push(t("out/a.lua", "return 'old'"));
        n.push(t("out/stale.lua", "return 'stale'"));
        out.push(mk(n, fs, "./src/", Some("out"), json!({"text": cfgs[1]}), false, "existing-output-dir", json!([])));
        // configuration file in the tree
        let mut n = base.clone();
        n.push(t("conf/dark.json5", "{ generator: 'dense', rules: ['remove_comments'] }"));
        out.push(mk(n, fs, "src", Some("out"), json!({"file": "conf/dark.json5"}), false, "config-file", json!([])));
        // syntax errors, with and without fail-fast, in place and with output
        for ff in [false, true] {
            for output in [None, Some("out")] {
                let mut n = base.clone();
                n[0] = t("src/a.lua", "local = 1\n");
                n[3] = t("src/util/deep/er/d.lua", "return (\n");
                out.push(mk(n, fs, "src", output, json!({"text": cfgs[0]}), ff, "syntax-errors", json!([{"p": "src/a.lua", "kind": "syntax"}, {"p": "src/util/deep/er/d.lua", "kind": "syntax"}])));
            }
        }
        // rule error in the middle of the pipeline, on two files
        for ff in [false, true] {
            for output in [None, Some("out")] {
                let cfg = json!({"generator": "retain_lines", "rules": ["compute_expression", {"rule": "append_text_comment", "text": "first"},
                    {"rule": "append_text_comment", "file": MISSING_FILE, "apply_to_files": ["**/a.lua", "**/c.lua"]}, "remove_empty_do"]})
                .to_string();
                out.push(mk(base.clone(), fs, "src", output, json!({"text": cfg}), ff, "rule-error", json!([{"p": "src/a.lua", "kind": "rule-error"}, {"p": "src/util/c.lua", "kind": "rule-error"}])));
            }
        }
        // nested `.luaurc` files: the alias a file sees is the one of the nearest `.luaurc`, whatever was processed before it
        let rc_cfg = json!({"generator": "retain_lines", "rules": [{"rule": "convert_require", "current": "luau", "target": {"name": "path"}}]}).to_string();
        let n = vec![
            t("proj/.luaurc", "{\"aliases\": {\"lib\": \"./libA\"}}"),
            t("proj/pkg/.luaurc", "{\"aliases\": {\"lib\": \"./libB\"}}"),
            t("proj/pkg/deep/.luaurc", "{\"aliases\": {\"lib\": \"../libB\", \"other\": \"../../libA\"}}"),
            t("proj/libA/mod.lua", "return 'A'\n"),
            t("proj/pkg/libB/mod.lua", "return 'B'\n"),
            t("proj/main.lua", "local m = require('@lib/mod')\nreturn m\n"),
            t("proj/aaa.lua", "local m = require('@lib/mod')\nreturn m, 1\n"),
            t("proj/zzz.lua", "local m = require('@lib/mod')\nreturn m, 2\n"),
            t("proj/pkg/inner.lua", "local m = require('@lib/mod')\nreturn m, 3\n"),
            t("proj/pkg/deep/leaf.lua", "local m = require('@lib/mod')\nlocal o = require('@other/mod')\nreturn m, o\n"),
            t("proj/other/side.lua", "local m = require('@lib/mod')\nreturn m, 4\n"),
        ];
        for reps_seed in [7u64, 8, 9] {
            let mut c = mk(n.clone(), fs, "proj", Some("out"), json!({"text": rc_cfg}), false, "nested-luaurc", json!([]));
            c["order_seed"] = json!(reps_seed);
            c["reps"] = json!(6);
            out.push(c);
        }
        // bundling: a chain, a missing module, an entry that requires a broken module
        let bundle_cfg = json!({"generator": "retain_lines", "rules": ["remove_comments"], "bundle": {"require_mode": {"name": "path", "use_luau_configuration": false}, "modules_identifier": "__MODS"}}).to_string();
        let n = vec![
            t("src/main.lua", "local a = require('./a')\nlocal b = require(\"./lib/b\")\nreturn a + b\n"),
            t("src/a.lua", "return 1 -- one\n"),
            t("src/lib/b.lua", "local c = require('./c')\nreturn c + 1\n"),
            t("src/lib/c.luau", "return 10\n"),
            t("src/bad.lua", "local m = require('./nowhere')\nreturn m\n"),
            t("src/broken.lua", "return (\n"),
            t("src/uses_broken.lua", "local x = require('./broken')\nreturn x\n"),
        ];
        for ff in [false, true] {
            out.push(mk(n.clone(), fs, "src", Some("out"), json!({"text": bundle_cfg}), ff, "bundle", json!([{"p": "src/bad.lua", "kind": "missing-require"}, {"p": "src/broken.lua", "kind": "syntax"}, {"p": "src/uses_broken.lua", "kind": "requires-broken"}])));
        }
        out.push(mk(n.clone(), fs, "src/main.lua", Some("bundle.lua"), json!({"text": bundle_cfg}), false, "bundle-entry", json!([])));
    }
    // file-system only: invalid UTF-8, directory named like a Lua file, blocked destinations
    for ff in [false, true] {
        for output in [None, Some("out")] {
            let mut n = base.clone();
            n[0] = json!({"p": "src/a.lua", "hex": "6c6f63616c2073203d2027fffe270a72657475726e20730a"});
            n.push(json!({"p": "src/util/dir.lua", "dir": true}));
            n.push(t("src/x.lua/inner.lua", "return 'inside a directory named x.lua'\n"));
            out.push(mk(n, true, "src", output, json!({"text": cfgs[0]}), ff, "invalid-utf8+lua-named-dirs", json!([{"p": "src/a.lua", "kind": "invalid-utf8"}, {"p": "src/util/dir.lua", "kind": "directory-named-like-lua"}])));
        }
        let mut n = base.clone();
        n.push(json!({"p": "out/a.lua", "dir": true}));
        n.push(t("out/util/deep", "a file where a directory is needed"));
        n.push(t("out/keep.txt", "keep"));
        out.push(mk(n, true, "src", Some("out"), json!({"text": cfgs[0]}), ff, "blocked-destinations", json!([{"p": "src/a.lua", "kind": "dest-is-directory"}, {"p": "src/util/deep/er/d.lua", "kind": "dest-parent-is-file"}])));
        let mut n = base.clone();
        n.push(t("out", "the output root is a file"));
        out.push(mk(n, true, "src", Some("out"), json!({"text": cfgs[0]}), ff, "output-root-is-file", json!([{"p": "out", "kind": "output-root-is-a-file"}])));
    }
    // known defect witness: a require that resolves to an existing file without extension
    {
        let bundle_cfg = json!({"generator": "retain_lines", "rules": [], "bundle": {"require_mode": {"name": "path", "use_luau_configuration": false}}}).to_string();
        let n = vec![t("src/main.lua", "local d = require(\"./lua\")\nreturn d\n"), t("src/lua", "return 1\n"), t("src/ok.lua", "return 2\n")];
        let mut c = mk(n, false, "src", Some("out"), json!({"text": bundle_cfg}), false, "require-of-extensionless-file", json!([{"p": "src/main.lua", "kind": "require-extensionless"}]));
        c["subprocess"] = json!(false);
        out.push(c);
    }
    // input directory named like a Lua file
    for fs in [false, true] {
        let n = vec![t("in.lua/a.lua", "return 1 -- x\n"), t("in.lua/sub.luau/b.luau", "return 2\n"), t("in.lua/readme", "x")];
        out.push(mk(n.clone(), fs, "in.lua", Some("out.lua"), json!({"text": cfgs[0]}), false, "lua-named-input-dir", json!([])));
        out.push(mk(n, fs, "in.lua", None, json!({"text": cfgs[0]}), false, "lua-named-input-dir-in-place", json!([])));
    }
    out
}

// ---------------------------------------------------------------------------------------------
// the model

fn expectation(d: &Decoded, cov: &mut Cov, alt_reading: bool) -> Result<Expectation, Verdict> {
    let initial = fstree::initial_snapshot(d.fs, &d.nodes);
    let input_item = initial.get(&d.input);
    let input_is_file = matches!(input_item, Some(Item::File(_)));
    if input_item.is_none() && !d.nodes.iter().any(|n| fstree::is_under(&n.path, &d.input)) {
        return Err(Verdict::discard("input does not exist"));
    }
    // work set by the wording of the property
    let work: Vec<&Node> = d.nodes.iter().filter(|n| n.is_file() && if input_is_file { n.path == d.input } else { fstree::is_under(&n.path, &d.input) && fstree::is_lua_name(&n.path) }).collect();
    if input_is_file && !fstree::is_lua_name(&d.input) {
        return Err(Verdict::discard("file input without a Lua extension"));
    }
    if let Some(o) = &d.output {
        if *o == d.input || fstree::is_under(o, &d.input) || fstree::is_under(&d.input, o) {
            return Err(Verdict::discard("output overlaps input"));
        }
    }
    // destinations
    let mut dests: Vec<(String, String)> = vec![];
    for n in &work {
        let dest = match &d.output {
            None => n.path.clone(),
            Some(o) => {
                if input_is_file {
                    let name = fstree::file_name(&n.path);
                    let out_item = initial.get(o);
                    let out_is_dir = matches!(out_item, Some(Item::Dir)) || (!d.fs && d.nodes.iter().any(|m| fstree::is_under(&m.path, o)));
                    let out_is_file = matches!(out_item, Some(Item::File(_)));
                    if out_is_dir {
                        format!("{}/{}", o, name)
                    } else if out_is_file || has_extension(o) {
                        o.clone()
                    } else if alt_reading {
                        // a new path without extension: "a file of that name" is as good a reading
                        o.clone()
                    } else {
                        format!("{}/{}", o, name)
                    }
                } else {
                    format!("{}/{}", o, &n.path[d.input.len() + 1..])
                }
            }
        };
        dests.push((n.path.clone(), dest));
    }

    // reference: every work file alone, in an untouched copy of the tree
    let refworld = match World::build(d.fs, &d.nodes, &(0..d.nodes.len()).collect::<Vec<_>>()) {
        Ok(w) => w,
        Err(e) => return Err(Verdict::discard(format!("harness: cannot build tree: {}", e.chars().take(80).collect::<String>()))),
    };
    let before = refworld.snapshot().map_err(|e| Verdict::discard(format!("harness: snapshot: {}", e)))?;
    if before != initial {
        return Err(Verdict::discard("harness: initial snapshot differs from the node list"));
    }
    let mut alone: BTreeMap<String, Result<Vec<u8>, String>> = BTreeMap::new();
    for (i, n) in work.iter().enumerate() {
        let ref_out = format!("dlverif-ref-out/{}.lua", i);
        let o = refworld.process(d.cfg(), &n.path, Some(&ref_out), false);
        let res = if let Some(e) = o.setup_error {
            if e.starts_with("config:") || e.contains("configuration") {
                return Err(Verdict::discard("configuration rejected"));
            }
            return Err(Verdict::discard(format!("setup error in a reference run: {}", e.replace(&refworld.prefix(), "").chars().take(60).collect::<String>())));
        } else if !o.errors.is_empty() {
            Err(o.errors.join("; "))
        } else {
            match refworld.snapshot().ok().and_then(|mut s| s.remove(&ref_out)) {
                Some(Item::File(b)) => Ok(b),
                _ => Err("no output".to_string()),
            }
        };
        // a source that is not valid UTF-8 cannot be read as text: it has to be reported, whatever the reference run says
        if let Item::File(bytes) = &n.item {
            if std::str::from_utf8(bytes).is_err() && res.is_ok() {
                return Err(Verdict::violated(
                    "invalid-utf8-source-processed",
                    format!("`{}` holds bytes that are not valid UTF-8 ({:?}...) but processing it alone succeeds and writes an output instead of reporting the file", n.path, &bytes[..bytes.len().min(24)]),
                ));
            }
        }
        alone.insert(n.path.clone(), res);
    }
    // the reference runs must not have touched anything else
    if let Ok(mut s) = refworld.snapshot() {
        s.retain(|p, _| p != "dlverif-ref-out" && !p.starts_with("dlverif-ref-out/"));
        if s != initial {
            return Err(Verdict::discard("reference runs modified the tree"));
        }
    }
    drop(refworld);

    let mut expected = initial.clone();
    let mut faulty: BTreeMap<String, (String, Vec<String>)> = BTreeMap::new();
    let mut lenient_dirs = BTreeSet::new();
    for (src, dest) in &dests {
        for a in fstree::ancestors(dest) {
            lenient_dirs.insert(a);
        }
        match alone.get(src) {
            Some(Err(e)) => {
                faulty.insert(src.clone(), (format!("fails alone: {}", e.chars().take(160).collect::<String>()), vec![src.clone()]));
                continue;
            }
            None => continue,
            Some(Ok(bytes)) => {
                if d.fs && d.output.is_some() {
                    // destination blocked by the initial tree?
                    let mut blocked: Option<String> = None;
                    if matches!(initial.get(dest), Some(Item::Dir)) {
                        blocked = Some("destination is an existing directory".into());
                    }
                    for a in fstree::ancestors(dest) {
                        if matches!(initial.get(&a), Some(Item::File(_))) {
                            blocked = Some(format!("`{}` is a file where a directory is needed", a));
                        }
                    }
                    if let Some(why) = blocked {
                        let mut acc = vec![src.clone(), dest.clone()];
                        acc.extend(fstree::ancestors(dest));
                        faulty.insert(src.clone(), (why, acc));
                        continue;
                    }
                }
                expected.insert(dest.clone(), Item::File(bytes.clone()));
                if d.fs {
                    for a in fstree::ancestors(dest) {
                        expected.entry(a).or_insert(Item::Dir);
                    }
                }
            }
        }
    }
    cov.add("reference_runs", work.len() as u64);
    Ok(Expectation { dests, expected, lenient_dirs, faulty })
}

struct RunResult {
    snap: Snap,
    errors: Vec<String>,
    setup_error: Option<String>,
    prefix: String,
}

fn run_once(d: &Decoded, rep: usize) -> Result<RunResult, Verdict> {
    let order = permutation(d.nodes.len(), d.order_seed, rep);
    let world = World::build(d.fs, &d.nodes, &order).map_err(|e| Verdict::discard(format!("harness: cannot build tree: {}", e.chars().take(80).collect::<String>())))?;
    let prefix = world.prefix();
    let o = world.process(d.cfg(), &d.input_raw, d.output_raw.as_deref(), d.fail_fast);
    let snap = world.snapshot().map_err(|e| Verdict::discard(format!("harness: snapshot: {}", e)))?;
    Ok(RunResult { snap, errors: o.errors, setup_error: o.setup_error, prefix })
}

/// the `darklua` executable to compare with, if the run is configured with one
fn cli_binary() -> Option<std::path::PathBuf> {
    let p = std::path::PathBuf::from(std::env::var_os("DLVERIF_DARKLUA_CLI")?);
    if p.is_file() {
        Some(p)
    } else {
        None
    }
}

fn run_cli(cli: &std::path::Path, d: &Decoded) -> Result<(RunResult, i32, String), &'static str> {
    let order = permutation(d.nodes.len(), d.order_seed, 0);
    let world = World::build(true, &d.nodes, &order).map_err(|_| "build")?;
    let prefix = world.prefix();
    // the configuration: the file of the tree, or a scratch file next to (not inside) the tree
    let mut scratch_cfg: Option<std::path::PathBuf> = None;
    let cfg_path = match d.cfg() {
        Err(rel) => world.path(rel),
        Ok(text) => {
            let p = std::path::PathBuf::from(format!("{}.cli-config.json5", world.base.to_string_lossy()));
            std::fs::write(&p, text).map_err(|_| "config")?;
            scratch_cfg = Some(p.clone());
            p.to_string_lossy().to_string()
        }
    };
    let input = world.path(&d.input_raw);
    let output = match &d.output_raw {
        Some(o) => world.path(o),
        None => input.clone(),
    };
    let res = std::process::Command::new(cli)
        .arg("process")
        .arg(&input)
        .arg(&output)
        .arg("--config")
        .arg(&cfg_path)
        .current_dir(&world.base)
        .stdin(std::process::Stdio::null())
        .output();
    if let Some(p) = scratch_cfg {
        let _ = std::fs::remove_file(p);
    }
    let out = res.map_err(|_| "spawn")?;
    let Some(code) = out.status.code() else {
        return Err("killed");
    };
    let stderr = String::from_utf8_lossy(&out.stderr).to_string();
    let snap = world.snapshot().map_err(|_| "snapshot")?;
    Ok((RunResult { snap, errors: vec![], setup_error: None, prefix }, code, stderr))
}

/// compares one run with the model; `Err((signature, detail))` on a refuting observation
fn judge(d: &Decoded, exp: &Expectation, run: &RunResult) -> Result<(), (String, String)> {
    judge_with(d, exp, run, true)
}

fn judge_with(d: &Decoded, exp: &Expectation, run: &RunResult, check_errors: bool) -> Result<(), (String, String)> {
    let initial = fstree::initial_snapshot(d.fs, &d.nodes);
    let actual = without_lenient_dirs(&run.snap, exp);
    let mode = if d.output.is_some() { "output" } else { "in-place" };
    if !d.fail_fast {
        if actual != exp.expected {
            // classify the first difference
            for (src, dest) in &exp.dests {
                let want = exp.expected.get(dest);
                let got = actual.get(dest);
                if want == got {
                    continue;
                }
                let is_faulty = exp.faulty.contains_key(src);
                let sig = if is_faulty {
                    if d.output.is_some() {
                        "faulty-file-has-output"
                    } else {
                        "faulty-file-modified-in-place"
                    }
                } else if got == initial.get(dest) {
                    "healthy-file-not-written"
                } else {
                    "healthy-file-wrong-content"
                };
                return Err((
                    format!("{}:{}", sig, mode),
                    format!(
                        "work file `{}` -> destination `{}`{}\nexpected {}\nobserved {}\nerrors reported: {:?}",
                        src,
                        dest,
                        exp.faulty.get(src).map(|f| format!(" (faulty: {})", f.0)).unwrap_or_default(),
                        want.map(fstree::show_item).unwrap_or_else(|| "<nothing>".into()),
                        got.map(fstree::show_item).unwrap_or_else(|| "<nothing>".into()),
                        normal_errors(&run.errors, &run.prefix)
                    ),
                ));
            }
            let dd = fstree::diff(&exp.expected, &actual, 8);
            let touched_input = dd.iter().any(|l| d.nodes.iter().any(|n| l.contains(&format!("`{}`", n.path))));
            return Err((
                format!("{}:{}", if touched_input { "bystander-modified" } else { "unexpected-path-written" }, mode),
                format!("tree differs from the model outside the destinations of the work files:\n{}\nerrors reported: {:?}", dd.join("\n"), normal_errors(&run.errors, &run.prefix)),
            ));
        }
        if !check_errors {
            return Ok(());
        }
        // errors <-> faulty files
        let errs = &run.errors;
        for (src, (why, acceptable)) in &exp.faulty {
            let named = errs.iter().any(|e| acceptable.iter().any(|p| names(e, &format!("{}{}", run.prefix, p))));
            if !named {
                return Err((
                    "faulty-file-not-reported".into(),
                    format!("`{}` ({}) is not named by any reported error; errors: {:?}", src, why, normal_errors(errs, &run.prefix)),
                ));
            }
        }
        for e in errs {
            let blames_faulty = exp.faulty.values().any(|(_, acceptable)| acceptable.iter().any(|p| names(e, &format!("{}{}", run.prefix, p))));
            if !blames_faulty {
                return Err(("error-for-healthy-file".into(), format!("reported error names no faulty file: {:?}; faulty files: {:?}", e.replace(&run.prefix, "<BASE>/"), exp.faulty.keys().collect::<Vec<_>>())));
            }
        }
        if errs.len() != exp.faulty.len() {
            return Err((
                "error-count".into(),
                format!("{} errors reported for {} faulty files ({:?}): {:?}", errs.len(), exp.faulty.len(), exp.faulty.keys().collect::<Vec<_>>(), normal_errors(errs, &run.prefix)),
            ));
        }
        Ok(())
    } else {
        // fail-fast: only "nothing wrong is written"
        if exp.faulty.is_empty() {
            if actual != exp.expected {
                let dd = fstree::diff(&exp.expected, &actual, 8);
                return Err((format!("fail-fast-without-faults-differs:{}", mode), dd.join("\n")));
            }
            if !run.errors.is_empty() {
                return Err(("error-for-healthy-file".into(), format!("errors without any faulty file: {:?}", normal_errors(&run.errors, &run.prefix))));
            }
            return Ok(());
        }
        for (p, got) in &actual {
            let ok = initial.get(p) == Some(got) || exp.expected.get(p) == Some(got);
            if !ok {
                let src = exp.dests.iter().find(|(_, dst)| dst == p).map(|(s, _)| s.clone());
                let sig = match &src {
                    Some(s) if exp.faulty.contains_key(s) => "faulty-file-has-output",
                    Some(_) => "healthy-file-wrong-content",
                    None => "unexpected-path-written",
                };
                return Err((
                    format!("{}:fail-fast:{}", sig, mode),
                    format!("`{}` observed {} ; initial {} ; model {}", p, fstree::show_item(got), initial.get(p).map(fstree::show_item).unwrap_or("<nothing>".into()), exp.expected.get(p).map(fstree::show_item).unwrap_or("<nothing>".into())),
                ));
            }
        }
        for p in initial.keys() {
            if !actual.contains_key(p) {
                return Err((format!("path-removed:fail-fast:{}", mode), format!("`{}` disappeared", p)));
            }
        }
        for e in &run.errors {
            let blames_faulty = exp.faulty.values().any(|(_, acceptable)| acceptable.iter().any(|p| names(e, &format!("{}{}", run.prefix, p))));
            if !blames_faulty {
                return Err(("error-for-healthy-file".into(), format!("reported error names no faulty file: {:?}", e.replace(&run.prefix, "<BASE>/"))));
            }
        }
        // the run stops at the first faulty file it meets, and there is one: it has to be reported
        if check_errors && run.errors.is_empty() && run.setup_error.is_none() {
            return Err(("faulty-file-not-reported:fail-fast".into(), format!("no error reported although the work set holds faulty files {:?}", exp.faulty.keys().collect::<Vec<_>>())));
        }
        Ok(())
    }
}

impl Monitor for C11 {
    fn id(&self) -> &'static str {
        "C11"
    }

    fn rule_text(&self) -> String {
        format!(
            "A case is one resource tree (1-12 .lua/.luau files in directories nested <= 3 below the input root, names with spaces, several dots, leading dots, unicode, a root or sub-directory named like a Lua file, \
             non-Lua bystanders, a Lua file outside the input, pre-existing/stale content in the output directory) on the memory or the file-system back end (unique scratch directory), with 0-3 files made faulty \
             (syntax error; invalid UTF-8, destination that is an existing directory, destination parent that is a file, output root that is a file: file-system only; rule error from append_text_comment{{file: missing}} at a random \
             pipeline position; missing require / require of a broken module under bundling), input = directory or single file (also written ./x or x/), output = none (in place) / new path / nested new path / existing directory / file, \
             configuration passed as object or as a file of the tree, fail-fast on/off.  Every work file is first processed alone (input = the file, output = a scratch file) in an untouched copy of the tree; the batch run must produce \
             exactly initial tree + {{mirror(rel f) -> alone(f)}} for healthy files, report exactly one error naming each faulty file, and K=2-6 repetitions with permuted creation/insertion orders (plus, for a fraction of cases, a replay in a fresh process) must give \
             byte-identical trees and error lists.  Under fail-fast with faults only 'every path holds its initial or its model content' is checked.  evaluations = batch runs judged.  The first {} indices are hand-written, seed-independent scenarios.  \
             A case is non-trivial when it has >= 2 work files of which at least one is healthy and transformed (output differs from source), or at least one fault; distinct = hash of (tree paths, fault kinds, input, output, configuration, fail-fast, back end).",
            deterministic_cases().len()
        )
    }

    fn assumptions(&self) -> Vec<String> {
        vec![
            "alone(f) is darklua's own output for f given as single-file input with an explicit output file, in a copy of the same tree (so requires resolve identically); C11 does not judge what the transformation is, only that the batch equals the per-file runs".into(),
            "a `.lua`/`.luau` file is a regular file whose name has a non-empty stem and exactly that lower-case extension; a directory with such a name is a directory (its files are work, the directory itself is neither work nor an error)".into(),
            "for a single-file input with an output path that does not exist and has no extension, both `output` (a file) and `output/<file name>` are accepted".into(),
            "directories created on the way to a destination that could not be written are not judged; everything else in the tree is".into(),
            "an unwritable destination is produced with a directory at the destination or a file in place of a parent directory (the sandbox runs as root, permission bits are ineffective); the error may name the source, the destination or the blocking path".into(),
            "bundling a directory in place (each output becoming an input of its neighbours) is not generated".into(),
            "process-level determinism is sampled: every repetition uses freshly keyed hash maps (std RandomState is re-keyed per map), a fraction of the cases is replayed in a new process".into(),
        ]
    }

    fn plan(&self, tier: Tier) -> Plan {
        Plan { deterministic: deterministic_cases().len() as u64, max_cases: u64::MAX, budget_s: if tier == Tier::Quick { 25.0 } else { 300.0 } }
    }

    fn floors(&self, _tier: Tier) -> Vec<(String, u64)> {
        vec![
            // the file-system share makes the throughput depend on the scratch device (ext4 /tmp: ~1500
            // cases per quick run, tmpfs: ~30000); floors are set for the slow one
            ("held".into(), 60),
            ("distinct_nontrivial".into(), 50),
            ("backend_file_system".into(), 20),
            ("backend_memory".into(), 30),
            ("faulty_files".into(), 60),
            ("repetitions_compared".into(), 70),
        ]
    }

    fn case_cpu_limit_s(&self) -> f64 {
        30.0
    }

    fn gen(&mut self, tier: Tier, seed: u64, index: u64) -> Option<Case> {
        let det = deterministic_cases();
        if (index as usize) < det.len() {
            return Some(det[index as usize].clone());
        }
        Some(gen_random(seed, index, tier))
    }

    fn run(&mut self, case: &Case, cov: &mut Cov) -> Verdict {
        let Some(d) = decode(case) else {
            return Verdict::discard("malformed case");
        };
        if !d.fs && d.nodes.iter().any(|n| !n.is_file() || matches!(&n.item, Item::File(b) if std::str::from_utf8(b).is_err())) {
            return Verdict::discard("memory back end cannot hold this tree");
        }
        // child of a cross-process determinism check: run once, compare digests
        if let Some(want) = &d.expect_digest {
            let run = match run_once(&d, 0) {
                Ok(r) => r,
                Err(v) => return v,
            };
            let text = listing(&run.snap, &normal_errors(&run.errors, &run.prefix));
            let got = format!("{:016x}", hash64(text.as_bytes()));
            cov.eval(None);
            if &got == want {
                return Verdict::Held;
            }
            return Verdict::violated("nondeterministic:fresh-process", format!("a fresh process produced a different tree/error list than the parent process ({} vs {}); this process observed: {}", got, want, text.chars().take(3000).collect::<String>()));
        }

        let mut exp = match expectation(&d, cov, false) {
            Ok(e) => e,
            Err(v) => return v,
        };
        let first = match run_once(&d, 0) {
            Ok(r) => r,
            Err(v) => return v,
        };
        if let Some(e) = &first.setup_error {
            if e.starts_with("config:") {
                return Verdict::discard("configuration rejected");
            }
            // the batch as a whole failed although the per-file runs went through
            return Verdict::violated("batch-aborted", format!("process() returned an error for the batch while the files can be processed one by one: {}", e.replace(&first.prefix, "<BASE>/")));
        }
        let mut verdict = judge(&d, &exp, &first);
        if verdict.is_err() && exp.dests.len() == 1 && d.output.is_some() {
            // single-file input, new path without extension: second reading
            if let Ok(e2) = expectation(&d, cov, true) {
                if e2.dests != exp.dests && judge(&d, &e2, &first).is_ok() {
                    cov.hit("file_input_new_path_taken_as_file");
                    exp = e2;
                    verdict = Ok(());
                }
            }
        }

        // ---- coverage of what was observed
        let nwork = exp.dests.len();
        let nfaulty = exp.faulty.len();
        cov.hit(if d.fs { "backend_file_system" } else { "backend_memory" });
        cov.hit(if d.fail_fast { "fail_fast_on" } else { "fail_fast_off" });
        cov.add("work_files", nwork as u64);
        cov.add("faulty_files", nfaulty as u64);
        cov.add("healthy_files", (nwork - nfaulty) as u64);
        cov.hit(&format!("faulty_per_case_{}", nfaulty.min(4)));
        let initial = fstree::initial_snapshot(d.fs, &d.nodes);
        let input_is_file = matches!(initial.get(&d.input), Some(Item::File(_)));
        cov.hit(if input_is_file { "input_file" } else { "input_directory" });
        let out_mode = match &d.output {
            None => "in_place",
            Some(o) => match initial.get(o) {
                Some(Item::File(_)) => "existing_file",
                Some(Item::Dir) => "existing_directory",
                None if !d.fs && d.nodes.iter().any(|n| fstree::is_under(&n.path, o)) => "existing_directory",
                None => {
                    if has_extension(o) {
                        "new_path_with_extension"
                    } else if o.contains('/') {
                        "new_nested_path"
                    } else {
                        "new_path"
                    }
                }
            },
        };
        cov.hit(&format!("output_{}", out_mode));
        cov.hit(if d.cfg_file.is_some() { "config_from_file" } else { "config_object" });
        let cfg_source: String = match (&d.cfg_text, &d.cfg_file) {
            (Some(t), _) => t.clone(),
            (None, Some(f)) => d.nodes.iter().find(|n| &n.path == f).and_then(|n| match &n.item {
                Item::File(b) => Some(String::from_utf8_lossy(b).to_string()),
                _ => None,
            }).unwrap_or_default(),
            _ => String::new(),
        };
        if cfg_source.contains("\"bundle\"") {
            cov.hit("bundling");
        }
        if !cfg_source.contains("\"rules\"") && !cfg_source.contains("rules:") {
            cov.hit("default_rules");
        }
        let mut transformed = 0u64;
        for (src, dest) in &exp.dests {
            if exp.faulty.contains_key(src) {
                continue;
            }
            if let (Some(a), Some(b)) = (initial.get(src), exp.expected.get(dest)) {
                if a != b {
                    transformed += 1;
                }
            }
            let depth = src.split('/').count().saturating_sub(d.input.split('/').count() + 1);
            cov.hit(&format!("work_file_depth_{}", depth.min(4)));
            let name = fstree::file_name(src);
            if name.contains(' ') {
                cov.hit("name_with_space");
            }
            if !name.is_ascii() {
                cov.hit("name_unicode");
            }
            if name.starts_with('.') {
                cov.hit("name_leading_dot");
            }
            if name.matches('.').count() > 1 {
                cov.hit("name_several_dots");
            }
        }
        cov.add("healthy_files_transformed", transformed);
        for (_, (why, _)) in &exp.faulty {
            let k = if why.starts_with("fails alone: unable to parse") {
                "fault_observed_syntax"
            } else if why.contains("valid UTF-8") || why.contains("IO error") {
                "fault_observed_unreadable"
            } else if why.contains("append_text_comment") {
                "fault_observed_rule_error"
            } else if why.contains("bundler") {
                "fault_observed_bundle_require"
            } else if why.contains("existing directory") {
                "fault_observed_dest_is_directory"
            } else if why.contains("where a directory is needed") {
                "fault_observed_dest_parent_is_file"
            } else {
                "fault_observed_other"
            };
            cov.hit(k);
        }
        if let Some(fl) = case["faults"].as_array() {
            for f in fl {
                let p = f["p"].as_str().unwrap_or("");
                let kind = f["kind"].as_str().unwrap_or("?");
                if kind == "directory-named-like-lua" {
                    cov.hit("directory_named_like_lua_file");
                } else if kind == "output-root-is-a-file" {
                    cov.hit("output_root_is_a_file");
                } else if !exp.faulty.contains_key(p) {
                    cov.hit(&format!("intended_fault_not_effective_{}", kind));
                }
            }
        }
        if d.nodes.iter().any(|n| n.is_file() && fstree::is_under(&n.path, &d.input) && !fstree::is_lua_name(&n.path)) {
            cov.hit("non_lua_bystander_under_input");
        }
        let nontrivial = (nwork >= 2 && transformed >= 1) || nfaulty >= 1;
        if nontrivial {
            let mut paths: Vec<&str> = d.nodes.iter().map(|n| n.path.as_str()).collect();
            paths.sort();
            let nf = json!([paths, exp.faulty.values().map(|f| f.0.chars().take(30).collect::<String>()).collect::<Vec<_>>(), d.input_raw, d.output_raw, d.cfg_text, d.cfg_file, d.fail_fast, d.fs]);
            cov.eval(Some(hash64(nf.to_string().as_bytes())));
            cov.hit("nontrivial_cases");
        } else {
            cov.eval(None);
            cov.hit("trivial_cases");
        }
        if cov.want_sample() && nfaulty >= 1 && nwork >= 3 {
            cov.sample(json!({"input": d.input_raw, "output": d.output_raw, "fs": d.fs, "fail_fast": d.fail_fast, "config": d.cfg_text, "config_file": d.cfg_file,
                "work": exp.dests.iter().map(|(s, t)| json!({"source": s, "destination": t, "faulty": exp.faulty.get(s).map(|f| f.0.clone())})).collect::<Vec<_>>(),
                "errors": normal_errors(&first.errors, &first.prefix)}));
        }

        if let Err((sig, detail)) = verdict {
            return Verdict::violated(sig, format!("input `{}` output {:?} fail_fast={} back end={} configuration {}\n{}", d.input_raw, d.output_raw, d.fail_fast, if d.fs { "file system" } else { "memory" }, d.cfg_text.clone().or(d.cfg_file.clone()).unwrap_or_default(), detail));
        }

        // ---- repetitions: other creation / insertion orders, same process
        let first_errors = normal_errors(&first.errors, &first.prefix);
        let compare_runs = !(d.fail_fast && !exp.faulty.is_empty());
        let first_snap = without_lenient_dirs(&first.snap, &exp);
        for rep in 1..d.reps {
            let run = match run_once(&d, rep) {
                Ok(r) => r,
                Err(v) => return v,
            };
            cov.eval(None);
            if let Err((sig, detail)) = judge(&d, &exp, &run) {
                return Verdict::violated(format!("{}@repetition", sig), format!("repetition {} (creation order permuted): {}", rep, detail));
            }
            if compare_runs {
                cov.hit("repetitions_compared");
                let snap = without_lenient_dirs(&run.snap, &exp);
                let errors = normal_errors(&run.errors, &run.prefix);
                if snap != first_snap {
                    return Verdict::violated("nondeterministic:tree", format!("repetition {} differs: {}", rep, fstree::diff(&first_snap, &snap, 6).join("\n")));
                }
                if errors != first_errors {
                    return Verdict::violated("nondeterministic:errors", format!("repetition {} reports {:?} instead of {:?}", rep, errors, first_errors));
                }
            }
        }

        // ---- the command line program on the same tree (only when a binary is configured)
        if d.fs && !d.fail_fast {
            if let Some(cli) = cli_binary() {
                match run_cli(&cli, &d) {
                    Err(why) => cov.hit(&format!("cli_run_not_judged_{}", why)),
                    Ok((run, code, stderr)) => {
                        cov.eval(None);
                        cov.hit("cli_runs_compared");
                        if let Err((sig, detail)) = judge_with(&d, &exp, &run, false) {
                            return Verdict::violated(format!("cli:{}", sig), format!("`darklua process` on the same tree: {}\nstderr: {}", detail, stderr.replace(&run.prefix, "<BASE>/").chars().take(1500).collect::<String>()));
                        }
                        if (code == 0) != exp.faulty.is_empty() {
                            return Verdict::violated("cli:exit-code", format!("`darklua process` exited with {} although {} files are faulty ({:?})\nstderr: {}", code, exp.faulty.len(), exp.faulty.keys().collect::<Vec<_>>(), stderr.replace(&run.prefix, "<BASE>/").chars().take(1500).collect::<String>()));
                        }
                        for (src, (why, acceptable)) in &exp.faulty {
                            if !acceptable.iter().any(|p| names(&stderr, &format!("{}{}", run.prefix, p))) {
                                return Verdict::violated("cli:faulty-file-not-reported", format!("stderr of `darklua process` does not name `{}` ({}): {}", src, why, stderr.replace(&run.prefix, "<BASE>/").chars().take(1500).collect::<String>()));
                            }
                        }
                    }
                }
            } else {
                cov.hit("cli_not_configured");
            }
        }

        // ---- a fresh process
        if d.subprocess && compare_runs {
            let text = listing(&first.snap, &first_errors);
            let digest = format!("{:016x}", hash64(text.as_bytes()));
            let mut child = case.clone();
            child["expect_digest"] = json!(digest);
            child["subprocess"] = json!(false);
            child["reps"] = json!(1);
            let (status, res) = replay_in_subprocess("C11", &child, &std::env::temp_dir(), 60.0);
            if status != "ok" {
                cov.hit("subprocess_replay_failed");
            } else if res["verdict"] == "violated" {
                return Verdict::violated(
                    "nondeterministic:fresh-process",
                    format!("{}\nthe parent process observed: {}", res["detail"].as_str().unwrap_or(""), text.chars().take(3000).collect::<String>()),
                );
            } else if res["verdict"] == "held" {
                cov.hit("fresh_process_replays_compared");
            } else {
                cov.hit("subprocess_replay_discarded");
            }
        }
        Verdict::Held
    }

    fn shrink(&mut self, case: &Case) -> Vec<Case> {
        let mut out = vec![];
        if case["subprocess"].as_bool() == Some(true) {
            let mut c = case.clone();
            c["subprocess"] = json!(false);
            out.push(c);
        }
        if case["reps"].as_u64().unwrap_or(1) > 1 {
            let mut c = case.clone();
            c["reps"] = json!(1);
            out.push(c);
        }
        if let Some(nodes) = case["nodes"].as_array() {
            for i in 0..nodes.len() {
                let mut n = nodes.clone();
                n.remove(i);
                let mut c = case.clone();
                c["nodes"] = Value::Array(n);
                out.push(c);
            }
        }
        if case["fs"].as_bool() == Some(true) {
            let mut c = case.clone();
            c["fs"] = json!(false);
            out.push(c);
        }
        if case["fail_fast"].as_bool() == Some(true) {
            let mut c = case.clone();
            c["fail_fast"] = json!(false);
            out.push(c);
        }
        // simpler configuration
        if let Some(t) = case["cfg"]["text"].as_str() {
            if let Ok(v) = serde_json::from_str::<Value>(t) {
                if let Some(rules) = v["rules"].as_array() {
                    for i in 0..rules.len() {
                        let mut r = rules.clone();
                        r.remove(i);
                        let mut v2 = v.clone();
                        v2["rules"] = Value::Array(r);
                        let mut c = case.clone();
                        c["cfg"]["text"] = json!(v2.to_string());
                        out.push(c);
                    }
                }
                if v.get("bundle").is_some() {
                    let mut v2 = v.clone();
                    v2.as_object_mut().map(|o| o.remove("bundle"));
                    let mut c = case.clone();
                    c["cfg"]["text"] = json!(v2.to_string());
                    out.push(c);
                }
                if v["generator"] != "retain_lines" {
                    let mut v2 = v.clone();
                    v2["generator"] = json!("retain_lines");
                    let mut c = case.clone();
                    c["cfg"]["text"] = json!(v2.to_string());
                    out.push(c);
                }
            }
        }
        // shorter healthy contents
        if let Some(nodes) = case["nodes"].as_array() {
            for i in 0..nodes.len() {
                if nodes[i]["t"].as_str().map(|t| t.len() > 24).unwrap_or(false) && nodes[i]["p"].as_str().map(fstree::is_lua_name).unwrap_or(false) {
                    let mut c = case.clone();
                    c["nodes"][i]["t"] = json!("return 1 + 1 -- c\n");
                    out.push(c);
                }
            }
        }
        if case["input"].as_str().map(|s| s.starts_with("./") || s.ends_with('/')).unwrap_or(false) {
            let mut c = case.clone();
            c["input"] = json!(normalize_rel(case["input"].as_str().unwrap_or("")));
            out.push(c);
        }
        out
    }

    fn classify(&mut self, case: &Case, signature: &str) -> String {
        // fault kinds of the files that are still part of the (shrunk) tree
        let present: BTreeSet<String> = case["nodes"].as_array().map(|a| a.iter().filter_map(|n| n["p"].as_str().map(|s| s.to_string())).collect()).unwrap_or_default();
        let kinds: BTreeSet<String> = case["faults"]
            .as_array()
            .map(|a| a.iter().filter(|f| f["p"].as_str().map(|p| present.contains(p)).unwrap_or(false)).filter_map(|f| f["kind"].as_str().map(|s| s.to_string())).collect())
            .unwrap_or_default();
        let bundling = case["cfg"]["text"].as_str().map(|t| t.contains("\"bundle\"")).unwrap_or(false);
        format!("{}|{}|{}{}", signature, if case["fs"].as_bool() == Some(true) { "fs" } else { "memory" }, kinds.into_iter().collect::<Vec<_>>().join("+"), if bundling { "|bundle" } else { "" })
    }
}
