//! C02 — dense / readable generators denote the same tree (independent re-parse).

use crate::corpus;
use crate::dl;
use crate::framework::*;
use crate::gen::shrink::shrink_source;
use crate::reflua::ast::*;
use crate::reflua::parser::{parse_block, Mode};
use crate::rng::{hash64, Rng};
use darklua_core::nodes as dn;
use serde_json::{json, Value};

// ------------------------------------------------------------------------------ normal form

/// canonical text of a block: parentheses that cannot change meaning removed, literal spellings
/// replaced by values, call sugar normalised
pub fn norm_block(b: &Block) -> String {
    let mut s = String::new();
    nb(b, &mut s);
    s
}

pub fn norm_expr_top(e: &Expr) -> String {
    let mut s = String::new();
    ne(e, false, &mut s);
    s
}

fn nb(b: &Block, s: &mut String) {
    s.push('{');
    for st in &b.stmts {
        ns(st, s);
        s.push(';');
    }
    s.push('}');
}

fn nlist(es: &[Expr], s: &mut String) {
    s.push('[');
    for (i, e) in es.iter().enumerate() {
        ne(e, i + 1 == es.len(), s);
        s.push(',');
    }
    s.push(']');
}

fn nbind(b: &Binding, s: &mut String) {
    s.push_str(&b.name);
    if let Some(t) = &b.ty {
        s.push(':');
        nt(t, s);
    }
}

fn nfunc(f: &FuncBody, s: &mut String) {
    s.push_str("fn");
    for a in &f.attributes {
        s.push('@');
        s.push_str(a);
    }
    if let Some(g) = &f.generics {
        nt(g, s);
    }
    s.push('(');
    for p in &f.params {
        nbind(p, s);
        s.push(',');
    }
    if f.is_vararg {
        s.push_str("...");
        if let Some(t) = &f.vararg_ty {
            s.push(':');
            nt(t, s);
        }
    }
    s.push(')');
    if let Some(r) = &f.ret_ty {
        s.push_str("->");
        nt(r, s);
    }
    nb(&f.body, s);
}

fn ns(st: &Stmt, s: &mut String) {
    match st {
        Stmt::Local { names, values, is_const } => {
            s.push_str(if *is_const { "const " } else { "local " });
            for n in names {
                nbind(n, s);
                s.push(',');
            }
            s.push('=');
            nlist(values, s);
        }
        Stmt::Assign { targets, values } => {
            s.push_str("assign ");
            for t in targets {
                ne(t, false, s);
                s.push(',');
            }
            s.push('=');
            nlist(values, s);
        }
        Stmt::CompoundAssign { target, op, value } => {
            s.push_str("compound ");
            ne(target, false, s);
            s.push_str(op.text());
            s.push('=');
            ne(value, false, s);
        }
        Stmt::Call(e) => {
            s.push_str("call ");
            ne(e, false, s);
        }
        Stmt::Do(b) => {
            s.push_str("do");
            nb(b, s);
        }
        Stmt::While { cond, body } => {
            s.push_str("while ");
            ne(cond, false, s);
            nb(body, s);
        }
        Stmt::Repeat { body, cond } => {
            s.push_str("repeat");
            nb(body, s);
            ne(cond, false, s);
        }
        Stmt::If { clauses, else_block } => {
            s.push_str("if");
            for (c, b) in clauses {
                s.push('?');
                ne(c, false, s);
                nb(b, s);
            }
            if let Some(b) = else_block {
                s.push_str("else");
                nb(b, s);
            }
        }
        Stmt::NumFor { var, start, limit, step, body } => {
            s.push_str("for ");
            nbind(var, s);
            s.push('=');
            ne(start, false, s);
            s.push(',');
            ne(limit, false, s);
            if let Some(st) = step {
                s.push(',');
                ne(st, false, s);
            }
            nb(body, s);
        }
        Stmt::GenFor { vars, exprs, body } => {
            s.push_str("forin ");
            for v in vars {
                nbind(v, s);
                s.push(',');
            }
            nlist(exprs, s);
            nb(body, s);
        }
        Stmt::Function { name, func } => {
            s.push_str("function ");
            s.push_str(&name.base);
            for f in &name.fields {
                s.push('.');
                s.push_str(f);
            }
            if let Some(m) = &name.method {
                s.push(':');
                s.push_str(m);
            }
            nfunc(func, s);
        }
        Stmt::LocalFunction { name, func } => {
            s.push_str("localfunction ");
            s.push_str(name);
            nfunc(func, s);
        }
        Stmt::Return(es) => {
            s.push_str("return ");
            nlist(es, s);
        }
        Stmt::Break => s.push_str("break"),
        Stmt::Continue => s.push_str("continue"),
        Stmt::TypeDecl { exported, name, generics, ty } => {
            if *exported {
                s.push_str("export ");
            }
            s.push_str("type ");
            s.push_str(name);
            if let Some(g) = generics {
                nt(g, s);
            }
            s.push('=');
            nt(ty, s);
        }
        Stmt::TypeFunction { exported, name, func } => {
            if *exported {
                s.push_str("export ");
            }
            s.push_str("typefunction ");
            s.push_str(name);
            nfunc(func, s);
        }
    }
}

fn nnum(v: f64, s: &mut String) {
    if v.is_nan() {
        s.push_str("#nan");
    } else if v.is_infinite() {
        s.push_str(if v > 0.0 { "#inf" } else { "-(#inf)" });
    } else if v.is_sign_negative() {
        s.push_str(&format!("-(#{:?})", -v));
    } else {
        s.push_str(&format!("#{:?}", v));
    }
}

fn is_num(e: &Expr, v: f64) -> bool {
    matches!(e, Expr::Number(x, _) if *x == v)
}

/// `tail`: the expression is the last of a multi-value list (parentheses around a call matter there)
fn ne(e: &Expr, tail: bool, s: &mut String) {
    match e {
        Expr::Nil => s.push_str("nil"),
        Expr::True => s.push_str("true"),
        Expr::False => s.push_str("false"),
        Expr::Number(v, _) => nnum(*v, s),
        Expr::Str(b, _) => {
            s.push('"');
            for c in b {
                s.push_str(&format!("{:02x}", c));
            }
            s.push('"');
        }
        Expr::Vararg => s.push_str("..."),
        Expr::Function(f) => nfunc(f, s),
        Expr::Name(n) => {
            s.push('$');
            s.push_str(n);
        }
        Expr::Index(a, b) => {
            ne(a, false, s);
            s.push('[');
            ne(b, false, s);
            s.push(']');
        }
        Expr::Field(a, f) => {
            ne(a, false, s);
            s.push('.');
            s.push_str(f);
        }
        Expr::Call { func, args, .. } => {
            ne(func, false, s);
            s.push_str("(");
            nlist(args, s);
            s.push_str(")");
        }
        Expr::MethodCall { obj, name, args, targs, .. } => {
            ne(obj, false, s);
            s.push(':');
            s.push_str(name);
            if let Some(t) = targs {
                nt(t, s);
            }
            s.push_str("(");
            nlist(args, s);
            s.push_str(")");
        }
        Expr::Binary(BinOp::Div, l, r) if is_num(r, 0.0) && (is_num(l, 1.0) || is_num(l, 0.0) || matches!(&**l, Expr::Unary(UnOp::Neg, x) if is_num(x, 1.0))) => {
            // darklua spells infinities and NaN as 1/0, -1/0, 0/0 (the public f64 conversion builds these trees)
            if is_num(l, 1.0) {
                s.push_str("#inf");
            } else if is_num(l, 0.0) {
                s.push_str("#nan");
            } else {
                s.push_str("-(#inf)");
            }
        }
        Expr::Binary(op, a, b) => {
            s.push('(');
            ne(a, false, s);
            s.push(' ');
            s.push_str(op.text());
            s.push(' ');
            ne(b, false, s);
            s.push(')');
        }
        Expr::Unary(op, a) => {
            s.push_str(op.text());
            s.push('(');
            ne(a, false, s);
            s.push(')');
        }
        Expr::Paren(a) => {
            // the writer spells infinities and NaN as (1/0), (-1/0), (0/0)
            if let Expr::Binary(BinOp::Div, l, r) = &**a {
                if is_num(r, 0.0) {
                    if is_num(l, 1.0) {
                        s.push_str("#inf");
                        return;
                    }
                    if is_num(l, 0.0) {
                        s.push_str("#nan");
                        return;
                    }
                    if let Expr::Unary(UnOp::Neg, x) = &**l {
                        if is_num(x, 1.0) {
                            s.push_str("-(#inf)");
                            return;
                        }
                    }
                }
            }
            let inner_multi = a.is_multi();
            if inner_multi && tail {
                s.push_str("one(");
                ne(a, false, s);
                s.push(')');
            } else {
                ne(a, false, s);
            }
        }
        Expr::Table(items) => {
            s.push('{');
            let n = items.len();
            for (i, it) in items.iter().enumerate() {
                match it {
                    TableItem::Pos(v) => ne(v, i + 1 == n, s),
                    TableItem::Named(k, v) => {
                        s.push_str(k);
                        s.push('=');
                        ne(v, false, s);
                    }
                    TableItem::Keyed(k, v) => {
                        s.push('[');
                        ne(k, false, s);
                        s.push_str("]=");
                        ne(v, false, s);
                    }
                }
                s.push(',');
            }
            s.push('}');
        }
        Expr::IfExpr { clauses, else_ } => {
            s.push_str("ifx(");
            for (c, v) in clauses {
                ne(c, false, s);
                s.push('?');
                ne(v, false, s);
                s.push(';');
            }
            ne(else_, false, s);
            s.push(')');
        }
        Expr::Interp(parts) => {
            s.push('`');
            let mut pending: Vec<u8> = vec![];
            for p in parts {
                match p {
                    InterpPart::Str(b) => pending.extend_from_slice(b),
                    InterpPart::Expr(e) => {
                        for c in &pending {
                            s.push_str(&format!("{:02x}", c));
                        }
                        pending.clear();
                        s.push('{');
                        ne(e, false, s);
                        s.push('}');
                    }
                }
            }
            for c in &pending {
                s.push_str(&format!("{:02x}", c));
            }
            s.push('`');
        }
        Expr::Cast(a, t) => {
            s.push_str("cast(");
            ne(a, false, s);
            s.push_str("::");
            nt(t, s);
            s.push(')');
        }
        Expr::TypeInstantiation(a, t) => {
            ne(a, false, s);
            s.push_str("<<");
            nt(t, s);
            s.push_str(">>");
        }
    }
}

fn nt(t: &Ty, s: &mut String) {
    match t.kind {
        "paren" => nt(&t.kids[0], s),
        "union" | "intersection" if t.kids.len() == 1 => nt(&t.kids[0], s),
        _ => {
            s.push('<');
            s.push_str(t.kind);
            if !t.text.is_empty() {
                s.push(':');
                s.push_str(&t.text);
            }
            for k in &t.kids {
                if k.kind == "empty_params" {
                    continue;
                }
                s.push(' ');
                nt(k, s);
            }
            for e in &t.exprs {
                s.push(' ');
                ne(e, false, s);
            }
            s.push('>');
        }
    }
}

// ------------------------------------------------------------------------------ tree flow

fn dl_binop(op: BinOp) -> dn::BinaryOperator {
    use dn::BinaryOperator as B;
    match op {
        BinOp::Or => B::Or,
        BinOp::And => B::And,
        BinOp::Lt => B::LowerThan,
        BinOp::Gt => B::GreaterThan,
        BinOp::Le => B::LowerOrEqualThan,
        BinOp::Ge => B::GreaterOrEqualThan,
        BinOp::Ne => B::NotEqual,
        BinOp::Eq => B::Equal,
        BinOp::Concat => B::Concat,
        BinOp::Add => B::Plus,
        BinOp::Sub => B::Minus,
        BinOp::Mul => B::Asterisk,
        BinOp::Div => B::Slash,
        BinOp::IDiv => B::DoubleSlash,
        BinOp::Mod => B::Percent,
        BinOp::Pow => B::Caret,
    }
}

/// reflua expression (without Paren nodes where the generator must decide) -> darklua expression
pub fn to_darklua(e: &Expr) -> Option<dn::Expression> {
    Some(match e {
        Expr::Nil => dn::Expression::nil(),
        Expr::True => dn::Expression::from(true),
        Expr::False => dn::Expression::from(false),
        // the public conversion (negative values become a unary minus, as everywhere in darklua)
        Expr::Number(v, _) => dn::Expression::from(*v),
        Expr::Str(b, _) => dn::StringExpression::from_value(b.clone()).into(),
        Expr::Vararg => dn::Expression::variable_arguments(),
        Expr::Name(n) => dn::Identifier::new(n.clone()).into(),
        Expr::Binary(op, a, b) => dn::BinaryExpression::new(dl_binop(*op), to_darklua(a)?, to_darklua(b)?).into(),
        Expr::Unary(op, a) => {
            let o = match op {
                UnOp::Neg => dn::UnaryOperator::Minus,
                UnOp::Not => dn::UnaryOperator::Not,
                UnOp::Len => dn::UnaryOperator::Length,
            };
            dn::UnaryExpression::new(o, to_darklua(a)?).into()
        }
        Expr::Paren(a) => dn::ParentheseExpression::new(to_darklua(a)?).into(),
        Expr::Field(a, f) => dn::FieldExpression::new(to_prefix(a)?, dn::Identifier::new(f.clone())).into(),
        Expr::Index(a, k) => dn::IndexExpression::new(to_prefix(a)?, to_darklua(k)?).into(),
        Expr::Call { func, args, .. } => {
            let mut v = vec![];
            for a in args {
                v.push(to_darklua(a)?);
            }
            dn::FunctionCall::new(to_prefix(func)?, dn::TupleArguments::new(v).into(), None).into()
        }
        Expr::MethodCall { obj, name, args, .. } => {
            let mut v = vec![];
            for a in args {
                v.push(to_darklua(a)?);
            }
            dn::FunctionCall::new(to_prefix(obj)?, dn::TupleArguments::new(v).into(), Some(dn::Identifier::new(name.clone()))).into()
        }
        Expr::Table(items) => {
            let mut entries = vec![];
            for it in items {
                entries.push(match it {
                    TableItem::Pos(v) => dn::TableEntry::from_value(to_darklua(v)?),
                    TableItem::Named(k, v) => dn::TableFieldEntry::new(dn::Identifier::new(k.clone()), to_darklua(v)?).into(),
                    TableItem::Keyed(k, v) => dn::TableIndexEntry::new(to_darklua(k)?, to_darklua(v)?).into(),
                });
            }
            dn::TableExpression::new(entries).into()
        }
        Expr::IfExpr { clauses, else_ } => {
            let (c0, v0) = &clauses[0];
            let mut ie = dn::IfExpression::new(to_darklua(c0)?, to_darklua(v0)?, to_darklua(else_)?);
            for (c, v) in &clauses[1..] {
                ie = ie.with_branch(to_darklua(c)?, to_darklua(v)?);
            }
            ie.into()
        }
        Expr::Interp(parts) => {
            let mut is = dn::InterpolatedStringExpression::empty();
            for p in parts {
                match p {
                    InterpPart::Str(b) => is = is.with_segment(dn::StringSegment::from_value(b.clone())),
                    InterpPart::Expr(e) => is = is.with_segment(dn::ValueSegment::new(to_darklua(e)?)),
                }
            }
            is.into()
        }
        _ => return None,
    })
}

fn to_prefix(e: &Expr) -> Option<dn::Prefix> {
    Some(match e {
        Expr::Name(n) => dn::Prefix::from_name(n.clone()),
        Expr::Field(a, f) => dn::Prefix::Field(Box::new(dn::FieldExpression::new(to_prefix(a)?, dn::Identifier::new(f.clone())))),
        Expr::Index(a, k) => dn::Prefix::Index(Box::new(dn::IndexExpression::new(to_prefix(a)?, to_darklua(k)?))),
        Expr::Call { .. } | Expr::MethodCall { .. } => match to_darklua(e)? {
            dn::Expression::Call(c) => dn::Prefix::Call(c),
            _ => return None,
        },
        Expr::Paren(a) => dn::Prefix::Parenthese(Box::new(dn::ParentheseExpression::new(to_darklua(a)?))),
        other => dn::Prefix::Parenthese(Box::new(dn::ParentheseExpression::new(to_darklua(other)?))),
    })
}

fn leaf(i: usize) -> Expr {
    // alternate identifiers, numbers, strings, varargs, calls so that literal adjacency is exercised
    match i % 9 {
        0 => Expr::name("a"),
        1 => Expr::num(1.0),
        2 => Expr::name("b"),
        3 => Expr::num(0.5),
        4 => Expr::str("s"),
        5 => Expr::Vararg,
        6 => Expr::call(Expr::name("f"), vec![]),
        7 => Expr::num(-2.0),
        _ => Expr::field(Expr::name("t"), "x"),
    }
}

/// the i-th tree of the deterministic enumeration; None when exhausted
pub fn enum_tree(i: u64) -> Option<Expr> {
    let n = BinOp::ALL.len() as u64; // 16
    let mut i = i;
    // block 1: pairs, two nestings, 3 leaf rotations
    let b1 = n * n * 2 * 3;
    if i < b1 {
        let rot = (i % 3) as usize;
        i /= 3;
        let shape = i % 2;
        i /= 2;
        let o1 = BinOp::ALL[(i % n) as usize];
        let o2 = BinOp::ALL[(i / n) as usize];
        // rotations cover all nine leaf kinds (identifier, numbers incl. a negative literal, string, varargs, call, field)
        let (a, b, c) = (leaf(rot * 3 + 1), leaf(rot * 3 + 2), leaf(rot * 3 + 3));
        return Some(if shape == 0 { Expr::bin(o1, Expr::bin(o2, a, b), c) } else { Expr::bin(o1, a, Expr::bin(o2, b, c)) });
    }
    i -= b1;
    // block 2: triples, five shapes
    let b2 = n * n * n * 5;
    if i < b2 {
        let shape = i % 5;
        i /= 5;
        let o1 = BinOp::ALL[(i % n) as usize];
        let o2 = BinOp::ALL[((i / n) % n) as usize];
        let o3 = BinOp::ALL[(i / (n * n)) as usize];
        let (a, b, c, d) = (leaf(0), leaf(1), leaf(2), leaf(3));
        return Some(match shape {
            0 => Expr::bin(o1, Expr::bin(o2, Expr::bin(o3, a, b), c), d),
            1 => Expr::bin(o1, Expr::bin(o2, a, Expr::bin(o3, b, c)), d),
            2 => Expr::bin(o1, Expr::bin(o2, a, b), Expr::bin(o3, c, d)),
            3 => Expr::bin(o1, a, Expr::bin(o2, Expr::bin(o3, b, c), d)),
            _ => Expr::bin(o1, a, Expr::bin(o2, b, Expr::bin(o3, c, d))),
        });
    }
    i -= b2;
    // block 3: unary operators around / inside binaries, unary chains
    let un = [UnOp::Neg, UnOp::Not, UnOp::Len];
    let b3 = n * 3 * 3 * 4;
    if i < b3 {
        let lf = (i % 4) as usize;
        i /= 4;
        let pos = i % 3;
        i /= 3;
        let u = un[(i % 3) as usize];
        let o = BinOp::ALL[(i / 3) as usize];
        let (a, b) = (leaf(lf), leaf(lf + 1));
        return Some(match pos {
            0 => Expr::un(u, Expr::bin(o, a, b)),
            1 => Expr::bin(o, Expr::un(u, a), b),
            _ => Expr::bin(o, a, Expr::un(u, b)),
        });
    }
    i -= b3;
    let b4 = 3 * 3 * 3 * 9;
    if i < b4 {
        let lf = (i % 9) as usize;
        i /= 9;
        let u1 = un[(i % 3) as usize];
        let u2 = un[((i / 3) % 3) as usize];
        let u3 = un[(i / 9) as usize];
        return Some(Expr::un(u1, Expr::un(u2, Expr::un(u3, leaf(lf)))));
    }
    i -= b4;
    // block 5: if-expressions, interpolated strings, odd numbers, in operand position
    let special: Vec<Expr> = vec![
        Expr::IfExpr { clauses: vec![(Expr::name("c"), Expr::num(1.0))], else_: Box::new(Expr::num(2.0)) },
        Expr::IfExpr { clauses: vec![(Expr::name("c"), Expr::name("x")), (Expr::name("d"), Expr::name("y"))], else_: Box::new(Expr::bin(BinOp::Add, Expr::name("z"), Expr::num(1.0))) },
        Expr::Interp(vec![InterpPart::Str(b"a{".to_vec()), InterpPart::Expr(Expr::name("x")), InterpPart::Str(b"`\\\n".to_vec())]),
        Expr::Interp(vec![InterpPart::Expr(Expr::Table(vec![]))]),
        Expr::num(f64::INFINITY),
        Expr::num(f64::NEG_INFINITY),
        Expr::num(f64::NAN),
        Expr::num(-0.0),
        Expr::num(1e100),
        Expr::num(1e-7),
        Expr::num(5e-324),
        Expr::num(123456789012345680000.0),
        Expr::num(0.1),
        Expr::Str(b"]]".to_vec(), String::new()),
        Expr::Str(b"a\nb\nc\nd\ne\nf\ng\nh".to_vec(), String::new()),
        Expr::Table(vec![TableItem::Keyed(Expr::Str(b"long [[ string\n\n\n\n\n\n".to_vec(), String::new()), Expr::num(1.0))]),
        Expr::index(Expr::name("t"), Expr::Str(b"x\n\n\n\n\n\ny".to_vec(), String::new())),
        Expr::Function(std::rc::Rc::new(FuncBody { params: vec![], is_vararg: true, vararg_ty: None, generics: None, ret_ty: None, body: Block { stmts: vec![Stmt::Return(vec![Expr::Vararg])] }, attributes: vec![] })),
        // strings long enough for the long-bracket form (>= 60 bytes, or >= 20 bytes with 6 line feeds) holding every kind of
        // ASCII white space and bracket runs: the literal must still denote the same bytes
        Expr::Str(b"usage: tool [options] <file>\r\n  -h  show this help\r\n  -v  verbose output\r\n".to_vec(), String::new()),
        Expr::Str(b"column one\tcolumn two\tcolumn three\tcolumn four\tcolumn five\x0bend\x0cpage".to_vec(), String::new()),
        Expr::Str(b"one\rtwo\rthree\rfour\rfive\rsix\rseven\reight\rnine\rten\releven\rtwelve\r".to_vec(), String::new()),
        Expr::Str(b"l1\nl2\r\nl3\nl4\nl5\nl6\nl7 ]] ]=] ]==]".to_vec(), String::new()),
        Expr::Str(b"a long text that closes brackets ]] and ]=] and even ]==] before it ends with ]".to_vec(), String::new()),
        Expr::Str(b"\nfirst character is a line feed and the text is long enough for the bracket form".to_vec(), String::new()),
        // bytes >= 0x80: valid UTF-8 text, bytes that are not UTF-8, a single high byte, and non-ASCII text inside an
        // interpolated string
        Expr::Str("caf\u{e9} \u{20ac} \u{65e5}\u{672c}".as_bytes().to_vec(), String::new()),
        Expr::Str(vec![0xff, 0xd8, 0xff, 0xe0, b'1'], String::new()),
        Expr::Str(vec![0xff], String::new()),
        Expr::Interp(vec![InterpPart::Str("Prix: ".as_bytes().to_vec()), InterpPart::Expr(Expr::name("x")), InterpPart::Str(" \u{20ac} (caf\u{e9})".as_bytes().to_vec())]),
    ];
    let ns = special.len() as u64;
    let b5 = ns * n * 2 + ns * 3 + ns;
    if i < b5 {
        if i < ns * n * 2 {
            let side = i % 2;
            i /= 2;
            let o = BinOp::ALL[(i % n) as usize];
            let sp = special[(i / n) as usize].clone();
            return Some(if side == 0 { Expr::bin(o, sp, Expr::name("a")) } else { Expr::bin(o, Expr::num(3.0), sp) });
        }
        i -= ns * n * 2;
        if i < ns * 3 {
            let u = un[(i % 3) as usize];
            return Some(Expr::un(u, special[(i / 3) as usize].clone()));
        }
        i -= ns * 3;
        return Some(special[i as usize].clone());
    }
    None
}

/// pairs of statements whose last / first tokens meet every combination of character classes: the generator has to keep
/// them apart (`a1` followed by `_f()` must not become `a1_f()`)
pub fn boundary_pairs() -> Vec<String> {
    let firsts = [
        "local x = 1", "local x = a1", "local x = a_", "local x = 0x1f", "local x = 1e1", "local x = .5", "local x = 5.", "x = a.b1", "f(a1)", "x = 'a'", "x = {}", "x = a[1]", "local x = ...", "x = 5 .. a", "x = #a", "x = -1", "x = not a", "local x = nil", "x = function() end",
        "local x: number = 1", "x = a :: any", "x += a1", "x = `a{b}`", "return_ = 1", "break_ = 1", "goto_ = 1",
        // last values that a following `(` would continue (call / index / instantiation / parenthesised ...)
        "local x = f<<number>>", "x = f<<number, string>>", "x = a.b", "x = f()", "x = (a)", "x = a:m()", "x = f 'a'", "x = f {}", "x += f<<T>>", "repeat until f<<T>>", "local x = -a", "x = not f<<T>>",
    ];
    let seconds = [
        "_f()", "_G.v = 1", "__ = 1", "f()", "local _ = 1", "return", "e1()", "E = 1", "x1 = 1", "do end", "if a then end", "while a do end", "a.b = 1", "a:b()", "repeat until a", "for i = 1, 2 do end", "function f() end", "local function g() end", "and_ = 1", "or_ = 1", "in_ = 1",
        "type T = number", "export type U = string", "continue_ = 1", "x ..= 'a'",
        "(g)()", "(t).x = 1", "(t)[1] += 1", "(g):m()",
    ];
    let mut v = vec![];
    for a in firsts {
        for b in seconds {
            // (a statement starting with `(` continues the previous one unless a `;` separates them)
            v.push(format!("{}{}\n{}\n", a, if b.starts_with('(') { ";" } else { "" }, b));
        }
    }
    v
}

/// thorough tier: every chain of four binary operators over five leaves in six nestings (16^4 x 6 trees)
pub fn enum4_count() -> u64 {
    let n = BinOp::ALL.len() as u64;
    n * n * n * n * 6
}

pub fn enum4_tree(i: u64) -> Option<Expr> {
    if i >= enum4_count() {
        return None;
    }
    let n = BinOp::ALL.len() as u64;
    let shape = i % 6;
    let mut k = i / 6;
    let o1 = BinOp::ALL[(k % n) as usize];
    k /= n;
    let o2 = BinOp::ALL[(k % n) as usize];
    k /= n;
    let o3 = BinOp::ALL[(k % n) as usize];
    k /= n;
    let o4 = BinOp::ALL[(k % n) as usize];
    let l = |s: &str| Expr::name(s);
    let (a, b, c, d, e) = (l("a"), Expr::num(2.0), l("c"), Expr::Str(b"s".to_vec(), String::new()), l("e"));
    Some(match shape {
        0 => Expr::bin(o1, Expr::bin(o2, Expr::bin(o3, Expr::bin(o4, a, b), c), d), e),
        1 => Expr::bin(o1, a, Expr::bin(o2, b, Expr::bin(o3, c, Expr::bin(o4, d, e)))),
        2 => Expr::bin(o1, Expr::bin(o2, a, b), Expr::bin(o3, c, Expr::bin(o4, d, e))),
        3 => Expr::bin(o1, Expr::bin(o2, a, Expr::bin(o3, b, c)), Expr::bin(o4, d, e)),
        4 => Expr::bin(o1, a, Expr::bin(o2, Expr::bin(o3, b, c), Expr::bin(o4, d, e))),
        _ => Expr::bin(o1, Expr::bin(o2, Expr::bin(o3, a, b), Expr::bin(o4, c, d)), e),
    })
}

/// number of entries of the `special` operand list of `enum_tree`
const SPECIALS: u64 = 28;

pub fn enum_count() -> u64 {
    let n = 16u64;
    n * n * 2 * 3 + n * n * n * 5 + n * 3 * 3 * 4 + 3 * 3 * 3 * 9 + SPECIALS * n * 2 + SPECIALS * 3 + SPECIALS
}

fn random_tree(r: &mut Rng, depth: u32) -> Expr {
    if depth == 0 || r.chance(1, 4) {
        return leaf(r.below(9));
    }
    match r.below(10) {
        0..=5 => Expr::bin(*r.pick(&BinOp::ALL), random_tree(r, depth - 1), random_tree(r, depth - 1)),
        6 | 7 => Expr::un(*r.pick(&[UnOp::Neg, UnOp::Not, UnOp::Len]), random_tree(r, depth - 1)),
        8 => Expr::IfExpr { clauses: vec![(random_tree(r, depth - 1), random_tree(r, depth - 1))], else_: Box::new(random_tree(r, depth - 1)) },
        _ => Expr::call(Expr::name("g"), vec![random_tree(r, depth - 1), random_tree(r, depth - 1)]),
    }
}

const BATCH: u64 = 48;

#[derive(Default)]
pub struct C02 {
    corpus: Vec<corpus::CorpusItem>,
    loaded: bool,
}

impl C02 {
    fn load(&mut self) {
        if !self.loaded {
            self.loaded = true;
            for it in corpus::load() {
                if it.text.len() < 20000 && matches!(guarded(|| dl::parse(&it.text).is_ok()), Ok(true)) && parse_block(&it.text, Mode::Luau).is_ok() {
                    self.corpus.push(it);
                }
            }
        }
    }
}

fn spans_for(r: &mut Rng) -> Vec<usize> {
    vec![80, *r.pick(&[0usize, 1, 2, 5, 10, 20, 40, 120]), r.below(121)]
}

/// check one darklua block against the expected normal form
fn check_generated(block: &dn::Block, expected: &str, strict51_ok: bool, label: &str, cov: &mut Cov, spans: &[usize]) -> Result<(), (String, String)> {
    for gen in ["dense", "readable"] {
        // reference rendering at a span where nothing wraps
        let wide = if gen == "dense" { dl::gen_dense(block, 100_000) } else { dl::gen_readable(block, 100_000) };
        for &span in spans {
            let text = if gen == "dense" { dl::gen_dense(block, span) } else { dl::gen_readable(block, span) };
            cov.hit(&format!("generated:{}", gen));
            let parsed = match parse_block(&text, Mode::Luau) {
                Ok(b) => b,
                Err(e) => return Err((format!("{}:unparsable", gen), format!("{} (span {}) output is rejected by the reference parser: {}\n--- {}\n--- output\n{}", gen, span, e, label, text))),
            };
            let got = norm_block(&parsed);
            if got != expected {
                return Err((format!("{}:different-tree", gen), format!("{} (span {}) output denotes a different tree\n--- {}\n--- output\n{}\n--- expected normal form\n{}\n--- got\n{}", gen, span, label, text, expected, got)));
            }
            if strict51_ok && parse_block(&text, Mode::Strict51).err().map(|e| e.msg.contains("ambiguous syntax")).unwrap_or(false) {
                let e = parse_block(&text, Mode::Strict51).err().unwrap();
                return Err((format!("{}:not-lua51", gen), format!("{} (span {}) output of a pure Lua 5.1 tree is not accepted by the Lua 5.1 grammar: {}\n--- {}\n--- output\n{}", gen, span, e, label, text)));
            }
            // line-break monitor: same code tokens as the unwrapped rendering
            if let (Ok(a), Ok(b)) = (crate::reflua::lexer::lex(&text, true), crate::reflua::lexer::lex(&wide, true)) {
                if a.code_tokens() != b.code_tokens() {
                    return Err((format!("{}:line-break-changes-tokens", gen), format!("{} at span {} and at an unlimited span produce different tokens\n--- span {}\n{}\n--- unlimited\n{}", gen, span, span, text, wide)));
                }
            }
        }
    }
    Ok(())
}

impl Monitor for C02 {
    fn id(&self) -> &'static str {
        "C02"
    }
    fn rule_text(&self) -> String {
        format!("tree flow (exhaustive, seed independent): {} expression trees built directly as darklua nodes WITHOUT parenthese nodes — all binary operator pairs in both nestings x 3 leaf rotations, all operator triples in the 5 association shapes, unary operators around/inside binaries, unary chains of length 3, if-expressions / interpolated strings / odd numbers (inf, nan, -0, huge, tiny) / long strings in operand position — each written by dense and readable at 3 column spans and re-read by the independent parser; the normal form of the re-read tree must equal the enumerated tree. Text flow: every corpus file and generated programs (Luau and typed programs included) parsed by darklua, written by both generators at spans {{80, one of 0/1/2/5/10/20/40/120, random 0..120}}, re-read by the independent parser and compared with the independent parse of the source; output of pure Lua 5.1 input must satisfy the Lua 5.1 grammar (ambiguous call/new statement rule); a wrapped rendering must have the same code tokens as the unwrapped one. Non-trivial = tree with at least one operator nesting or a statement; distinct = hash of the tree/source.", enum_count())
    }
    fn assumptions(&self) -> Vec<String> {
        vec!["the independent parser reflua defines 'the same tree' (validated against darklua's parser on 1500 corpus files: no acceptance disagreement)".into(), "parentheses are significant only around calls/varargs in a multi-value tail position".into()]
    }
    fn exhaustive_note(&self, tier: Tier) -> Option<String> {
        if tier == Tier::Thorough {
            Some(format!("tree flow enumerated completely: {} trees x 2 generators x 3 spans, plus all {} chains of four binary operators in six nestings", enum_count(), enum4_count()))
        } else {
            Some(format!("tree flow enumerated completely: {} trees x 2 generators x 3 spans", enum_count()))
        }
    }
    fn plan(&self, tier: Tier) -> Plan {
        let mut me = C02::default();
        me.load();
        let d4 = if tier == Tier::Thorough { (enum4_count() + BATCH - 1) / BATCH } else { 0 };
        let det = (enum_count() + BATCH - 1) / BATCH + me.corpus.len() as u64 + boundary_pairs().len() as u64 + d4;
        Plan { deterministic: det, max_cases: u64::MAX, budget_s: if tier == Tier::Quick { 40.0 } else { 600.0 } }
    }
    fn floors(&self, _tier: Tier) -> Vec<(String, u64)> {
        vec![("trees_checked".into(), 5000), ("held".into(), 300)]
    }
    fn gen(&mut self, tier: Tier, seed: u64, index: u64) -> Option<Case> {
        self.load();
        let nb = (enum_count() + BATCH - 1) / BATCH;
        if index < nb {
            return Some(json!({"kind": "enum", "from": index * BATCH, "to": ((index + 1) * BATCH).min(enum_count())}));
        }
        let i = (index - nb) as usize;
        if i < self.corpus.len() {
            return Some(json!({"kind": "text", "origin": format!("corpus:{}", self.corpus[i].name), "src": self.corpus[i].text, "spans": [80, 0, 17]}));
        }
        let i = i - self.corpus.len();
        let pairs = boundary_pairs();
        if i < pairs.len() {
            return Some(json!({"kind": "text", "origin": "boundary-pair", "src": pairs[i], "spans": [80, 0, 1, 9]}));
        }
        let i = i - pairs.len();
        if tier == Tier::Thorough {
            let j = i as u64;
            let nb4 = (enum4_count() + BATCH - 1) / BATCH;
            if j < nb4 {
                return Some(json!({"kind": "enum4", "from": j * BATCH, "to": ((j + 1) * BATCH).min(enum4_count())}));
            }
        }
        let mut r = case_rng("C02", seed, index);
        if r.chance(1, 3) {
            // random deeper trees
            let t = random_tree(&mut r, 5);
            let text = crate::reflua::print::print_expr(&t);
            return Some(json!({"kind": "tree", "expr": text, "spans": spans_for(&mut r)}));
        }
        let luau = r.bool();
        let (src, _) = { let ty = luau && r.bool(); super::textmon::generated_source(&mut r, luau, ty) };
        Some(json!({"kind": "text", "origin": "gen", "src": src, "spans": spans_for(&mut r)}))
    }

    fn run(&mut self, case: &Case, cov: &mut Cov) -> Verdict {
        match case["kind"].as_str() {
            Some("enum") => {
                let from = case["from"].as_u64().unwrap_or(0);
                let to = case["to"].as_u64().unwrap_or(0);
                for i in from..to {
                    let Some(t) = enum_tree(i) else { break };
                    if let Err((sig, detail)) = self.check_tree(&t, &[80, 1, 7], cov) {
                        return Verdict::Violated { signature: sig, detail, narrowed: Some(json!({"kind": "enum", "from": i, "to": i + 1})) };
                    }
                }
                Verdict::Held
            }
            Some("enum4") => {
                let from = case["from"].as_u64().unwrap_or(0);
                let to = case["to"].as_u64().unwrap_or(0);
                for i in from..to {
                    let Some(t) = enum4_tree(i) else { break };
                    if let Err((sig, detail)) = self.check_tree(&t, &[80, 3], cov) {
                        return Verdict::Violated { signature: sig, detail, narrowed: Some(json!({"kind": "enum4", "from": i, "to": i + 1})) };
                    }
                }
                Verdict::Held
            }
            Some("tree") => {
                let text = case["expr"].as_str().unwrap_or("nil");
                let Ok(t) = crate::reflua::parser::parse_expr(text, Mode::Luau) else { return Verdict::discard("harness tree text does not parse") };
                let t = strip_parens(&t);
                let spans: Vec<usize> = case["spans"].as_array().map(|a| a.iter().filter_map(|x| x.as_u64().map(|v| v as usize)).collect()).unwrap_or_else(|| vec![80]);
                match self.check_tree(&t, &spans, cov) {
                    Ok(()) => Verdict::Held,
                    Err((sig, detail)) => Verdict::violated(sig, detail),
                }
            }
            _ => {
                let src = case["src"].as_str().unwrap_or("");
                let spans: Vec<usize> = case["spans"].as_array().map(|a| a.iter().filter_map(|x| x.as_u64().map(|v| v as usize)).collect()).unwrap_or_else(|| vec![80]);
                let Ok(block) = dl::parse(src) else { return Verdict::discard("darklua's parser rejects the input") };
                let Ok(rb) = parse_block(src, Mode::Luau) else { return Verdict::discard("reference parser rejects the input") };
                let expected = norm_block(&rb);
                let strict = parse_block(src, Mode::Strict51).is_ok();
                match check_generated(&block, &expected, strict, &format!("source\n{}", src), cov, &spans) {
                    Ok(()) => {
                        cov.hit("texts_checked");
                        cov.eval(Some(hash64(src.as_bytes())));
                        if cov.want_sample() && src.len() < 300 {
                            cov.sample(json!({"source": src, "dense": dl::gen_dense(&block, spans[0]), "spans": spans}));
                        }
                        Verdict::Held
                    }
                    Err((sig, detail)) => Verdict::violated(sig, detail),
                }
            }
        }
    }

    fn classify(&mut self, case: &Case, signature: &str) -> String {
        // name the tree shape (identifiers and literal values abstracted) for single-tree cases
        let tree = match case["kind"].as_str() {
            Some("enum") => {
                let from = case["from"].as_u64().unwrap_or(0);
                if case["to"].as_u64() == Some(from + 1) {
                    enum_tree(from)
                } else {
                    None
                }
            }
            Some("enum4") => {
                let from = case["from"].as_u64().unwrap_or(0);
                if case["to"].as_u64() == Some(from + 1) {
                    enum4_tree(from)
                } else {
                    None
                }
            }
            Some("tree") => crate::reflua::parser::parse_expr(case["expr"].as_str().unwrap_or("nil"), Mode::Luau).ok(),
            _ => None,
        };
        match tree {
            Some(t) => {
                let mut shape = norm_expr_top(&t);
                if shape.len() > 90 {
                    shape.truncate(90);
                }
                format!("{}|{}", signature, shape)
            }
            None => {
                let src = case["src"].as_str().unwrap_or("");
                if src.contains("<<") || src.contains("< <") {
                    if let Ok(b) = parse_block(src, Mode::Luau) {
                        if norm_block(&b).contains("<instantiation") && norm_block(&b).contains(":") {
                            return format!("{}|method-call-type-instantiation", signature);
                        }
                    }
                }
                signature.to_string()
            }
        }
    }

    fn shrink(&mut self, case: &Case) -> Vec<Case> {
        let mut out: Vec<Value> = vec![];
        if case["kind"] == "text" {
            let src = case["src"].as_str().unwrap_or("");
            for s in shrink_source(src, 300) {
                let mut c = case.clone();
                c["src"] = json!(s);
                out.push(c);
            }
            if let Some(sp) = case["spans"].as_array() {
                if sp.len() > 1 {
                    for s in sp {
                        let mut c = case.clone();
                        c["spans"] = json!([s]);
                        out.push(c);
                    }
                }
            }
        } else if case["kind"] == "tree" {
            let text = case["expr"].as_str().unwrap_or("nil");
            for s in shrink_source(&format!("return {}", text), 200) {
                if let Some(e) = s.trim().strip_prefix("return") {
                    let mut c = case.clone();
                    c["expr"] = json!(e.trim());
                    out.push(c);
                }
            }
        }
        out
    }
}

fn strip_parens(e: &Expr) -> Expr {
    match e {
        Expr::Paren(a) if !a.is_multi() => strip_parens(a),
        Expr::Binary(op, a, b) => Expr::bin(*op, strip_parens(a), strip_parens(b)),
        Expr::Unary(op, a) => Expr::un(*op, strip_parens(a)),
        Expr::IfExpr { clauses, else_ } => Expr::IfExpr { clauses: clauses.iter().map(|(c, v)| (strip_parens(c), strip_parens(v))).collect(), else_: Box::new(strip_parens(else_)) },
        Expr::Call { func, args, sugar } => Expr::Call { func: func.clone(), args: args.iter().map(strip_parens).collect(), sugar: *sugar },
        other => other.clone(),
    }
}

impl C02 {
    fn check_tree(&mut self, t: &Expr, spans: &[usize], cov: &mut Cov) -> Result<(), (String, String)> {
        let Some(de) = to_darklua(t) else {
            cov.hit("tree_not_convertible");
            return Ok(());
        };
        let de2 = de.clone();
        let block = dn::Block::default().with_last_statement(dn::ReturnStatement::one(de));
        // expected: the tree itself, as `return <tree>`
        let expected = norm_block(&Block { stmts: vec![Stmt::Return(vec![t.clone()])] });
        let label = format!("tree {}", crate::reflua::print::print_expr(t));
        let uses_luau = expected.contains("ifx(") || expected.contains('`') || expected.contains(" // ");
        check_generated(&block, &expected, !uses_luau, &label, cov, spans)?;
        // the same tree as the last value of a statement that is followed by a statement starting with `(`: the
        // generator must separate the two (`;`), whatever parentheses it added around operands itself
        {
            let h = hash64(expected.as_bytes());
            let first_kind = h % 5;
            let x = || Expr::name("x");
            let (first_dl, first_ref): (dn::Statement, Stmt) = match first_kind {
                0 => (dn::AssignStatement::from_variable(dn::Variable::new("x"), de2.clone()).into(), Stmt::Assign { targets: vec![x()], values: vec![t.clone()] }),
                1 => (dn::CompoundAssignStatement::new(dn::CompoundOperator::Plus, dn::Variable::new("x"), de2.clone()).into(), Stmt::CompoundAssign { target: x(), op: BinOp::Add, value: t.clone() }),
                2 => (dn::LocalAssignStatement::from_variable("x").with_value(de2.clone()).into(), Stmt::Local { names: vec![Binding { name: "x".into(), ty: None, span: Default::default() }], values: vec![t.clone()], is_const: false }),
                3 => (dn::RepeatStatement::new(dn::Block::default(), de2.clone()).into(), Stmt::Repeat { body: Block { stmts: vec![] }, cond: t.clone() }),
                _ => {
                    // a `const` declaration with more names than values: the generators complete it with `nil`
                    // (unless the last value may yield several values)
                    let st = dn::LocalAssignStatement::from_variable("x").with_variable("y").with_value(de2.clone()).with_assignment_kind(dn::AssignmentKind::Const);
                    let mut values = vec![t.clone()];
                    if !t.is_multi() {
                        values.push(Expr::Nil);
                    }
                    (st.into(), Stmt::Local { names: vec![Binding { name: "x".into(), ty: None, span: Default::default() }, Binding { name: "y".into(), ty: None, span: Default::default() }], values, is_const: true })
                }
            };
            let paren_f = dn::ParentheseExpression::new(dn::Expression::identifier("f"));
            let (second_dl, second_ref): (dn::Statement, Stmt) = match (h / 4) % 3 {
                0 => (dn::FunctionCall::from_prefix(dn::Prefix::Parenthese(Box::new(paren_f))).into(), Stmt::Call(Expr::call(Expr::paren(Expr::name("f")), vec![]))),
                1 => (
                    dn::AssignStatement::from_variable(dn::FieldExpression::new(dn::Prefix::Parenthese(Box::new(paren_f)), "a"), dn::Expression::from(1.0)).into(),
                    Stmt::Assign { targets: vec![Expr::field(Expr::paren(Expr::name("f")), "a")], values: vec![Expr::num(1.0)] },
                ),
                _ => (
                    dn::CompoundAssignStatement::new(dn::CompoundOperator::Plus, dn::FieldExpression::new(dn::Prefix::Parenthese(Box::new(paren_f)), "a"), dn::Expression::from(1.0)).into(),
                    Stmt::CompoundAssign { target: Expr::field(Expr::paren(Expr::name("f")), "a"), op: BinOp::Add, value: Expr::num(1.0) },
                ),
            };
            let block2 = dn::Block::default().with_statement(first_dl).with_statement(second_dl);
            let expected2 = norm_block(&Block { stmts: vec![first_ref, second_ref] });
            let luau2 = uses_luau || first_kind == 1 || first_kind == 4 || (h / 4) % 3 == 2;
            check_generated(&block2, &expected2, !luau2, &format!("statement ending with {} followed by a statement starting with `(`", label), cov, spans)?;
            cov.hit("statement_pairs_checked");
        }
        cov.hit("trees_checked");
        cov.eval(Some(hash64(expected.as_bytes())));
        if cov.want_sample() {
            cov.sample(json!({"tree": label, "dense": dl::gen_dense(&block, 80)}));
        }
        Ok(())
    }
}
