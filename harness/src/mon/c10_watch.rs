//! C10, real `--watch` back end: the history is played against a live `darklua process --watch`
//! child process (inotify + notify-debouncer-full + `FileWatcher::process_events` + `WorkerTree`),
//! by changing files of a real directory and observing the output directory from outside.
//!
//! Oracle: after every burst of changes the output directory must *converge* to the tree a fresh
//! `darklua process` (same binary, no `--watch`) produces over a copy of the current sources and
//! configuration in another directory pre-seeded with the same foreign files.  Convergence is
//! decided on logical observations (the polled tree equals the expected one at two polls 700 ms
//! apart); the wall-clock deadline is generous (5 s + 3 s grace, doubled on the second play; the debounce period is 0.4 s) and a
//! history that fails is played a second time at a slower pace before it is reported.

use super::c10_model::{self as model, Model, Mutation};
use crate::framework::*;
use crate::rng::hash64;
use serde_json::json;
use std::collections::{BTreeMap, BTreeSet, HashMap};
use std::path::{Path, PathBuf};
use std::process::{Child, Command, Stdio};
use std::time::{Duration, Instant};

#[derive(Default, Clone, PartialEq, Eq)]
pub struct Tree {
    pub files: BTreeMap<String, String>,
    pub dirs: BTreeSet<String>,
}

#[derive(Default)]
pub struct WatchState {
    fresh_cache: HashMap<u64, Tree>,
    counter: u64,
}

struct Killer(Option<Child>, PathBuf);
impl Drop for Killer {
    fn drop(&mut self) {
        if let Some(c) = self.0.as_mut() {
            let _ = c.kill();
            let _ = c.wait();
        }
        let _ = std::fs::remove_dir_all(&self.1);
    }
}

fn scratch_base() -> PathBuf {
    match std::env::var_os("DLVERIF_SCRATCH") {
        Some(p) if !p.is_empty() => PathBuf::from(p),
        _ => std::env::temp_dir(),
    }
}

fn write(root: &Path, rel: &str, text: &str) -> Result<(), String> {
    let p = root.join(rel);
    if let Some(parent) = p.parent() {
        std::fs::create_dir_all(parent).map_err(|e| format!("mkdir {}: {}", parent.display(), e))?;
    }
    std::fs::write(&p, text).map_err(|e| format!("write {}: {}", p.display(), e))
}

fn mutate(root: &Path, m: &Mutation) -> Result<(), String> {
    match m {
        Mutation::Write(p, t) => write(root, p, t),
        Mutation::Delete(p) => std::fs::remove_file(root.join(p)).map_err(|e| format!("rm {}: {}", p, e)),
        Mutation::DeleteDir(p) => std::fs::remove_dir_all(root.join(p)).map_err(|e| format!("rm -r {}: {}", p, e)),
        Mutation::Rename(from, to) => {
            let t = root.join(to);
            if let Some(parent) = t.parent() {
                std::fs::create_dir_all(parent).map_err(|e| format!("mkdir {}: {}", parent.display(), e))?;
            }
            std::fs::rename(root.join(from), &t).map_err(|e| format!("mv {} {}: {}", from, to, e))
        }
    }
}

fn seed(root: &Path, files: &BTreeMap<String, String>) -> Result<(), String> {
    for (p, t) in files {
        write(root, p, t)?;
    }
    for (p, t) in model::FOREIGN {
        if let Some(dir) = p.strip_suffix('/') {
            std::fs::create_dir_all(root.join(dir)).map_err(|e| format!("mkdir {}: {}", dir, e))?;
        } else {
            write(root, p, t)?;
        }
    }
    Ok(())
}

pub fn out_tree(root: &Path) -> Tree {
    let mut t = Tree::default();
    let base = root.join(model::OUTPUT);
    let mut stack = vec![base];
    while let Some(d) = stack.pop() {
        let Ok(rd) = std::fs::read_dir(&d) else { continue };
        for e in rd.flatten() {
            let p = e.path();
            let r = p.strip_prefix(root).map(|x| x.to_string_lossy().to_string()).unwrap_or_else(|_| p.to_string_lossy().to_string());
            if p.is_dir() {
                t.dirs.insert(r);
                stack.push(p);
            } else {
                let text = std::fs::read(&p).map(|b| String::from_utf8_lossy(&b).to_string()).unwrap_or_else(|e| format!("<unreadable: {}>", e));
                t.files.insert(r, text);
            }
        }
    }
    t
}

fn ancestors_of(files: &BTreeMap<String, String>) -> BTreeSet<String> {
    let mut s = BTreeSet::new();
    for p in files.keys() {
        let mut cur = Path::new(p).parent();
        while let Some(a) = cur {
            if a.as_os_str().is_empty() {
                break;
            }
            s.insert(a.to_string_lossy().to_string());
            cur = a.parent();
        }
    }
    s
}

fn short(s: &str) -> String {
    let one: String = s.replace('\n', "\\n");
    if one.len() > 140 {
        let mut end = 140;
        while !one.is_char_boundary(end) {
            end -= 1;
        }
        format!("{}…", &one[..end])
    } else {
        one
    }
}

/// (signature, description) of every difference that is not excused; `excused` collects the rest
fn differences(watch: &Tree, fresh: &Tree, m: &Model, dep_trouble: bool, excused: &mut Vec<String>) -> Vec<(String, String)> {
    let mut out = vec![];
    // sources the fresh run could not process: any state of their output is accepted
    let failing: BTreeSet<String> = m.files.keys().filter(|p| p.starts_with("src/") && model::is_lua(p)).filter_map(|p| model::output_of(p)).filter(|o| !fresh.files.contains_key(o)).collect();
    let paths: BTreeSet<&String> = watch.files.keys().chain(fresh.files.keys()).collect();
    for p in paths {
        let (w, f) = (watch.files.get(p), fresh.files.get(p));
        if w == f {
            continue;
        }
        if failing.contains(p) {
            excused.push(format!("{} (its source fails in the fresh run)", p));
            continue;
        }
        let role = model::role_of_output(p);
        if dep_trouble && (role == "entry" || role == "module") {
            // known finding of the API-level monitor (a require that failed is not a recorded dependency)
            excused.push(format!("{} (a dependency could not be loaded earlier in the history)", p));
            continue;
        }
        let kind = match (w, f) {
            (Some(_), None) => "stale-output",
            (None, Some(_)) => "missing-output",
            _ => "content-differs",
        };
        out.push((
            format!("watch:tree:{}:{}", kind, role),
            format!("{}: under --watch = {} ; fresh run = {}", p, w.map(|c| format!("`{}`", short(c))).unwrap_or_else(|| "<absent>".into()), f.map(|c| format!("`{}`", short(c))).unwrap_or_else(|| "<absent>".into())),
        ));
    }
    let needed = ancestors_of(&watch.files);
    for d in &watch.dirs {
        if !fresh.dirs.contains(d) && !needed.contains(d) {
            out.push(("watch:tree:empty-directory-left".into(), format!("{}/ exists (empty) under --watch, a fresh run has no such directory", d)));
        }
    }
    let needed_fresh = ancestors_of(&fresh.files);
    for d in &fresh.dirs {
        if !watch.dirs.contains(d) && !needed_fresh.contains(d) {
            out.push(("watch:tree:foreign-directory-removed".into(), format!("{}/ (pre-existing, empty) is kept by a fresh run but missing under --watch", d)));
        }
    }
    out
}

fn cpu_ticks(pid: u32) -> Option<u64> {
    let s = std::fs::read_to_string(format!("/proc/{}/stat", pid)).ok()?;
    let rest = s.rsplit_once(')')?.1;
    let f: Vec<&str> = rest.split_whitespace().collect();
    // after the ")" the fields start at "state"(index 0): utime = 11, stime = 12
    Some(f.get(11)?.parse::<u64>().ok()? + f.get(12)?.parse::<u64>().ok()?)
}

impl WatchState {
    fn new_dir(&mut self, tag: &str) -> Result<PathBuf, String> {
        self.counter += 1;
        let nanos = std::time::SystemTime::now().duration_since(std::time::UNIX_EPOCH).map(|d| d.subsec_nanos()).unwrap_or(0);
        let dir = scratch_base().join(format!("dlverif-c10w-{}-{}-{}-{}", tag, std::process::id(), self.counter, nanos));
        let _ = std::fs::remove_dir_all(&dir);
        std::fs::create_dir_all(&dir).map_err(|e| format!("create {}: {}", dir.display(), e))?;
        Ok(dir.canonicalize().unwrap_or(dir))
    }

    /// the reference: a plain `darklua process src out` over a copy of the model's files
    fn fresh(&mut self, bin: &str, m: &Model, cov: &mut Cov) -> Result<Tree, String> {
        let mut text = String::new();
        for (p, c) in &m.files {
            text.push_str(p);
            text.push('\u{1}');
            text.push_str(c);
            text.push('\u{2}');
        }
        let key = hash64(text.as_bytes());
        if let Some(t) = self.fresh_cache.get(&key) {
            cov.hit("watch:fresh_run_reused");
            return Ok(t.clone());
        }
        let dir = self.new_dir("fresh")?;
        let guard = Killer(None, dir.clone());
        seed(&dir, &m.files)?;
        let out = Command::new(bin).args(["process", model::INPUT, model::OUTPUT]).current_dir(&dir).stdin(Stdio::null()).stdout(Stdio::null()).stderr(Stdio::null()).status().map_err(|e| format!("spawn fresh: {}", e))?;
        let _ = out;
        let t = out_tree(&dir);
        drop(guard);
        cov.hit("watch:fresh_run_executed");
        if self.fresh_cache.len() > 500 {
            self.fresh_cache.clear();
        }
        self.fresh_cache.insert(key, t.clone());
        Ok(t)
    }

    /// one play of the history; Ok(None) = held, Ok(Some((sig, detail))) = diverged, Err = harness problem
    fn play(&mut self, bin: &str, ops: &[String], pace_ms: u64, slow: bool, cov: &mut Cov, trace: &mut Vec<String>, stats: &mut (u64, u64)) -> Result<Option<(String, String)>, String> {
        let root = self.new_dir("live")?;
        let mut m = Model::initial();
        seed(&root, &m.files)?;
        let log = root.join("watch.stdout");
        let logf = std::fs::File::create(&log).map_err(|e| format!("log: {}", e))?;
        let errf = std::fs::File::create(root.join("watch.stderr")).map_err(|e| format!("log: {}", e))?;
        let child = Command::new(bin).args(["process", "--watch", model::INPUT, model::OUTPUT]).current_dir(&root).stdin(Stdio::null()).stdout(logf).stderr(errf).spawn().map_err(|e| format!("spawn watch: {}", e))?;
        let pid = child.id();
        let mut guard = Killer(Some(child), root.clone());
        let scale = if slow { 2 } else { 1 };
        let mut dep_trouble = false;
        let mut bursts = 0u64;

        // wait until the output directory equals `want`; Ok(true) = converged
        let mut wait = |me: &mut WatchState, guard: &mut Killer, m: &Model, dep_trouble: bool, what: &str, trace: &mut Vec<String>, cov: &mut Cov| -> Result<Option<(String, String)>, String> {
            let want = me.fresh(bin, m, cov)?;
            let t0 = Instant::now();
            let deadline = Duration::from_millis(5_000 * scale);
            let grace = Duration::from_millis(3_000 * scale);
            let mut first_match: Option<Instant> = None;
            let mut last: Vec<(String, String)>;
            let mut excused: Vec<String> = vec![];
            loop {
                if let Some(c) = guard.0.as_mut() {
                    if let Ok(Some(status)) = c.try_wait() {
                        let err = std::fs::read_to_string(root.join("watch.stderr")).unwrap_or_default();
                        return Ok(Some(("watch:process-exited".into(), format!("the `darklua process --watch` child exited ({}) after {}\nstderr: {}", status, what, short(&err)))));
                    }
                }
                let got = out_tree(&root);
                excused.clear();
                last = differences(&got, &want, m, dep_trouble, &mut excused);
                if last.is_empty() {
                    match first_match {
                        None => first_match = Some(Instant::now()),
                        Some(t) if t.elapsed() >= Duration::from_millis(700 * scale) => {
                            trace.push(format!("    converged {} ms after {}{}", t0.elapsed().as_millis(), what, if excused.is_empty() { String::new() } else { format!(" (not judged: {})", excused.join("; ")) }));
                            if !excused.is_empty() {
                                cov.hit("watch:paths_not_judged");
                            }
                            if t0.elapsed() > deadline {
                                cov.hit("watch:late_convergence(after the deadline, within the grace period)");
                            }
                            return Ok(None);
                        }
                        _ => {}
                    }
                } else {
                    first_match = None;
                    if t0.elapsed() > deadline + grace {
                        let (sig, _) = last[0].clone();
                        let mut d = format!("the output directory did not converge to the fresh-run tree within {} s after {} ({} difference(s)):", (deadline + grace).as_secs(), what, last.len());
                        for (_, t) in last.iter().take(6) {
                            d.push_str(&format!("\n  {}", t));
                        }
                        return Ok(Some((sig, d)));
                    }
                }
                std::thread::sleep(Duration::from_millis(100));
            }
        };

        // initial pass
        if let Some(v) = wait(self, &mut guard, &m, dep_trouble, "start-up", trace, cov)? {
            return Ok(Some(v));
        }
        // the watcher is installed after the first pass: give it a moment (events before that are lost by design)
        std::thread::sleep(Duration::from_millis(600 * scale));
        let mut pending = false;
        let mut all = ops.to_vec();
        all.push("process".into());
        for op in &all {
            if op == "process" {
                if pending {
                    pending = false;
                    bursts += 1;
                    if let Some(v) = wait(self, &mut guard, &m, dep_trouble, &format!("burst {}", bursts), trace, cov)? {
                        return Ok(Some(v));
                    }
                }
                continue;
            }
            let applied = m.apply(op, true);
            if !applied.effective {
                trace.push(format!("  {} (no effect)", op));
                continue;
            }
            trace.push(format!("  {}", op));
            for l in &applied.labels {
                cov.hit(&format!("watch_op:{}", l));
            }
            for mu in &applied.mutations {
                mutate(&root, mu)?;
                if pace_ms > 0 {
                    std::thread::sleep(Duration::from_millis(pace_ms * scale));
                }
            }
            stats.0 += 1;
            pending = true;
            // the listed finding of the API-level monitor: a dependency that could not be loaded and was then repaired
            // by writing that very file
            if m.cfg.bundle && !m.repaired_directly.is_empty() {
                dep_trouble = true;
            }
        }
        // quiescence: the watcher must not keep running passes when nothing changes (the output has been stable
        // for 0.7 s already; a loop runs one pass per debounce period of 0.4 s)
        let count_passes = |log: &Path| std::fs::read_to_string(log).map(|s| s.matches("successfully processed").count()).unwrap_or(0);
        let passes_before = count_passes(&log);
        let c0 = cpu_ticks(pid);
        std::thread::sleep(Duration::from_millis(2500 * scale));
        let c1 = cpu_ticks(pid);
        let passes_after = count_passes(&log);
        stats.1 += passes_after as u64;
        let extra = passes_after.saturating_sub(passes_before);
        cov.hit(&format!("watch:passes_while_idle:{}", match extra { 0 => "0", 1 => "1", 2 => "2", _ => "3+" }));
        if extra >= 3 {
            return Ok(Some(("watch:passes-keep-running-when-idle".into(), format!("with no change pending (output stable) the watcher reported {} more passes within {} ms (CPU ticks used: {:?})", extra, 2500 * scale, c0.zip(c1).map(|(a, b)| b.saturating_sub(a))))));
        }
        drop(guard);
        Ok(None)
    }

    pub fn run(&mut self, case: &Case, cov: &mut Cov) -> Verdict {
        let Ok(bin) = std::env::var("DLVERIF_DARKLUA_BIN") else {
            return Verdict::discard("watch back end: DLVERIF_DARKLUA_BIN is not set (./check builds the CLI and sets it)");
        };
        if !Path::new(&bin).exists() {
            return Verdict::discard("watch back end: the darklua binary is missing");
        }
        let ops: Vec<String> = case["ops"].as_array().map(|a| a.iter().filter_map(|v| v.as_str().map(String::from)).collect()).unwrap_or_default();
        let pace = case["pace_ms"].as_u64().unwrap_or(0);
        let mut trace = vec![];
        let mut stats = (0u64, 0u64);
        let first = match self.play(&bin, &ops, pace, false, cov, &mut trace, &mut stats) {
            Ok(r) => r,
            Err(e) => return Verdict::discard(format!("harness: {}", e.split(':').next().unwrap_or(""))),
        };
        let effective = stats.0;
        cov.hit("backend:watch_process");
        if let Some((sig, detail)) = first {
            // play it again, slower: a report needs the same class of divergence twice
            cov.hit("watch:diverged_once");
            let mut trace2 = vec![];
            let mut stats2 = (0u64, 0u64);
            match self.play(&bin, &ops, pace.max(20), true, cov, &mut trace2, &mut stats2) {
                Ok(Some((sig2, detail2))) => {
                    let d = format!("{}\nhistory against a live `darklua process --watch src out` (second, slower play; the first play failed with {}):\n{}\n  >>> {}\nfirst play:\n{}\n  >>> {}", detail2.lines().next().unwrap_or(""), sig, trace2.join("\n"), detail2, trace.join("\n"), detail);
                    return Verdict::Violated { signature: sig2, detail: d, narrowed: None };
                }
                Ok(None) => {
                    cov.hit("watch:diverged_once_then_converged_on_slower_replay(not reported)");
                    return Verdict::discard("watch back end: divergence not reproduced at a slower pace (timing)");
                }
                Err(e) => return Verdict::discard(format!("harness: {}", e.split(':').next().unwrap_or(""))),
            }
        }
        if std::env::var_os("DLVERIF_C10W_TRACE").is_some() {
            eprintln!("{}", trace.join("\n"));
        }
        cov.hit("watch_histories");
        cov.add("watch_steps", effective);
        cov.add("watch_passes_reported_by_the_watcher", stats.1);
        cov.hit("histories");
        let norm = format!("watch|{}|{}", pace, ops.join(","));
        cov.eval(if effective > 0 { Some(hash64(norm.as_bytes())) } else { None });
        if cov.want_sample() && effective >= 2 {
            cov.sample(json!({ "backend": "watch", "ops": ops, "trace": trace }));
        }
        Verdict::Held
    }
}
