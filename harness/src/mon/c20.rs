//! C20 — file and rule filters (`apply_to_files` / `skip_files`) select exactly the matching files.
//!
//! Oracle: an independent model of the glob subset {literal, `*`, `?`, `**`, `{a,b}`} (written from
//! the wax README the darklua documentation points to) decides, for every file of a generated tree,
//! whether the top-level filters select it and which rules of the pipeline run on it.  The expected
//! output of the file is then obtained from *reduced configurations without any filter*: the
//! pipeline restricted to the rules the model selects (so "rule i filtered out" == "pipeline with
//! rule i deleted"), or the untouched source when the top-level filters do not select the file.
//! The complete resource tree after the run is compared with that expectation.

use super::fstree::{self, Item, Node, Snap, World};
use crate::framework::*;
use crate::rng::{hash64, Rng};
use serde_json::{json, Map, Value};
use std::collections::{BTreeMap, BTreeSet, HashMap};

// ---------------------------------------------------------------------------------------------
// model glob (subset)

#[derive(Clone, Debug, PartialEq)]
pub enum Tok {
    Lit(char),
    Sep,
    Star,
    Any1,
    /// `**/` at the start: zero or more whole components, each followed by a separator
    TreeStart,
    /// `/**/` in the middle: a separator, then zero or more components each followed by one
    TreeMid,
    /// `/**` at the end: nothing, or a separator followed by anything
    TreeEnd,
    /// the whole expression is `**`
    TreeOnly,
    Alt(Vec<Vec<Tok>>),
}

fn is_tree(t: &Tok) -> bool {
    matches!(t, Tok::TreeStart | Tok::TreeMid | Tok::TreeEnd | Tok::TreeOnly)
}

/// `None`: the expression is outside the modelled subset (or malformed by the README's rules)
pub fn parse_glob(p: &str) -> Option<Vec<Tok>> {
    let chars: Vec<char> = p.chars().collect();
    if chars.is_empty() {
        return None;
    }
    let toks = parse_seq(&chars, true)?;
    if toks.is_empty() {
        return None;
    }
    // `**` alone inside a longer expression is only legal in the four positions above
    for (i, t) in toks.iter().enumerate() {
        match t {
            Tok::TreeOnly if toks.len() != 1 => return None,
            Tok::TreeStart if i != 0 => return None,
            Tok::TreeEnd if i != toks.len() - 1 => return None,
            _ => {}
        }
        if i > 0 && is_tree(t) && is_tree(&toks[i - 1]) {
            return None;
        }
    }
    if matches!(toks.last(), Some(Tok::Sep)) {
        return None;
    }
    Some(toks)
}

fn parse_seq(chars: &[char], top: bool) -> Option<Vec<Tok>> {
    let mut out: Vec<Tok> = vec![];
    let mut i = 0;
    while i < chars.len() {
        let c = chars[i];
        match c {
            '*' if i + 1 < chars.len() && chars[i + 1] == '*' => {
                if !top {
                    return None;
                }
                if i + 2 < chars.len() && chars[i + 2] == '*' {
                    return None;
                }
                let at_start = i == 0;
                let after_sep = i > 0 && chars[i - 1] == '/';
                let at_end = i + 2 == chars.len();
                let before_sep = i + 2 < chars.len() && chars[i + 2] == '/';
                if !(at_start || after_sep) || !(at_end || before_sep) {
                    return None;
                }
                if after_sep {
                    // the separator before belongs to the tree wildcard
                    match out.pop() {
                        Some(Tok::Sep) => {}
                        _ => return None,
                    }
                }
                let tok = match (at_start, at_end) {
                    (true, true) => Tok::TreeOnly,
                    (true, false) => Tok::TreeStart,
                    (false, true) => Tok::TreeEnd,
                    (false, false) => Tok::TreeMid,
                };
                out.push(tok);
                i += if at_end { 2 } else { 3 };
                if !at_end && i >= chars.len() {
                    return None; // trailing separator
                }
                continue;
            }
            '*' => {
                if matches!(out.last(), Some(Tok::Star)) {
                    return None;
                }
                if let Some(Tok::Alt(bs)) = out.last() {
                    if bs.iter().any(|b| matches!(b.last(), Some(Tok::Star))) {
                        return None;
                    }
                }
                out.push(Tok::Star);
            }
            '?' => out.push(Tok::Any1),
            '/' => {
                if matches!(out.last(), Some(Tok::Sep)) {
                    return None;
                }
                if i > 0 && out.last().map(is_tree).unwrap_or(false) {
                    return None;
                }
                if i == 0 && !top {
                    return None;
                }
                out.push(Tok::Sep);
            }
            '{' => {
                // find the matching brace
                let mut depth = 0usize;
                let mut j = i;
                let mut close = None;
                while j < chars.len() {
                    match chars[j] {
                        '{' => depth += 1,
                        '}' => {
                            depth -= 1;
                            if depth == 0 {
                                close = Some(j);
                                break;
                            }
                        }
                        _ => {}
                    }
                    j += 1;
                }
                let close = close?;
                let inner = &chars[i + 1..close];
                // split at top-level commas
                let mut branches: Vec<Vec<char>> = vec![vec![]];
                let mut d = 0usize;
                for &ch in inner {
                    match ch {
                        '{' => {
                            d += 1;
                            branches.last_mut().unwrap().push(ch);
                        }
                        '}' => {
                            d -= 1;
                            branches.last_mut().unwrap().push(ch);
                        }
                        ',' if d == 0 => branches.push(vec![]),
                        _ => branches.last_mut().unwrap().push(ch),
                    }
                }
                let mut bs = vec![];
                for b in branches {
                    if b.is_empty() {
                        return None;
                    }
                    let seq = parse_seq(&b, false)?;
                    if matches!(seq.first(), Some(Tok::Sep)) || matches!(seq.last(), Some(Tok::Sep)) {
                        return None;
                    }
                    bs.push(seq);
                }
                if matches!(out.last(), Some(Tok::Star)) && bs.iter().any(|b| matches!(b.first(), Some(Tok::Star))) {
                    return None;
                }
                out.push(Tok::Alt(bs));
                i = close + 1;
                continue;
            }
            // everything with a meaning outside the modelled subset
            '}' | ',' | '$' | '[' | ']' | '<' | '>' | '(' | ')' | ':' | '\\' | '!' | '|' | '~' | '@' | '+' | '^' | '#' | '&' | ';' | '"' | '\'' | '`' | '%' => return None,
            _ => out.push(Tok::Lit(c)),
        }
        i += 1;
    }
    Some(out)
}

pub fn glob_match(toks: &[Tok], s: &[char]) -> bool {
    let Some(first) = toks.first() else {
        return s.is_empty();
    };
    let rest = &toks[1..];
    match first {
        Tok::Lit(c) => s.first() == Some(c) && glob_match(rest, &s[1..]),
        Tok::Sep => s.first() == Some(&'/') && glob_match(rest, &s[1..]),
        Tok::Any1 => s.first().map(|c| *c != '/').unwrap_or(false) && glob_match(rest, &s[1..]),
        Tok::Star => {
            for k in 0..=s.len() {
                if glob_match(rest, &s[k..]) {
                    return true;
                }
                if k < s.len() && s[k] == '/' {
                    break;
                }
            }
            false
        }
        Tok::TreeOnly => true,
        Tok::TreeStart => (0..=s.len()).any(|k| (k == 0 || s[k - 1] == '/') && glob_match(rest, &s[k..])),
        Tok::TreeMid => s.first() == Some(&'/') && (1..=s.len()).any(|k| (k == 1 || s[k - 1] == '/') && glob_match(rest, &s[k..])),
        Tok::TreeEnd => rest.is_empty() && (s.is_empty() || s[0] == '/'),
        Tok::Alt(bs) => bs.iter().any(|b| {
            let mut v = b.clone();
            v.extend_from_slice(rest);
            glob_match(&v, s)
        }),
    }
}

pub fn model_matches(pattern: &str, path: &str) -> Option<bool> {
    let toks = parse_glob(pattern)?;
    let chars: Vec<char> = path.chars().collect();
    Some(glob_match(&toks, &chars))
}

fn features(pattern: &str, out: &mut BTreeSet<&'static str>) {
    if pattern.contains("**") {
        out.insert("tree");
    }
    let single = pattern.replace("**", "");
    if single.contains('*') {
        out.insert("star");
    }
    if pattern.contains('?') {
        out.insert("any1");
    }
    if pattern.contains('{') {
        out.insert("alt");
    }
    if !pattern.contains('*') && !pattern.contains('?') && !pattern.contains('{') {
        out.insert("literal");
    }
    if !pattern.is_ascii() {
        out.insert("unicode");
    }
}

// ---------------------------------------------------------------------------------------------
// filters in the case

/// absent (`null`), a single string, or an array of strings
fn patterns_of(v: &Value) -> Option<Vec<String>> {
    match v {
        Value::Null => Some(vec![]),
        Value::String(s) => Some(vec![s.clone()]),
        Value::Array(a) => a.iter().map(|x| x.as_str().map(|s| s.to_string())).collect(),
        _ => None,
    }
}

fn form_name(v: &Value) -> &'static str {
    match v {
        Value::Null => "absent",
        Value::String(_) => "string",
        Value::Array(a) => match a.len() {
            0 => "empty_array",
            1 => "array1",
            _ => "array_many",
        },
        _ => "other",
    }
}

/// the documented semantics: selected iff (no apply pattern or at least one matches) and no skip
/// pattern matches
fn selected(apply: &[String], skip: &[String], path: &str) -> Option<bool> {
    let mut ok = apply.is_empty();
    for p in apply {
        if model_matches(p, path)? {
            ok = true;
        }
    }
    for p in skip {
        if model_matches(p, path)? {
            ok = false;
        }
    }
    Some(ok)
}

fn with_prefix(v: &Value, prefix: &str) -> Value {
    match v {
        Value::String(s) => Value::String(format!("{}{}", prefix, s)),
        Value::Array(a) => Value::Array(a.iter().map(|x| with_prefix(x, prefix)).collect()),
        other => other.clone(),
    }
}

fn rule_with_filters(rule: &Value, apply: &Value, skip: &Value, prefix: &str) -> Value {
    if apply.is_null() && skip.is_null() {
        return rule.clone();
    }
    let mut m = match rule {
        Value::String(name) => {
            let mut m = Map::new();
            m.insert("rule".into(), json!(name));
            m
        }
        Value::Object(o) => o.clone(),
        _ => Map::new(),
    };
    if !apply.is_null() {
        m.insert("apply_to_files".into(), with_prefix(apply, prefix));
    }
    if !skip.is_null() {
        m.insert("skip_files".into(), with_prefix(skip, prefix));
    }
    Value::Object(m)
}

fn rule_name(rule: &Value) -> String {
    match rule {
        Value::String(s) => s.clone(),
        Value::Object(o) => o.get("rule").and_then(|r| r.as_str()).unwrap_or("?").to_string(),
        _ => "?".into(),
    }
}

fn normalize_rel(p: &str) -> String {
    let mut out: Vec<&str> = vec![];
    for c in p.split('/') {
        match c {
            "" | "." => {}
            ".." => {
                out.pop();
            }
            x => out.push(x),
        }
    }
    out.join("/")
}

// ---------------------------------------------------------------------------------------------
// workload pieces

const DIRS: [&str; 9] = ["", "util", "util/deep", "lib", "lib/core", "test", "util/deep/er", "my dir", ".cfg"];
const NAMES: [&str; 16] = [
    "a.lua", "b.lua", "c.lua", "main.lua", "init.lua", "init.luau", "a.luau", "x.test.lua", "a.spec.luau", "ab.lua", "my file.lua", ".hidden.lua", "é.lua", "日本.luau", "a-b_c.lua", "z.luau",
];

/// every rule of the pool changes this text visibly (under `retain_lines`)
fn probe(id: usize) -> String {
    format!(
        "-- probe {id}\nlocal cfg_{id} = {{ key = {id} }}\nlocal n_{id} = nil\ndo end\nlocal sum = cfg_{id}['key'] + (2 + 3)\nprint(\"p{id}\")\nreturn VALUE, DBG, sum, n_{id}\n",
        id = id
    )
}

fn rule_pool(generator: &str) -> Vec<Value> {
    let mut v = vec![
        json!({"rule": "inject_global_value", "identifier": "VALUE", "value": 11}),
        json!({"rule": "inject_global_value", "identifier": "DBG", "value": false}),
        json!({"rule": "inject_global_value", "identifier": "VALUE", "value": "second"}),
        json!("rename_variables"),
        json!("convert_index_to_field"),
        json!("compute_expression"),
        json!("remove_empty_do"),
        json!("remove_function_call_parens"),
        json!("remove_nil_declaration"),
    ];
    if generator == "retain_lines" {
        v.push(json!("remove_comments"));
        v.push(json!("remove_spaces"));
        v.push(json!({"rule": "append_text_comment", "text": "stamp-A"}));
        v.push(json!({"rule": "append_text_comment", "text": "stamp-B", "location": "end"}));
    }
    v
}

const FIXED_TREE: [&str; 12] = [
    "src/a.lua",
    "src/b.lua",
    "src/main.luau",
    "src/x.test.lua",
    "src/util/a.lua",
    "src/util/init.lua",
    "src/util/deep/a.lua",
    "src/util/deep/z.luau",
    "src/my file.lua",
    "src/.hidden.lua",
    "src/é.lua",
    "src/lib/b.lua",
];

const CATALOGUE: [&str; 64] = [
    "**",
    "**/*",
    "*",
    "*/*",
    "*/*/*",
    "src/**",
    "src/*",
    "src/*/*",
    "src/**/*",
    "**/*.lua",
    "**/*.luau",
    "**/*.{lua,luau}",
    "*.lua",
    "src/*.lua",
    "src/**/*.lua",
    "src/util/**",
    "src/util/*",
    "**/util/**",
    "**/deep/*",
    "**/a.lua",
    "**/a.*",
    "**/a.lu?",
    "**/?.lua",
    "**/??.lua",
    "**/?.lua?",
    "src/a.lua",
    "src/util/a.lua",
    "a.lua",
    "util/a.lua",
    "**/util/a.lua",
    "src/**/a.lua",
    "src/**/deep/a.lua",
    "src/**/util/**/a.lua",
    "**/*.test.lua",
    "**/*.test.*",
    "**/x.*.lua",
    "src/{a,b}.lua",
    "**/{a,b}.lua",
    "src/{util,lib}/**",
    "**/{util/a,lib/b}.lua",
    "src/{a,{b,main}}.lua*",
    "**/{a.lua,z.luau}",
    "nomatch/**",
    "**/nomatch.lua",
    "src/a.luau",
    "SRC/**",
    "**/my file.lua",
    "**/my*",
    "**/.hidden.lua",
    "**/.*",
    "**/é.lua",
    "**/*é*",
    "src/**/z.luau",
    "**/lib/**",
    "src/util/deep/**",
    "**/init.*",
    "**/*a*",
    "**/*.l*",
    "src/**/deep/**",
    "**/deep/**/a.lua",
    "src/?/a.lua",
    "src/????/a.lua",
    "src/u*/*/{a,z}.*",
    "**/{a,b,main}.{lua,luau}",
];

fn fixed_pipeline() -> Vec<Value> {
    vec![json!({"rule": "inject_global_value", "identifier": "VALUE", "value": 11}), json!("remove_comments"), json!({"rule": "append_text_comment", "text": "stamp-A"})]
}

/// patterns derived from the paths of a tree (so that they select proper, non-empty subsets)
fn derive_pattern(r: &mut Rng, paths: &[String], input: &str) -> String {
    let p = r.pick(paths).clone();
    let comps: Vec<&str> = p.split('/').collect();
    let name = comps[comps.len() - 1];
    let (stem, ext) = match name.rfind('.') {
        Some(i) if i > 0 => (&name[..i], &name[i + 1..]),
        _ => (name, ""),
    };
    let first_char: String = stem.chars().take(1).collect();
    let name_pat = |r: &mut Rng| -> String {
        match r.below(12) {
            0 => name.to_string(),
            1 => "*".to_string(),
            2 => format!("*.{}", ext),
            3 => format!("{}.*", stem),
            4 => format!("{}*", first_char),
            5 => format!("*.{{lua,luau}}"),
            6 => format!("{}.lu?", stem),
            7 => stem.chars().map(|_| '?').collect::<String>() + "." + ext,
            8 => {
                let other = file_stem(r.pick(paths).as_str());
                format!("{{{},{}}}.{}", stem, other, ext)
            }
            9 => format!("{}.{{lua,luau}}", stem),
            10 => format!("*{}", name.chars().skip(1).collect::<String>()),
            _ => format!("{}.lua*", stem),
        }
    };
    match r.below(14) {
        0 => "**".to_string(),
        1 => format!("**/{}", name_pat(r)),
        2 => format!("{}/**", input),
        3 => format!("{}/**/{}", input, name_pat(r)),
        4 => p.clone(),
        5 => {
            // replace one directory component by `*`
            let mut c: Vec<String> = comps.iter().map(|s| s.to_string()).collect();
            let k = r.below(c.len());
            if k == c.len() - 1 {
                c[k] = name_pat(r);
            } else {
                c[k] = "*".into();
            }
            c.join("/")
        }
        6 => {
            // keep a prefix of directories then `**`
            let k = 1 + r.below(comps.len().max(2) - 1);
            format!("{}/**", comps[..k.min(comps.len() - 1).max(1)].join("/"))
        }
        7 => {
            // `**/<dir>/**`
            if comps.len() >= 3 {
                let k = 1 + r.below(comps.len() - 2);
                format!("**/{}/**", comps[k])
            } else {
                format!("**/{}", name_pat(r))
            }
        }
        8 => {
            // prefix + `**` + name
            let k = 1 + r.below(comps.len() - 1);
            format!("{}/**/{}", comps[..k].join("/"), name_pat(r))
        }
        9 => {
            // alternation of two directories
            if comps.len() >= 3 {
                let other = r.pick(paths).split('/').nth(1).unwrap_or("lib").to_string();
                format!("{}/{{{},{}}}/**", comps[0], comps[1], other)
            } else {
                format!("{}/{}", comps[..comps.len() - 1].join("/"), name_pat(r))
            }
        }
        10 => {
            // all components literal but the last
            format!("{}/{}", comps[..comps.len() - 1].join("/"), name_pat(r))
        }
        11 => (*r.pick(&["nomatch/**", "**/nomatch.lua", "*.lua", "*", "*/*", "**/*.txt", "**/*"])).to_string(),
        12 => {
            // same depth, all stars
            comps.iter().map(|_| "*").collect::<Vec<_>>().join("/")
        }
        _ => {
            // alternation with a separator inside
            let q = r.pick(paths).clone();
            let strip = |s: &str| s.strip_prefix(&format!("{}/", input)).unwrap_or(s).to_string();
            format!("{}/{{{},{}}}", input, strip(&p), strip(&q))
        }
    }
}

fn file_stem(p: &str) -> String {
    let name = fstree::file_name(p);
    match name.rfind('.') {
        Some(i) if i > 0 => name[..i].to_string(),
        _ => name.to_string(),
    }
}

fn gen_list(r: &mut Rng, paths: &[String], input: &str) -> Value {
    match r.below(10) {
        0 => json!([]),
        1 | 2 | 3 => json!(derive_pattern(r, paths, input)),
        4 | 5 => json!([derive_pattern(r, paths, input)]),
        6 | 7 | 8 => json!([derive_pattern(r, paths, input), derive_pattern(r, paths, input)]),
        _ => json!([derive_pattern(r, paths, input), derive_pattern(r, paths, input), derive_pattern(r, paths, input)]),
    }
}

// ---------------------------------------------------------------------------------------------

#[derive(Default)]
pub struct C20 {
    refs: HashMap<u64, Result<String, String>>,
}

const SLOTS: usize = 8; // top apply, top skip, and apply/skip of the three rules of the fixed pipeline

fn det_count() -> u64 {
    (CATALOGUE.len() * SLOTS * 2) as u64 + REGRESSION.len() as u64
}

/// hand-written cases (documentation examples, the six cases of tests/frontend.rs, corner cases)
const REGRESSION: [&str; 10] = [
    // documentation example: process only src/**/*.luau but skip tests
    r#"{"top":{"apply":["src/**/*.luau"],"skip":["**/*.test.lua"]},"rules":[[null,null],[null,null],[null,null]]}"#,
    r#"{"top":{"apply":["src/**/*.lua"],"skip":["src/**/*.test.lua"]},"rules":[[null,null],[null,null],[null,null]]}"#,
    // several apply patterns: "at least one"
    r#"{"top":{"apply":["**/a.lua","**/b.lua"],"skip":null},"rules":[[null,null],[null,null],[null,null]]}"#,
    r#"{"top":{"apply":["nomatch/**","src/util/**"],"skip":null},"rules":[[null,null],[null,null],[null,null]]}"#,
    // skip only
    r#"{"top":{"apply":null,"skip":["**/util/**","**/b.lua"]},"rules":[[null,null],[null,null],[null,null]]}"#,
    // rule level, all three rules filtered differently
    r#"{"top":{"apply":null,"skip":null},"rules":[["**/a.lua",null],[null,"src/util/**"],[["**/*.luau","**/b.lua"],"**/lib/**"]]}"#,
    r#"{"top":{"apply":"src/**","skip":"**/deep/**"},"rules":[[["**/a.*","nomatch/**"],null],[null,["**/a.lua","**/z.luau"]],[[],[]]]}"#,
    // empty arrays are "not set"
    r#"{"top":{"apply":[],"skip":[]},"rules":[[[],null],[null,[]],[null,null]]}"#,
    // skip wins over apply
    r#"{"top":{"apply":"**/a.lua","skip":"**/a.lua"},"rules":[[null,null],[null,null],[null,null]]}"#,
    r#"{"top":{"apply":null,"skip":null},"rules":[["src/**","src/**"],[null,null],["**/util/**",["**/deep/**"]]]}"#,
];

fn fixed_case(top: (Value, Value), rule_filters: Vec<(Value, Value)>, output: Option<&str>, origin: String) -> Case {
    let files: Vec<Value> = FIXED_TREE.iter().enumerate().map(|(i, p)| json!({"p": p, "t": probe(i)})).collect();
    let rules: Vec<Value> = fixed_pipeline().into_iter().zip(rule_filters).map(|(rule, (a, s))| json!({"rule": rule, "apply": a, "skip": s})).collect();
    json!({"origin": origin, "fs": false, "files": files, "input": "src", "output": output, "generator": "retain_lines",
        "apply": top.0, "skip": top.1, "rules": rules})
}

impl C20 {
    fn reference(&mut self, code: &str, path: &str, generator: &str, rules: &[Value]) -> Result<String, String> {
        let cfg = json!({"generator": generator, "rules": rules}).to_string();
        let key = hash64(format!("{}\u{0}{}\u{0}{}", cfg, path, code).as_bytes());
        if let Some(r) = self.refs.get(&key) {
            return r.clone();
        }
        if self.refs.len() > 50_000 {
            self.refs.clear();
        }
        let r = reference_run(code, &cfg, path);
        self.refs.insert(key, r.clone());
        r
    }
}

/// the file alone, in place, in a fresh in-memory tree, under a filter-free configuration
fn reference_run(code: &str, cfg: &str, path: &str) -> Result<String, String> {
    let world = World::build(false, &[Node::text(path, code)], &[0])?;
    let o = world.process(Ok(cfg), path, None, false);
    if let Some(e) = o.setup_error {
        return Err(e);
    }
    if !o.errors.is_empty() {
        return Err(o.errors.join("; "));
    }
    match world.snapshot()?.remove(path) {
        Some(Item::File(b)) => String::from_utf8(b).map_err(|_| "not utf-8".to_string()),
        _ => Err("output missing".into()),
    }
}

struct RuleSpec {
    rule: Value,
    apply: Value,
    skip: Value,
}

impl Monitor for C20 {
    fn id(&self) -> &'static str {
        "C20"
    }

    fn rule_text(&self) -> String {
        format!(
            "A case is one directory tree of Lua files (4-12 files, nesting <= 4, names with spaces, leading dots, unicode, several extensions) plus one configuration \
             with apply_to_files/skip_files at the top level and/or on any rule of a 2-4 rule pipeline (forms: absent, string, [], [p], [p,q,..]; patterns from the modelled glob subset \
             literal/*/?/**/{{a,b}}), processed once by darklua_core::process (memory back end; file-system back end with the scratch directory as literal pattern prefix), in place or into an output directory, \
             with the input given as directory or as a single file.  The model glob decides per file whether the top-level filter selects it and which rules run; the expected bytes come from \
             filter-free reduced configurations run on the file alone.  The first {} indices are seed-independent: the full product of a {}-pattern catalogue x 8 filter slots (top apply/skip, apply/skip of each of 3 rules) x \
             string/array form on a fixed 12-file tree, plus {} hand-written cases.  evaluations = one per (case, work file).  A case is non-trivial when the filters split the work files \
             (some file or rule selected and some not) and the split is observable (expected outputs of the two sides differ); distinct = hash of (paths, filters, rule names, generator, in/out mode, back end).",
            det_count(),
            CATALOGUE.len(),
            REGRESSION.len()
        )
    }

    fn assumptions(&self) -> Vec<String> {
        vec![
            "the glob semantics are those of the wax README for the subset literal, `*`, `?`, `**`, `{a,b}` (no special treatment of leading dots, case-sensitive on Unix); patterns outside the subset are never generated".into(),
            "a pattern is matched against the path of the source file as darklua receives it (input path joined with the relative path, normalised), as in the documentation examples and tests/frontend.rs".into(),
            "the reference output of a file under a filter-free configuration is darklua's own output for that file processed alone (rules used do not read other files)".into(),
            "a file not selected by the top-level filters may either be absent from a separate output directory or be an exact copy there (the documentation says 'skipped entirely'; both readings accepted); in place it must be byte-identical".into(),
        ]
    }

    fn plan(&self, tier: Tier) -> Plan {
        Plan { deterministic: det_count(), max_cases: u64::MAX, budget_s: if tier == Tier::Quick { 20.0 } else { 240.0 } }
    }

    fn floors(&self, _tier: Tier) -> Vec<(String, u64)> {
        vec![
            ("held".into(), 600),
            ("distinct_nontrivial".into(), 300),
            ("files_unselected_by_top".into(), 200),
            ("rule_skipped_for_file".into(), 500),
            ("rule_ran_for_file".into(), 500),
        ]
    }

    fn gen(&mut self, _tier: Tier, seed: u64, index: u64) -> Option<Case> {
        let det = det_count();
        let prod = (CATALOGUE.len() * SLOTS * 2) as u64;
        if index < prod {
            let i = index as usize;
            let pat = CATALOGUE[i % CATALOGUE.len()];
            let slot = (i / CATALOGUE.len()) % SLOTS;
            let as_array = i / (CATALOGUE.len() * SLOTS) == 1;
            let v = if as_array { json!([pat]) } else { json!(pat) };
            let mut top = (Value::Null, Value::Null);
            let mut rf = vec![(Value::Null, Value::Null), (Value::Null, Value::Null), (Value::Null, Value::Null)];
            match slot {
                0 => top.0 = v,
                1 => top.1 = v,
                s => {
                    let k = (s - 2) / 2;
                    if s % 2 == 0 {
                        rf[k].0 = v
                    } else {
                        rf[k].1 = v
                    }
                }
            }
            // alternate in-place / output directory
            let output = if (i / 3) % 2 == 0 { None } else { Some("out") };
            return Some(fixed_case(top, rf, output, format!("catalogue:{}:slot{}:{}", pat, slot, if as_array { "array" } else { "string" })));
        }
        if index < det {
            let k = (index - prod) as usize;
            let v: Value = serde_json::from_str(REGRESSION[k]).ok()?;
            let top = (v["top"]["apply"].clone(), v["top"]["skip"].clone());
            let rf: Vec<(Value, Value)> = v["rules"].as_array()?.iter().map(|p| (p[0].clone(), p[1].clone())).collect();
            return Some(fixed_case(top, rf, if k % 2 == 0 { None } else { Some("out") }, format!("regression:{}", k)));
        }
        let mut r = case_rng("C20", seed, index);
        // tree
        let root = *r.pick(&["src", "src", "src", "pkg/src", "my proj", "a.lua.d"]);
        let nfiles = 4 + r.below(7);
        let mut paths: Vec<String> = vec![];
        let ndirs = 1 + r.below(4);
        let mut dirs: Vec<&str> = vec![""];
        for _ in 0..ndirs {
            dirs.push(*r.pick(&DIRS[..]));
        }
        let mut guard = 0;
        while paths.len() < nfiles && guard < 100 {
            guard += 1;
            let d = *r.pick(&dirs);
            let n = *r.pick(&NAMES[..]);
            let p = if d.is_empty() { format!("{}/{}", root, n) } else { format!("{}/{}/{}", root, d, n) };
            // a path may not be both a file and a directory
            if paths.contains(&p) || paths.iter().any(|q| fstree::is_under(q, &p) || fstree::is_under(&p, q)) {
                continue;
            }
            paths.push(p);
        }
        let mut files: Vec<Value> = paths.iter().enumerate().map(|(i, p)| json!({"p": p, "t": probe(i)})).collect();
        // bystanders: a non-Lua file and a Lua file outside the input
        if r.chance(1, 2) {
            files.push(json!({"p": format!("{}/notes.txt", root), "t": "not lua ("}));
        }
        if r.chance(1, 2) {
            files.push(json!({"p": "elsewhere/a.lua", "t": probe(99)}));
        }
        let generator = *r.pick(&["retain_lines", "retain_lines", "dense", "readable"]);
        let pool = rule_pool(generator);
        let nrules = 2 + r.below(3);
        let mut rules = vec![];
        for _ in 0..nrules {
            rules.push(r.pick(&pool).clone());
        }
        // input: the directory (sometimes written un-normalised), or one file
        let input = match r.below(10) {
            0 => format!("./{}", root),
            1 => format!("{}/", root),
            2 => paths[r.below(paths.len())].clone(),
            _ => root.to_string(),
        };
        let output: Option<&str> = if r.chance(2, 5) && !paths.contains(&input) { Some(*r.pick(&["out", "out/nested", "build.d"])) } else { None };
        // filters
        let style = r.below(6); // 0: top only, 1: one rule, 2: several rules, 3: top + rules, 4: everything, 5: one slot
        let mut top = (Value::Null, Value::Null);
        let mut specs: Vec<(Value, Value)> = vec![(Value::Null, Value::Null); nrules];
        let place = |r: &mut Rng, slot: &mut (Value, Value), paths: &[String]| match r.below(3) {
            0 => slot.0 = gen_list(r, paths, root),
            1 => slot.1 = gen_list(r, paths, root),
            _ => {
                slot.0 = gen_list(r, paths, root);
                slot.1 = gen_list(r, paths, root);
            }
        };
        match style {
            0 => place(&mut r, &mut top, &paths),
            1 => {
                let k = r.below(nrules);
                place(&mut r, &mut specs[k], &paths)
            }
            2 => {
                for k in 0..nrules {
                    if r.chance(2, 3) {
                        place(&mut r, &mut specs[k], &paths);
                    }
                }
            }
            3 => {
                place(&mut r, &mut top, &paths);
                let k = r.below(nrules);
                place(&mut r, &mut specs[k], &paths)
            }
            4 => {
                place(&mut r, &mut top, &paths);
                for k in 0..nrules {
                    place(&mut r, &mut specs[k], &paths);
                }
            }
            _ => {
                let k = r.below(nrules + 1);
                let v = json!(derive_pattern(&mut r, &paths, root));
                let slot = if k == nrules { &mut top } else { &mut specs[k] };
                if r.bool() {
                    slot.0 = v
                } else {
                    slot.1 = v
                }
            }
        }
        let rules: Vec<Value> = rules.into_iter().zip(specs).map(|(rule, (a, s))| json!({"rule": rule, "apply": a, "skip": s})).collect();
        let fs = r.chance(1, 10);
        Some(json!({"origin": "random", "fs": fs, "files": files, "input": input, "output": output, "generator": generator,
            "apply": top.0, "skip": top.1, "rules": rules}))
    }

    fn run(&mut self, case: &Case, cov: &mut Cov) -> Verdict {
        // ---- decode
        let Some(nodes) = fstree::nodes_from_json(&case["files"]) else {
            return Verdict::discard("malformed case: files");
        };
        let input_raw = case["input"].as_str().unwrap_or("src").to_string();
        let input = normalize_rel(&input_raw);
        let output = case["output"].as_str().map(|s| s.to_string());
        let generator = case["generator"].as_str().unwrap_or("retain_lines").to_string();
        let (Some(top_apply), Some(top_skip)) = (patterns_of(&case["apply"]), patterns_of(&case["skip"])) else {
            return Verdict::discard("malformed case: filters");
        };
        let mut specs: Vec<RuleSpec> = vec![];
        for r in case["rules"].as_array().cloned().unwrap_or_default() {
            specs.push(RuleSpec { rule: r["rule"].clone(), apply: r["apply"].clone(), skip: r["skip"].clone() });
        }
        let mut rule_filters: Vec<(Vec<String>, Vec<String>)> = vec![];
        for s in &specs {
            let (Some(a), Some(k)) = (patterns_of(&s.apply), patterns_of(&s.skip)) else {
                return Verdict::discard("malformed case: rule filters");
            };
            rule_filters.push((a, k));
        }
        let mut feats: BTreeSet<&'static str> = BTreeSet::new();
        let mut all_patterns: Vec<&String> = top_apply.iter().chain(top_skip.iter()).collect();
        for (a, k) in &rule_filters {
            all_patterns.extend(a.iter());
            all_patterns.extend(k.iter());
        }
        for p in &all_patterns {
            if parse_glob(p).is_none() {
                return Verdict::discard("pattern outside the modelled glob subset");
            }
            features(p, &mut feats);
        }
        if nodes.iter().any(|n| !n.is_file()) {
            return Verdict::discard("malformed case: directory nodes");
        }
        if let Some(o) = &output {
            let o = normalize_rel(o);
            if o == input || fstree::is_under(&o, &input) || fstree::is_under(&input, &o) || nodes.iter().any(|n| n.path == o) {
                return Verdict::discard("output overlaps input");
            }
        }

        // ---- work set by the property's wording: the input file, or every .lua/.luau file under the input directory
        let input_is_file = nodes.iter().any(|n| n.path == input);
        let work: Vec<&Node> = nodes.iter().filter(|n| if input_is_file { n.path == input } else { fstree::is_under(&n.path, &input) && fstree::is_lua_name(&n.path) }).collect();
        if work.is_empty() {
            return Verdict::discard("no work file");
        }
        if input_is_file && output.is_some() {
            return Verdict::discard("file input with an output path is judged by C11 only");
        }

        // ---- run darklua
        let mut fs = case["fs"].as_bool().unwrap_or(false);
        if fs {
            let t = fstree::scratch_root().to_string_lossy().to_string();
            if !t.chars().all(|c| c.is_ascii_alphanumeric() || "/._-".contains(c)) {
                fs = false;
                cov.hit("fs_fallback_to_memory_unsafe_tmp");
            }
        }
        let order: Vec<usize> = (0..nodes.len()).collect();
        let world = match World::build(fs, &nodes, &order) {
            Ok(w) => w,
            Err(e) => return Verdict::discard(format!("harness: cannot build tree: {}", e.chars().take(60).collect::<String>())),
        };
        let prefix = world.prefix();
        if fs {
            // the literal prefix must not change what the model says
            for p in &all_patterns {
                for n in &work {
                    if model_matches(&format!("{}{}", prefix, p), &format!("{}{}", prefix, n.path)) != model_matches(p, &n.path) {
                        return Verdict::discard("harness: prefixed pattern not equivalent in the model");
                    }
                }
            }
        }
        let mut cfg = Map::new();
        cfg.insert("generator".into(), json!(generator));
        cfg.insert("rules".into(), Value::Array(specs.iter().map(|s| rule_with_filters(&s.rule, &s.apply, &s.skip, &prefix)).collect()));
        if !case["apply"].is_null() {
            cfg.insert("apply_to_files".into(), with_prefix(&case["apply"], &prefix));
        }
        if !case["skip"].is_null() {
            cfg.insert("skip_files".into(), with_prefix(&case["skip"], &prefix));
        }
        let cfg_text = Value::Object(cfg).to_string();
        let before = match world.snapshot() {
            Ok(s) => s,
            Err(e) => return Verdict::discard(format!("harness: snapshot: {}", e.chars().take(60).collect::<String>())),
        };
        let outcome = world.process(Ok(&cfg_text), &input_raw, output.as_deref(), false);
        if let Some(e) = &outcome.setup_error {
            if e.contains("glob") || e.contains("pattern") {
                cov.hit("darklua_rejected_pattern");
                return Verdict::discard("darklua rejects a pattern the model accepts");
            }
            return Verdict::discard(format!("setup error: {}", e.chars().take(80).collect::<String>()));
        }
        if !outcome.errors.is_empty() {
            return Verdict::discard("a probe file failed to process");
        }
        let after = match world.snapshot() {
            Ok(s) => s,
            Err(e) => return Verdict::discard(format!("harness: snapshot: {}", e.chars().take(60).collect::<String>())),
        };
        drop(world);

        // ---- expectation
        let stripped: Vec<Value> = specs.iter().map(|s| s.rule.clone()).collect();
        let mut expected: Snap = before.clone();
        let mut optional_copies: BTreeMap<String, Vec<u8>> = BTreeMap::new();
        let mut any_unselected = false;
        let mut any_selected = false;
        let mut observable = false;
        // per file: (dest, top selected, subset)
        struct Plan1 {
            src: String,
            dest: String,
            top: bool,
            subset: Vec<usize>,
            expected: Vec<u8>,
        }
        let mut plans: Vec<Plan1> = vec![];
        for n in &work {
            let Item::File(bytes) = &n.item else { continue };
            let code = String::from_utf8_lossy(bytes).to_string();
            let dest = match &output {
                None => n.path.clone(),
                Some(o) => {
                    let o = normalize_rel(o);
                    if input_is_file {
                        // darklua's documented-by-example behaviour: `process file.lua out-dir`;
                        // an output without extension that does not exist is taken as a directory
                        format!("{}/{}", o, fstree::file_name(&n.path))
                    } else {
                        format!("{}/{}", o, &n.path[input.len() + 1..])
                    }
                }
            };
            let Some(top) = selected(&top_apply, &top_skip, &n.path) else {
                return Verdict::discard("pattern outside the modelled glob subset");
            };
            let mut subset = vec![];
            for (i, (a, k)) in rule_filters.iter().enumerate() {
                match selected(a, k, &n.path) {
                    Some(true) => subset.push(i),
                    Some(false) => {}
                    None => return Verdict::discard("pattern outside the modelled glob subset"),
                }
            }
            if !top {
                any_unselected = true;
                cov.hit("files_unselected_by_top");
                let full = self.reference(&code, &n.path, &generator, &stripped);
                if let Ok(f) = &full {
                    if f.as_bytes() != &bytes[..] {
                        observable = true;
                    }
                }
                if output.is_some() {
                    optional_copies.insert(dest.clone(), bytes.clone());
                }
                plans.push(Plan1 { src: n.path.clone(), dest, top, subset, expected: bytes.clone() });
                continue;
            }
            if !top_apply.is_empty() || !top_skip.is_empty() {
                cov.hit("files_selected_by_top");
                any_selected = true;
            }
            let rules: Vec<Value> = subset.iter().map(|i| stripped[*i].clone()).collect();
            let exp = match self.reference(&code, &n.path, &generator, &rules) {
                Ok(e) => e,
                Err(e) => return Verdict::discard(format!("reference run failed: {}", e.chars().take(60).collect::<String>())),
            };
            for (i, (a, k)) in rule_filters.iter().enumerate() {
                if a.is_empty() && k.is_empty() {
                    continue;
                }
                let ran = subset.contains(&i);
                cov.hit(if ran { "rule_ran_for_file" } else { "rule_skipped_for_file" });
                cov.hit(&format!("filtered_rule_position_{}", i));
                if ran {
                    any_selected = true
                } else {
                    any_unselected = true
                }
                // is the decision visible in the output?
                let mut alt: Vec<usize> = subset.clone();
                if ran {
                    alt.retain(|x| *x != i)
                } else {
                    alt.push(i);
                    alt.sort()
                }
                let alt_rules: Vec<Value> = alt.iter().map(|i| stripped[*i].clone()).collect();
                if let Ok(o) = self.reference(&code, &n.path, &generator, &alt_rules) {
                    if o != exp {
                        observable = true;
                    }
                }
            }
            expected.insert(dest.clone(), Item::File(exp.clone().into_bytes()));
            if fs {
                for a in fstree::ancestors(&dest) {
                    expected.entry(a).or_insert(Item::Dir);
                }
            }
            plans.push(Plan1 { src: n.path.clone(), dest, top, subset, expected: exp.into_bytes() });
        }

        // ---- coverage
        for f in &feats {
            cov.hit(&format!("pattern_feature_{}", f));
        }
        cov.add("patterns", all_patterns.len() as u64);
        cov.hit(&format!("top_apply_form_{}", form_name(&case["apply"])));
        cov.hit(&format!("top_skip_form_{}", form_name(&case["skip"])));
        for s in &specs {
            cov.hit(&format!("rule_apply_form_{}", form_name(&s.apply)));
            cov.hit(&format!("rule_skip_form_{}", form_name(&s.skip)));
            cov.hit(&format!("rule_{}", rule_name(&s.rule)));
        }
        cov.hit(if fs { "backend_file_system" } else { "backend_memory" });
        cov.hit(if output.is_some() { "mode_output_dir" } else { "mode_in_place" });
        cov.hit(if input_is_file { "input_file" } else { "input_directory" });
        cov.hit(&format!("generator_{}", generator));
        cov.add("work_files", work.len() as u64);
        let nontrivial = any_selected && any_unselected && observable;
        if nontrivial {
            let mut paths: Vec<&str> = nodes.iter().map(|n| n.path.as_str()).collect();
            paths.sort();
            let names: Vec<String> = specs.iter().map(|s| rule_name(&s.rule)).collect();
            let nf = json!([paths, case["apply"], case["skip"], specs.iter().map(|s| json!([s.apply, s.skip])).collect::<Vec<_>>(), names, generator, output, fs, input]);
            // one of the evaluations of this case carries the hash
            cov.eval(Some(hash64(nf.to_string().as_bytes())));
            cov.hit("nontrivial_cases");
        } else {
            cov.eval(None);
            cov.hit("trivial_cases");
        }
        for _ in 1..plans.len() {
            cov.eval(None);
        }
        if cov.want_sample() && nontrivial {
            cov.sample(json!({"config": cfg_text, "input": input_raw, "output": output,
                "files": plans.iter().map(|p| json!({"path": p.src, "top_selected": p.top, "rules_run": p.subset})).collect::<Vec<_>>()}));
        }

        // ---- compare
        let mut actual = after.clone();
        for (dest, bytes) in &optional_copies {
            match actual.get(dest) {
                None => {
                    cov.hit("unselected_absent_from_output");
                }
                Some(Item::File(b)) if b == bytes => {
                    cov.hit("unselected_copied_to_output");
                    actual.remove(dest);
                }
                _ => {}
            }
        }
        if fs {
            // directories created for optional copies are not judged
            let keep: BTreeSet<String> = expected.keys().cloned().collect();
            let optional_dirs: BTreeSet<String> = optional_copies.keys().flat_map(|d| fstree::ancestors(d)).collect();
            actual.retain(|p, it| !(matches!(it, Item::Dir) && !keep.contains(p) && optional_dirs.contains(p)));
        }
        if actual == expected {
            return Verdict::Held;
        }
        // diagnose the first offending work file
        for p in &plans {
            let got = actual.get(&p.dest);
            let want_present = p.top;
            let ok = match (got, want_present) {
                (Some(Item::File(b)), true) => b == &p.expected,
                (None, false) => true,
                (Some(Item::File(b)), false) => output.is_none() && b == &p.expected,
                _ => false,
            };
            if ok {
                continue;
            }
            let src_node = work.iter().find(|n| n.path == p.src);
            let code = match src_node.map(|n| &n.item) {
                Some(Item::File(b)) => String::from_utf8_lossy(b).to_string(),
                _ => String::new(),
            };
            let observed: Option<Vec<u8>> = match got {
                Some(Item::File(b)) => Some(b.clone()),
                _ => None,
            };
            let mut what = "other".to_string();
            if !p.top {
                let full = self.reference(&code, &p.src, &generator, &stripped).ok();
                if observed.is_some() {
                    what = "top:unselected-file-transformed".into();
                    if full.map(|f| Some(f.into_bytes()) == observed).unwrap_or(false) {
                        what = "top:unselected-file-fully-transformed".into();
                    }
                }
            } else if observed.as_deref() == Some(code.as_bytes()) && p.expected != code.as_bytes() && (!top_apply.is_empty() || !top_skip.is_empty()) {
                what = "top:selected-file-untouched".into();
            } else if observed.is_none() {
                what = "selected-file-has-no-output".into();
            } else {
                // which set of rules explains the observed bytes?
                let n = rule_filters.len().min(6);
                let mut best: Option<(usize, Vec<usize>)> = None;
                for mask in 0u32..(1u32 << n) {
                    let set: Vec<usize> = (0..n).filter(|i| mask & (1 << i) != 0).collect();
                    let dist = (0..n).filter(|i| set.contains(i) != p.subset.contains(i)).count();
                    if dist == 0 || best.as_ref().map(|b| b.0 <= dist).unwrap_or(false) {
                        continue;
                    }
                    let rs: Vec<Value> = set.iter().map(|i| stripped[*i].clone()).collect();
                    if let Ok(o) = self.reference(&code, &p.src, &generator, &rs) {
                        if Some(o.into_bytes()) == observed {
                            best = Some((dist, set));
                        }
                    }
                }
                if let Some((_, set)) = best {
                    let extra = set.iter().any(|i| !p.subset.contains(i));
                    let missing = p.subset.iter().any(|i| !set.contains(i));
                    what = match (extra, missing) {
                        (true, false) => "rule:ran-on-unselected-file".into(),
                        (false, true) => "rule:skipped-on-selected-file".into(),
                        _ => "rule:wrong-set-of-rules".into(),
                    };
                }
            }
            let detail = format!(
                "file `{}` (destination `{}`), configuration {}\nmodel: top-level filters {} the file; rules run on it: {:?} of {:?}\nexpected {}\nobserved {}",
                p.src,
                p.dest,
                cfg_text,
                if p.top { "select" } else { "do not select" },
                p.subset,
                specs.iter().map(|s| rule_name(&s.rule)).collect::<Vec<_>>(),
                if p.top { fstree::show(&p.expected) } else { format!("untouched source ({})", if output.is_some() { "absent or exact copy" } else { "unchanged in place" }) },
                observed.as_deref().map(fstree::show).unwrap_or_else(|| "<no file>".into())
            );
            // narrowed case: only this file (and the bystanders)
            let mut narrowed = case.clone();
            let keep: Vec<Value> = nodes.iter().filter(|n| n.path == p.src || !work.iter().any(|w| w.path == n.path)).map(|n| n.to_json()).collect();
            narrowed["files"] = Value::Array(keep);
            return Verdict::Violated { signature: what, detail, narrowed: Some(narrowed) };
        }
        let d = fstree::diff(&expected, &actual, 6);
        Verdict::violated("other-file-affected", format!("configuration {}\nresource tree differs outside the work files' destinations:\n{}", cfg_text, d.join("\n")))
    }

    fn shrink(&mut self, case: &Case) -> Vec<Case> {
        let mut out = vec![];
        // fewer files
        if let Some(files) = case["files"].as_array() {
            if files.len() > 1 {
                for i in 0..files.len() {
                    let mut f = files.clone();
                    f.remove(i);
                    let mut c = case.clone();
                    c["files"] = Value::Array(f);
                    out.push(c);
                }
            }
        }
        // memory back end, in place, plain generator
        if case["fs"].as_bool() == Some(true) {
            let mut c = case.clone();
            c["fs"] = json!(false);
            out.push(c);
        }
        if !case["output"].is_null() {
            let mut c = case.clone();
            c["output"] = Value::Null;
            out.push(c);
        }
        if case["generator"].as_str() != Some("retain_lines") {
            let mut c = case.clone();
            c["generator"] = json!("retain_lines");
            out.push(c);
        }
        // fewer rules
        if let Some(rules) = case["rules"].as_array() {
            if rules.len() > 1 {
                for i in 0..rules.len() {
                    let mut r = rules.clone();
                    r.remove(i);
                    let mut c = case.clone();
                    c["rules"] = Value::Array(r);
                    out.push(c);
                }
            }
            // drop / reduce filter lists
            for i in 0..rules.len() {
                for key in ["apply", "skip"] {
                    for v in reduce_list(&rules[i][key]) {
                        let mut c = case.clone();
                        c["rules"][i][key] = v;
                        out.push(c);
                    }
                }
            }
        }
        for key in ["apply", "skip"] {
            for v in reduce_list(&case[key]) {
                let mut c = case.clone();
                c[key] = v;
                out.push(c);
            }
        }
        // shorter file contents
        if let Some(files) = case["files"].as_array() {
            for i in 0..files.len() {
                if files[i]["t"].as_str().map(|t| t.len() > 40).unwrap_or(false) {
                    let mut c = case.clone();
                    c["files"][i]["t"] = json!("-- c\nreturn VALUE, DBG\n");
                    out.push(c);
                }
            }
        }
        out
    }

    fn classify(&mut self, case: &Case, signature: &str) -> String {
        let mut feats: BTreeSet<&'static str> = BTreeSet::new();
        let mut level: BTreeSet<&'static str> = BTreeSet::new();
        for key in ["apply", "skip"] {
            for p in patterns_of(&case[key]).unwrap_or_default() {
                features(&p, &mut feats);
                level.insert(if key == "apply" { "top-apply" } else { "top-skip" });
            }
        }
        for r in case["rules"].as_array().cloned().unwrap_or_default() {
            for key in ["apply", "skip"] {
                for p in patterns_of(&r[key]).unwrap_or_default() {
                    features(&p, &mut feats);
                    level.insert(if key == "apply" { "rule-apply" } else { "rule-skip" });
                }
            }
        }
        let total: usize = ["apply", "skip"].iter().map(|k| patterns_of(&case[*k]).map(|v| v.len()).unwrap_or(0)).sum::<usize>()
            + case["rules"].as_array().map(|a| a.iter().map(|r| ["apply", "skip"].iter().map(|k| patterns_of(&r[*k]).map(|v| v.len()).unwrap_or(0)).sum::<usize>()).sum::<usize>()).unwrap_or(0);
        let feat_text = if total == 1 { feats.into_iter().collect::<Vec<_>>().join("+") } else { format!("{}-patterns", total.min(3)) };
        format!("{}|{}|{}", signature, level.into_iter().collect::<Vec<_>>().join("+"), feat_text)
    }

    fn exhaustive_note(&self, _tier: Tier) -> Option<String> {
        Some(format!("{} catalogue patterns x {} filter slots x 2 list forms on the fixed 12-file tree ({} cases) are always executed, plus {} hand-written cases", CATALOGUE.len(), SLOTS, CATALOGUE.len() * SLOTS * 2, REGRESSION.len()))
    }
}

fn reduce_list(v: &Value) -> Vec<Value> {
    match v {
        Value::Null => vec![],
        Value::String(_) => vec![Value::Null],
        Value::Array(a) => {
            let mut out = vec![Value::Null];
            if a.len() > 1 {
                for i in 0..a.len() {
                    let mut b = a.clone();
                    b.remove(i);
                    out.push(Value::Array(b));
                }
            }
            if a.len() == 1 {
                out.push(a[0].clone());
            }
            out
        }
        _ => vec![],
    }
}
