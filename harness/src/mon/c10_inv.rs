//! C10 — plain copy of hook H1's snapshot (`WorkerTree::verif_snapshot`) with project-relative
//! string paths, and the invariant checker run at quiescent points (after a `process`).

use darklua_core::WorkerTree;
use std::collections::{BTreeMap, BTreeSet};
use std::path::Path;

#[derive(Clone, Debug, Default)]
pub struct Node {
    pub id: usize,
    pub source: String,
    pub output: String,
    pub status: String,
    pub error: Option<String>,
    pub deps: Vec<String>,
}

#[derive(Clone, Debug, Default)]
pub struct Snap {
    pub nodes: Vec<Node>,
    pub edges: Vec<(usize, usize)>,
    pub node_map: Vec<(String, usize)>,
    pub external: Vec<(String, Vec<usize>)>,
    pub remove_files: Vec<String>,
    pub config_hash: Option<u64>,
}

pub fn rel(root: &str, p: &Path) -> String {
    let s = p.to_string_lossy().to_string();
    if root.is_empty() {
        return s;
    }
    match s.strip_prefix(root) {
        Some(rest) => rest.trim_start_matches('/').to_string(),
        None => s,
    }
}

pub fn take(tree: &WorkerTree, root: &str) -> Snap {
    let s = tree.verif_snapshot();
    Snap {
        nodes: s
            .nodes
            .iter()
            .map(|n| Node {
                id: n.id,
                source: rel(root, &n.source),
                output: rel(root, &n.output),
                status: n.status.to_string(),
                error: n.error.as_ref().map(|e| if root.is_empty() { e.clone() } else { e.replace(root, "") }),
                deps: n.external_file_dependencies.iter().map(|p| rel(root, p)).collect(),
            })
            .collect(),
        edges: s.edges.clone(),
        node_map: s.node_map.iter().map(|(p, i)| (rel(root, p), *i)).collect(),
        external: s.external_dependencies.iter().map(|(p, ids)| (rel(root, p), ids.clone())).collect(),
        remove_files: s.remove_files.iter().map(|p| rel(root, p)).collect(),
        config_hash: s.last_configuration_hash,
    }
}

impl Snap {
    pub fn node_by_output(&self, out: &str) -> Option<&Node> {
        self.nodes.iter().find(|n| n.output == out)
    }
    pub fn status_of_output(&self, out: &str) -> String {
        self.node_by_output(out).map(|n| n.status.clone()).unwrap_or_else(|| "no-node".to_string())
    }
    /// ids mentioned in `external_dependencies` that are not live graph nodes
    pub fn stale_ids(&self) -> Vec<(String, usize)> {
        let live: BTreeSet<usize> = self.nodes.iter().map(|n| n.id).collect();
        let mut v = vec![];
        for (p, ids) in &self.external {
            for id in ids {
                if !live.contains(id) {
                    v.push((p.clone(), *id));
                }
            }
        }
        v
    }
}

#[derive(Debug, Default)]
pub struct InvReport {
    /// states that are genuinely inconsistent (argued in the monitor's rule text)
    pub hard: Vec<(String, String)>,
    /// deviations that only cost work or that the output comparison judges by itself
    pub soft: Vec<(String, String)>,
}

/// `quiescent`: the snapshot was taken right after `process` returned Ok
pub fn check(s: &Snap, quiescent: bool) -> InvReport {
    let mut r = InvReport::default();
    let live: BTreeMap<usize, &Node> = s.nodes.iter().map(|n| (n.id, n)).collect();

    // node_map <-> graph nodes bijective
    let mut seen: BTreeMap<usize, u32> = BTreeMap::new();
    for (p, id) in &s.node_map {
        match live.get(id) {
            None => r.hard.push(("node_map-points-to-missing-node".into(), format!("node_map[{}] = {} which is not a graph node", p, id))),
            Some(n) => {
                if &n.source != p {
                    r.hard.push(("node_map-path-differs-from-item".into(), format!("node_map[{}] = {} but that item's source is {}", p, id, n.source)));
                }
            }
        }
        *seen.entry(*id).or_insert(0) += 1;
    }
    for n in &s.nodes {
        match seen.get(&n.id).copied().unwrap_or(0) {
            1 => {}
            0 => r.hard.push(("graph-node-not-in-node_map".into(), format!("graph node {} ({}) has no node_map entry", n.id, n.source))),
            k => r.hard.push(("graph-node-mapped-twice".into(), format!("graph node {} ({}) has {} node_map entries", n.id, n.source, k))),
        }
    }
    // edges
    for (a, b) in &s.edges {
        if !live.contains_key(a) || !live.contains_key(b) {
            r.hard.push(("edge-to-missing-node".into(), format!("edge {} -> {} touches a missing node", a, b)));
        }
    }
    // external dependencies
    for (p, ids) in &s.external {
        for id in ids {
            match live.get(id) {
                None => r.hard.push((
                    "stale-node-id-in-external_dependencies".into(),
                    format!("external_dependencies[{}] contains id {} which is not a graph node (restart_work on it panics, or hits an unrelated item once petgraph reuses the slot)", p, id),
                )),
                Some(n) => {
                    if !n.deps.contains(p) {
                        r.soft.push(("external-dependency-not-listed-by-item".into(), format!("external_dependencies[{}] contains {} ({}) whose item does not list that path", p, id, n.source)));
                    }
                }
            }
        }
    }
    if quiescent {
        for n in &s.nodes {
            if n.status != "done_ok" && n.status != "done_err" {
                r.soft.push(("node-not-done-after-process".into(), format!("{} is {} after process returned Ok", n.source, n.status)));
            }
            for d in &n.deps {
                let linked = s.external.iter().any(|(p, ids)| p == d && ids.contains(&n.id));
                if !linked {
                    r.soft.push(("item-dependency-not-linked".into(), format!("{} lists {} but external_dependencies does not link it", n.source, d)));
                }
            }
        }
        if !s.remove_files.is_empty() {
            r.soft.push(("remove_files-pending-after-process".into(), format!("remove_files = {:?} after process returned Ok", s.remove_files)));
        }
    }
    r
}
