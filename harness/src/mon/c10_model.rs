//! C10 — model of the small project the histories run over: files, configuration variants,
//! operations and the file-system events each operation produces (the events are dispatched to
//! the long-lived `WorkerTree` exactly the way `FileWatcher::process_events` does).
//!
//! All paths are relative to the project root (`""` for the in-memory back end, a unique
//! temporary directory for the file-system back end).

use std::collections::{BTreeMap, BTreeSet};

pub const CONFIG: &str = ".darklua.json";
pub const INPUT: &str = "src";
pub const OUTPUT: &str = "out";

pub const A: &str = "src/a.lua";
pub const B: &str = "src/sub/b.lua";
pub const C: &str = "src/sub/deep/c.lua";
pub const MAIN: &str = "src/app/main.lua";
pub const DATA: &str = "src/app/data.json";
pub const M1: &str = "src/mods/m1.lua";
pub const UTIL: &str = "lib/util.lua";
pub const LEAF: &str = "lib/leaf.lua";
pub const NEW1: &str = "src/sub/new.lua";
pub const NEW2: &str = "src/extra/n2.lua";

/// the files of the initial project (configuration excluded)
pub const INITIAL: [&str; 8] = [A, B, C, MAIN, DATA, M1, UTIL, LEAF];
/// files pulled in by bundling (directly or transitively) from MAIN
pub const DEPS: [&str; 4] = [M1, UTIL, LEAF, DATA];
pub const DIRS: [&str; 3] = ["src/sub", "src/mods", "src/app"];

/// foreign files seeded into the output directory before the first run.  None of them collides
/// with an output path.  An entry ending with `/` is an (empty) directory (file system only).
pub const FOREIGN: [(&str, &str); 5] = [
    ("out/README.txt", "foreign readme\n"),
    ("out/sub/keep.txt", "foreign file inside a directory that also receives outputs\n"),
    ("out/vendor/x.lua", "return 'foreign lua file'\n"),
    ("out/mods/", ""),
    ("out/emptykeep/", ""),
];

pub fn is_lua(path: &str) -> bool {
    path.ends_with(".lua") || path.ends_with(".luau")
}

/// output path of a source under the input directory
pub fn output_of(source: &str) -> Option<String> {
    source.strip_prefix("src/").map(|rest| format!("{}/{}", OUTPUT, rest))
}

pub fn role_of_output(out: &str) -> &'static str {
    match out {
        "out/app/main.lua" => "entry",
        "out/mods/m1.lua" => "module",
        _ => {
            if FOREIGN.iter().any(|(p, _)| *p == out) {
                "foreign"
            } else if out.ends_with(".lua") {
                "plain"
            } else {
                "unknown"
            }
        }
    }
}

/// valid content of `path` at version `k`
pub fn content(path: &str, k: u32) -> String {
    match path {
        MAIN => format!(
            "-- entry point {k}\nlocal m1 = require(\"../mods/m1\")\nlocal util = require(\"../../lib/util\")\nlocal data = require(\"./data.json\")\nlocal unused = {k}\nlocal function run(n)\n\treturn n + (1 + 2)\nend\nreturn {{ run({k}), m1.value, util[\"name\"], data.x }}\n"
        ),
        M1 => format!(
            "-- module one {k}\nlocal util = require(\"../../lib/util\")\nlocal M = {{ value = {k} + (2 * 3) }}\nM.name = util[\"name\"]\nreturn M\n"
        ),
        UTIL => format!("local leaf = require(\"./leaf\")\nlocal spare = {k}\nreturn {{ name = \"util{k}\", leaf = leaf[\"id\"] }}\n"),
        LEAF => format!("-- leaf {k}\nreturn {{ id = {k} }}\n"),
        DATA => format!("{{ \"x\": {k}, \"list\": [1, 2, {k}] }}\n"),
        _ => format!(
            "-- plain source {path} version {k}\nlocal unused = 0\nlocal t = {{ value = {k} }}\nlocal function inc(n)\n\treturn n + (1 + 2)\nend\n\nreturn inc(t[\"value\"])\n"
        ),
    }
}

/// content that cannot be loaded (syntax error / malformed data)
pub fn broken_content(path: &str, k: u32) -> String {
    if path.ends_with(".json") {
        format!("{{ \"x\": {k}, ")
    } else {
        format!("local = {k} oops(\n")
    }
}

#[derive(Clone, Debug, PartialEq, Eq)]
pub struct Cfg {
    pub rules: u8,
    pub filter: u8,
    pub generator: u8,
    pub bundle: bool,
    pub format: u8,
}

pub const GENERATORS: [&str; 3] = ["dense", "readable", "retain_lines"];
pub const RULE_SETS: usize = 4;
pub const FILTERS: usize = 5;

impl Cfg {
    pub fn initial() -> Cfg {
        Cfg { rules: 0, filter: 0, generator: 0, bundle: true, format: 0 }
    }

    /// does the current filter variant rely on a part of the rule that darklua does not
    /// serialise (and therefore does not see in its configuration fingerprint)?
    pub fn filter_is_unserialised(filter: u8) -> bool {
        matches!(filter, 1 | 3 | 4)
    }

    fn named_rule(&self) -> String {
        // a rule without any property of its own
        match self.filter {
            1 => "{ rule: 'convert_index_to_field', apply_to_files: '**/sub/**' }".to_string(),
            4 => "{ rule: 'convert_index_to_field', skip_files: ['**/app/**'] }".to_string(),
            _ => "'convert_index_to_field'".to_string(),
        }
    }

    fn props_rule(&self) -> String {
        // a rule that has a property of its own
        match self.filter {
            2 => "{ rule: 'rename_variables', include_functions: true, apply_to_files: ['**/sub/**', '**/app/*.lua'] }".to_string(),
            3 => "{ rule: 'rename_variables', include_functions: true, skip_files: '**/a.lua' }".to_string(),
            _ => "{ rule: 'rename_variables', include_functions: true }".to_string(),
        }
    }

    pub fn rules_list(&self) -> Vec<String> {
        let named = self.named_rule();
        let props = self.props_rule();
        match self.rules {
            0 => vec![named, "'compute_expression'".into()],
            1 => vec![named, "'compute_expression'".into(), props],
            2 => vec![named],
            _ => vec![named, props, "'remove_unused_variable'".into()],
        }
    }

    pub fn text(&self) -> String {
        let rules = self.rules_list();
        let generator = GENERATORS[(self.generator as usize) % GENERATORS.len()];
        let bundle = if self.bundle { "bundle: { require_mode: 'path' }, " } else { "" };
        match self.format % 2 {
            0 => format!("{{ {}generator: '{}', rules: [{}] }}", bundle, generator, rules.join(", ")),
            // same configuration, different text
            _ => format!(
                "// reformatted\n{{\n  rules: [\n    {}\n  ],\n  {}generator: {{ name: '{}' }},\n}}\n",
                rules.join(",\n    "),
                bundle,
                generator
            ),
        }
    }
}

#[derive(Clone, Debug, PartialEq, Eq)]
pub enum Ev {
    Changed(String),
    Removed(String),
    Created(String),
    /// rename event carrying both paths (the watcher calls `remove_source` on both and then
    /// collects work again)
    Renamed(String, String),
    /// one half of a rename whose other end is not watched: a file moved into the watched tree from outside
    /// (`Modify(Name(To))`) or out of it (`Modify(Name(From))`); same handling as a rename with one path
    MovedIn(String),
    MovedOut(String),
}

/// a change of the file tree performed "by the user"
#[derive(Clone, Debug)]
pub enum Mutation {
    Write(String, String),
    Delete(String),
    DeleteDir(String),
    Rename(String, String),
}

#[derive(Debug, Default)]
pub struct Applied {
    pub events: Vec<Ev>,
    pub mutations: Vec<Mutation>,
    /// coverage labels (op kinds as named in the design)
    pub labels: Vec<&'static str>,
    pub effective: bool,
}

#[derive(Clone, Debug)]
pub struct Model {
    /// every project file except the outputs (configuration included)
    pub files: BTreeMap<String, String>,
    pub broken: BTreeSet<String>,
    /// files that existed at some point and were removed
    pub removed_once: BTreeSet<String>,
    pub cfg: Cfg,
    pub counter: u32,
    /// files currently written in their variant without `require` calls
    pub cut: BTreeSet<String>,
    /// dependencies that were unloadable at some point and were then repaired by writing that very file
    /// (the trigger of the listed "failed require is not a recorded dependency" finding)
    pub repaired_directly: BTreeSet<String>,
}

impl Model {
    pub fn initial() -> Model {
        let mut files = BTreeMap::new();
        for p in INITIAL {
            files.insert(p.to_string(), content(p, 0));
        }
        let cfg = Cfg::initial();
        files.insert(CONFIG.to_string(), cfg.text());
        Model { files, broken: BTreeSet::new(), removed_once: BTreeSet::new(), cfg, counter: 0, cut: BTreeSet::new(), repaired_directly: BTreeSet::new() }
    }

    fn next(&mut self) -> u32 {
        self.counter += 1;
        self.counter
    }

    pub fn is_dep(path: &str) -> bool {
        DEPS.contains(&path)
    }

    /// dependencies (of the bundle entry or of m1) that cannot be loaded right now
    pub fn unloadable_deps(&self) -> Vec<&'static str> {
        // (leaf is only pulled in by util, and not by its variant without requires)
        DEPS.iter().copied().filter(|d| !(*d == LEAF && self.cut.contains(UTIL))).filter(|d| !self.files.contains_key(*d) || self.broken.contains(*d)).collect()
    }

    fn write(&mut self, out: &mut Applied, path: &str, text: String) {
        let existed = self.files.contains_key(path);
        self.files.insert(path.to_string(), text.clone());
        out.mutations.push(Mutation::Write(path.to_string(), text));
        out.events.push(if existed { Ev::Changed(path.to_string()) } else { Ev::Created(path.to_string()) });
        out.effective = true;
    }

    fn write_config(&mut self, out: &mut Applied) {
        let text = self.cfg.text();
        self.write(out, CONFIG, text);
    }

    /// apply one operation.  `dir_events`: a directory removal is reported as one event on the
    /// directory (what inotify + the debouncer deliver); otherwise as one event per file followed
    /// by the event on the directory.
    pub fn apply(&mut self, op: &str, dir_events: bool) -> Applied {
        let before: Vec<&'static str> = self.unloadable_deps();
        let out = self.apply_op(op, dir_events);
        if !op.starts_with("cut:") {
            // any other rewrite of the file brings the requires back; a file that is gone is not cut either
            for m in &out.mutations {
                match m {
                    Mutation::Write(p, _) | Mutation::Rename(_, p) | Mutation::Delete(p) => {
                        self.cut.remove(p);
                    }
                    Mutation::DeleteDir(d) => {
                        let pre = format!("{}/", d);
                        self.cut.retain(|p| !p.starts_with(&pre));
                    }
                }
            }
            for m in &out.mutations {
                if let Mutation::Rename(from, _) = m {
                    self.cut.remove(from);
                }
            }
        }
        let after = self.unloadable_deps();
        for d in before {
            if !after.contains(&d) && out.mutations.iter().any(|m| matches!(m, Mutation::Write(p, _) | Mutation::Rename(_, p) if p == d)) {
                self.repaired_directly.insert(d.to_string());
            }
        }
        out
    }

    fn apply_op(&mut self, op: &str, dir_events: bool) -> Applied {
        let mut out = Applied::default();
        let (kind, arg) = match op.split_once(':') {
            Some((k, a)) => (k, a),
            None => (op, ""),
        };
        match kind {
            "cut" => {
                // rewrite a module without its `require` calls (what a user does to get rid of a failing require)
                if self.files.contains_key(arg) && (arg == UTIL || arg == M1) {
                    let k = self.next();
                    self.broken.remove(arg);
                    self.cut.insert(arg.to_string());
                    let text = if arg == UTIL { format!("local spare = {k}\nreturn {{ name = \"util{k}\", leaf = 0 }}\n") } else { format!("-- module one {k} (stand-alone)\nlocal M = {{ value = {k} + (2 * 3) }}\nM.name = \"none\"\nreturn M\n") };
                    self.write(&mut out, arg, text);
                    out.labels.push("edit_dependency_removing_its_requires");
                }
            }
            "edit" => {
                if self.files.contains_key(arg) && arg != CONFIG {
                    self.cut.remove(arg);
                    let k = self.next();
                    let was_broken = self.broken.remove(arg);
                    self.write(&mut out, arg, content(arg, k));
                    out.labels.push(if was_broken { "repair" } else { "edit" });
                    if Model::is_dep(arg) {
                        out.labels.push(if was_broken { "repair_dependency" } else { "edit_dependency" });
                    }
                }
            }
            "break" => {
                if self.files.contains_key(arg) && arg != CONFIG {
                    let k = self.next();
                    self.broken.insert(arg.to_string());
                    self.write(&mut out, arg, broken_content(arg, k));
                    out.labels.push("edit_to_syntax_error");
                    if Model::is_dep(arg) {
                        out.labels.push("break_dependency");
                    }
                }
            }
            "add" => {
                if !self.files.contains_key(arg) && arg != CONFIG && !arg.is_empty() {
                    let k = self.next();
                    let again = self.removed_once.contains(arg);
                    self.write(&mut out, arg, content(arg, k));
                    out.labels.push(if again { "re_add" } else { "add_file" });
                    if Model::is_dep(arg) {
                        out.labels.push("re_add_dependency");
                    }
                }
            }
            "restore" => {
                // re-create missing files of the initial project (all of them, or one)
                let targets: Vec<&str> = INITIAL.iter().copied().filter(|p| (arg.is_empty() || *p == arg) && !self.files.contains_key(*p)).collect();
                for p in targets {
                    let k = self.next();
                    self.write(&mut out, p, content(p, k));
                    out.labels.push("re_add");
                    if Model::is_dep(p) {
                        out.labels.push("re_add_dependency");
                    }
                }
            }
            "rm" => {
                if self.files.contains_key(arg) && arg != CONFIG {
                    self.files.remove(arg);
                    self.broken.remove(arg);
                    self.removed_once.insert(arg.to_string());
                    out.mutations.push(Mutation::Delete(arg.to_string()));
                    out.events.push(Ev::Removed(arg.to_string()));
                    out.effective = true;
                    out.labels.push("remove_file");
                    if Model::is_dep(arg) {
                        out.labels.push("remove_dependency");
                    }
                }
            }
            "rmdir" => {
                let prefix = format!("{}/", arg);
                let inside: Vec<String> = self.files.keys().filter(|p| p.starts_with(&prefix)).cloned().collect();
                if !inside.is_empty() && !arg.is_empty() {
                    for p in &inside {
                        self.files.remove(p);
                        self.broken.remove(p);
                        self.removed_once.insert(p.clone());
                        if !dir_events {
                            out.events.push(Ev::Removed(p.clone()));
                        }
                        if Model::is_dep(p) {
                            out.labels.push("remove_dependency");
                        }
                    }
                    out.mutations.push(Mutation::DeleteDir(arg.to_string()));
                    out.events.push(Ev::Removed(arg.to_string()));
                    out.effective = true;
                    out.labels.push("remove_directory");
                    out.labels.push(if dir_events { "remove_directory_one_event" } else { "remove_directory_event_per_file" });
                }
            }
            "mv" => {
                // rename a source: `mv:<from>><to>`
                if let Some((from, to)) = arg.split_once('>') {
                    if self.files.contains_key(from) && !self.files.contains_key(to) && from != CONFIG && to != CONFIG {
                        if let Some(text) = self.files.remove(from) {
                            let was_broken = self.broken.remove(from);
                            if was_broken {
                                self.broken.insert(to.to_string());
                            }
                            self.removed_once.insert(from.to_string());
                            self.files.insert(to.to_string(), text);
                            out.mutations.push(Mutation::Rename(from.to_string(), to.to_string()));
                            out.events.push(Ev::Renamed(from.to_string(), to.to_string()));
                            out.effective = true;
                            out.labels.push("rename_file");
                        }
                    }
                }
            }
            "mvin" => {
                // a file written somewhere that is not watched and then moved into the input tree (a new file, or
                // over an existing one: an editor that keeps its temporary files elsewhere)
                if arg != CONFIG && !arg.is_empty() {
                    let k = self.next();
                    let existed = self.files.contains_key(arg);
                    let was_broken = self.broken.remove(arg);
                    let text = content(arg, k);
                    let tmp = format!("stash/incoming{}.lua", k);
                    self.files.insert(arg.to_string(), text.clone());
                    out.mutations.push(Mutation::Write(tmp.clone(), text));
                    out.mutations.push(Mutation::Rename(tmp, arg.to_string()));
                    out.events.push(Ev::MovedIn(arg.to_string()));
                    out.effective = true;
                    out.labels.push(if existed { "move_in_over_existing" } else { "move_in_new_file" });
                    if was_broken {
                        out.labels.push("repair");
                    }
                    if Model::is_dep(arg) {
                        out.labels.push("edit_dependency");
                    }
                }
            }
            "mvout" => {
                if self.files.contains_key(arg) && arg != CONFIG {
                    let k = self.next();
                    self.files.remove(arg);
                    self.broken.remove(arg);
                    self.removed_once.insert(arg.to_string());
                    out.mutations.push(Mutation::Rename(arg.to_string(), format!("stash/outgoing{}.lua", k)));
                    out.events.push(Ev::MovedOut(arg.to_string()));
                    out.effective = true;
                    out.labels.push("move_out");
                    if Model::is_dep(arg) {
                        out.labels.push("remove_dependency");
                    }
                }
            }
            "save" => {
                // "atomic save": the new content is written to a temporary file which is then
                // renamed over the source
                if self.files.contains_key(arg) && arg != CONFIG {
                    let k = self.next();
                    let was_broken = self.broken.remove(arg);
                    let text = content(arg, k);
                    let tmp = format!("{}.tmp~", arg);
                    self.files.insert(arg.to_string(), text.clone());
                    out.mutations.push(Mutation::Write(tmp.clone(), text));
                    out.mutations.push(Mutation::Rename(tmp.clone(), arg.to_string()));
                    // what the debouncer delivers depends on timing: temporary file and rename inside one debounce
                    // window are folded into a single "created <target>" event (observed with the real watcher);
                    // otherwise the rename arrives as an event carrying both paths.  Both are played (the
                    // `dir_events` flag of the history selects which).
                    if dir_events {
                        out.events.push(Ev::Created(arg.to_string()));
                    } else {
                        out.events.push(Ev::Renamed(tmp, arg.to_string()));
                    }
                    out.effective = true;
                    out.labels.push("atomic_save");
                    if was_broken {
                        out.labels.push("repair");
                    }
                }
            }
            "rules" => {
                let n = arg.parse::<u8>().unwrap_or(0) % RULE_SETS as u8;
                if n != self.cfg.rules {
                    self.cfg.rules = n;
                    self.write_config(&mut out);
                    out.labels.push("change_rules");
                }
            }
            "filter" => {
                let n = arg.parse::<u8>().unwrap_or(0) % FILTERS as u8;
                if n != self.cfg.filter {
                    self.cfg.filter = n;
                    self.write_config(&mut out);
                    out.labels.push("change_rule_filter");
                }
            }
            "gen" => {
                let n = match arg {
                    "dense" => 0,
                    "readable" => 1,
                    _ => 2,
                };
                if n != self.cfg.generator {
                    self.cfg.generator = n;
                    self.write_config(&mut out);
                    out.labels.push("change_generator");
                }
            }
            "bundle" => {
                let on = arg == "on";
                if on != self.cfg.bundle {
                    self.cfg.bundle = on;
                    self.write_config(&mut out);
                    out.labels.push("change_bundling");
                }
            }
            "touch" => {
                self.write_config(&mut out);
                out.labels.push("touch_config");
            }
            "reformat" => {
                self.cfg.format = (self.cfg.format + 1) % 2;
                self.write_config(&mut out);
                out.labels.push("reformat_config");
            }
            _ => {}
        }
        out
    }
}

/// the operation alphabet of the exhaustive part
pub const A2: &str = "src/sub/a2.lua";

pub fn alphabet(avoid_filter_hash: bool, avoid_recreate: bool) -> Vec<String> {
    let mut v: Vec<String> = vec![];
    for p in [A, B, MAIN, M1, UTIL, LEAF, DATA] {
        v.push(format!("edit:{}", p));
    }
    for p in [A, MAIN, M1, UTIL, DATA] {
        v.push(format!("break:{}", p));
    }
    v.push(format!("add:{}", NEW1));
    v.push(format!("add:{}", NEW2));
    for p in [A, C, M1, MAIN, UTIL, DATA] {
        v.push(format!("rm:{}", p));
    }
    for d in DIRS {
        v.push(format!("rmdir:{}", d));
    }
    v.push("restore".into());
    v.push(format!("mv:{}>{}", A, A2));
    v.push(format!("mv:{}>{}", A2, A));
    if !avoid_recreate {
        v.push(format!("save:{}", A));
        v.push(format!("save:{}", M1));
        v.push(format!("mvin:{}", A));
    }
    v.push(format!("mvin:{}", NEW1));
    v.push(format!("mvout:{}", B));
    for r in 1..RULE_SETS {
        v.push(format!("rules:{}", r));
    }
    v.push("filter:2".into());
    if !avoid_filter_hash {
        v.push("filter:1".into());
        v.push("filter:3".into());
        v.push("filter:4".into());
    }
    v.push("gen:readable".into());
    v.push("gen:retain_lines".into());
    v.push("bundle:off".into());
    v.push("touch".into());
    v.push("reformat".into());
    v
}

/// every operation the random part may draw from
pub fn random_ops(avoid_filter_hash: bool, avoid_recreate: bool) -> Vec<String> {
    let mut v = alphabet(avoid_filter_hash, avoid_recreate);
    v.push(format!("mv:{}>{}", B, "src/b_moved.lua"));
    v.push(format!("mv:{}>{}", "src/b_moved.lua", B));
    v.push(format!("mv:{}>{}", M1, "src/m1_away.lua"));
    v.push(format!("mv:{}>{}", "src/m1_away.lua", M1));
    if !avoid_recreate {
        v.push(format!("save:{}", MAIN));
        v.push(format!("save:{}", B));
        v.push(format!("mvin:{}", M1));
        v.push(format!("mvin:{}", MAIN));
    }
    v.push(format!("mvin:{}", NEW2));
    v.push(format!("cut:{}", UTIL));
    v.push(format!("cut:{}", UTIL));
    v.push(format!("cut:{}", M1));
    v.push(format!("mvout:{}", A));
    v.push(format!("mvout:{}", M1));
    for p in [C, NEW1, NEW2] {
        v.push(format!("edit:{}", p));
    }
    for p in [B, C, LEAF, NEW1] {
        v.push(format!("break:{}", p));
    }
    for p in [B, LEAF, NEW1, NEW2] {
        v.push(format!("rm:{}", p));
    }
    v.push("rmdir:src/extra".into());
    v.push("rmdir:src/sub/deep".into());
    for p in INITIAL {
        v.push(format!("restore:{}", p));
    }
    v.push("rules:0".into());
    v.push("filter:0".into());
    v.push("gen:dense".into());
    v.push("bundle:on".into());
    v
}

pub fn op_kind(op: &str) -> &str {
    op.split(':').next().unwrap_or(op)
}
