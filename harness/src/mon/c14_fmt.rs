//! C14 helpers: the value tree, the harness's own (conservative) JSON / JSON5 / YAML / TOML
//! emitters, the comparison of a format parser's value with the tree (precondition) and the
//! comparison of a Lua value of the reference interpreter with the tree (oracle).

use crate::reflua::value::{Key, Value as LV};
use serde::ser::{Serialize, SerializeMap, SerializeSeq, Serializer};
use serde_json::{json, Value as J};

/// A data document.  Numbers are kept as decimal text (grammar
/// `-?(0|[1-9][0-9]*)(\.[0-9]+)?([eE][+-]?[0-9]+)?`, valid in all four formats) or one of the
/// specials `inf`, `-inf`, `nan`; the expected Lua number is the nearest double of that text.
#[derive(Clone, Debug, PartialEq)]
pub enum V {
    Null,
    Bool(bool),
    Num(String),
    Str(String),
    Arr(Vec<V>),
    Obj(Vec<(String, V)>),
}

impl V {
    pub fn to_case(&self) -> J {
        match self {
            V::Null => J::Null,
            V::Bool(b) => json!(b),
            V::Num(t) => json!({ "n": t }),
            V::Str(s) => json!(s),
            V::Arr(a) => J::Array(a.iter().map(|x| x.to_case()).collect()),
            V::Obj(o) => json!({"o": o.iter().map(|(k, v)| json!([k, v.to_case()])).collect::<Vec<_>>()}),
        }
    }
    pub fn from_case(j: &J) -> Option<V> {
        Some(match j {
            J::Null => V::Null,
            J::Bool(b) => V::Bool(*b),
            J::String(s) => V::Str(s.clone()),
            J::Array(a) => V::Arr(a.iter().map(V::from_case).collect::<Option<Vec<_>>>()?),
            J::Object(m) => {
                if let Some(n) = m.get("n") {
                    V::Num(n.as_str()?.to_string())
                } else {
                    let mut out = vec![];
                    for e in m.get("o")?.as_array()? {
                        out.push((e.get(0)?.as_str()?.to_string(), V::from_case(e.get(1)?)?));
                    }
                    V::Obj(out)
                }
            }
            J::Number(_) => return None,
        })
    }
    pub fn depth(&self) -> u32 {
        match self {
            V::Arr(a) => 1 + a.iter().map(|x| x.depth()).max().unwrap_or(0),
            V::Obj(o) => 1 + o.iter().map(|(_, x)| x.depth()).max().unwrap_or(0),
            _ => 0,
        }
    }
    pub fn size(&self) -> usize {
        match self {
            V::Arr(a) => 1 + a.iter().map(|x| x.size()).sum::<usize>(),
            V::Obj(o) => 1 + o.iter().map(|(_, x)| x.size()).sum::<usize>(),
            _ => 1,
        }
    }
    pub fn has_null(&self) -> bool {
        match self {
            V::Null => true,
            V::Arr(a) => a.iter().any(|x| x.has_null()),
            V::Obj(o) => o.iter().any(|(_, x)| x.has_null()),
            _ => false,
        }
    }
    pub fn has_dup_keys(&self) -> bool {
        match self {
            V::Arr(a) => a.iter().any(|x| x.has_dup_keys()),
            V::Obj(o) => {
                let mut ks: Vec<&str> = o.iter().map(|(k, _)| k.as_str()).collect();
                ks.sort();
                ks.windows(2).any(|w| w[0] == w[1]) || o.iter().any(|(_, x)| x.has_dup_keys())
            }
            _ => false,
        }
    }
    /// every leaf / key visited (for the coverage tables)
    pub fn visit(&self, f: &mut dyn FnMut(Visit)) {
        match self {
            V::Null => f(Visit::Null),
            V::Bool(_) => f(Visit::Bool),
            V::Num(t) => f(Visit::Num(t)),
            V::Str(s) => f(Visit::Str(s)),
            V::Arr(a) => {
                f(Visit::Arr(a));
                for x in a {
                    x.visit(f);
                }
            }
            V::Obj(o) => {
                f(Visit::Obj(o));
                for (k, x) in o {
                    f(Visit::Key(k));
                    x.visit(f);
                }
            }
        }
    }
}

pub enum Visit<'a> {
    Null,
    Bool,
    Num(&'a str),
    Str(&'a str),
    Key(&'a str),
    Arr(&'a [V]),
    Obj(&'a [(String, V)]),
}

/// nearest double of the number text (Rust's `str::parse::<f64>` is correctly rounded)
pub fn num_value(text: &str) -> Option<f64> {
    match text {
        "inf" => Some(f64::INFINITY),
        "-inf" => Some(f64::NEG_INFINITY),
        "nan" => Some(f64::NAN),
        t => {
            if !num_text_ok(t) {
                return None;
            }
            t.parse::<f64>().ok()
        }
    }
}

pub fn num_text_ok(t: &str) -> bool {
    let b = t.as_bytes();
    let mut i = 0;
    if i < b.len() && b[i] == b'-' {
        i += 1;
    }
    let s = i;
    while i < b.len() && b[i].is_ascii_digit() {
        i += 1;
    }
    if i == s || (b[s] == b'0' && i - s > 1) {
        return false;
    }
    if i < b.len() && b[i] == b'.' {
        i += 1;
        let s2 = i;
        while i < b.len() && b[i].is_ascii_digit() {
            i += 1;
        }
        if i == s2 {
            return false;
        }
    }
    if i < b.len() && (b[i] == b'e' || b[i] == b'E') {
        i += 1;
        if i < b.len() && (b[i] == b'+' || b[i] == b'-') {
            i += 1;
        }
        let s3 = i;
        while i < b.len() && b[i].is_ascii_digit() {
            i += 1;
        }
        if i == s3 {
            return false;
        }
    }
    i == b.len()
}

pub fn num_is_integer_text(t: &str) -> bool {
    !t.is_empty() && t != "inf" && t != "-inf" && t != "nan" && !t.contains(|c| c == '.' || c == 'e' || c == 'E')
}

// ---------------------------------------------------------------------------------------------
// Serialize: the tree handed to `convert_data` directly (no format parser involved)

impl Serialize for V {
    fn serialize<S: Serializer>(&self, s: S) -> Result<S::Ok, S::Error> {
        match self {
            V::Null => s.serialize_unit(),
            V::Bool(b) => s.serialize_bool(*b),
            V::Num(t) => {
                if num_is_integer_text(t) {
                    if let Ok(u) = t.parse::<u64>() {
                        return s.serialize_u64(u);
                    }
                    if let Ok(i) = t.parse::<i64>() {
                        return s.serialize_i64(i);
                    }
                }
                s.serialize_f64(num_value(t).unwrap_or(0.0))
            }
            V::Str(x) => s.serialize_str(x),
            V::Arr(a) => {
                let mut seq = s.serialize_seq(Some(a.len()))?;
                for x in a {
                    seq.serialize_element(x)?;
                }
                seq.end()
            }
            V::Obj(o) => {
                let mut m = s.serialize_map(Some(o.len()))?;
                for (k, x) in o {
                    m.serialize_entry(k, x)?;
                }
                m.end()
            }
        }
    }
}

// ---------------------------------------------------------------------------------------------
// emitters

#[derive(Clone, Copy, Debug, Default)]
pub struct Style {
    /// JSON: JSON5 syntax extras (single quotes, \xNN, trailing commas) allowed
    pub json5: bool,
    /// alternative quote: JSON5 single quotes; YAML single-quoted / TOML literal strings when the
    /// text is printable ASCII; YAML `~` for null
    pub alt_quote: bool,
    /// use the short escapes (\n, \t, ...) instead of the numeric ones
    pub short_esc: bool,
    /// escape every non-ASCII character numerically instead of writing it literally
    pub esc_non_ascii: bool,
    /// 0 = compact (JSON one line / YAML flow / TOML inline), 1 = pretty JSON / block YAML / TOML
    /// with `[table]` and `[[array]]` headers
    pub layout: u8,
}

impl Style {
    pub fn to_case(&self) -> J {
        json!({"json5": self.json5, "alt_quote": self.alt_quote, "short_esc": self.short_esc, "esc_non_ascii": self.esc_non_ascii, "layout": self.layout})
    }
    pub fn from_case(j: &J) -> Style {
        Style {
            json5: j["json5"].as_bool().unwrap_or(false),
            alt_quote: j["alt_quote"].as_bool().unwrap_or(false),
            short_esc: j["short_esc"].as_bool().unwrap_or(false),
            esc_non_ascii: j["esc_non_ascii"].as_bool().unwrap_or(false),
            layout: j["layout"].as_u64().unwrap_or(0) as u8,
        }
    }
    pub fn index(i: u64) -> Style {
        Style { json5: i & 1 != 0, alt_quote: i & 2 != 0, short_esc: i & 4 != 0, esc_non_ascii: i & 8 != 0, layout: ((i >> 4) & 1) as u8 }
    }
}

fn printable_ascii(s: &str) -> bool {
    s.bytes().all(|b| (0x20..=0x7e).contains(&b))
}

fn push_u16_escapes(out: &mut String, c: char) {
    let mut buf = [0u16; 2];
    for u in c.encode_utf16(&mut buf) {
        out.push_str(&format!("\\u{:04x}", u));
    }
}

// ---- JSON / JSON5

pub fn json_string(s: &str, st: &Style) -> String {
    let q = if st.json5 && st.alt_quote { '\'' } else { '"' };
    let mut out = String::new();
    out.push(q);
    for c in s.chars() {
        match c {
            _ if c == q => {
                out.push('\\');
                out.push(q);
            }
            '\\' => out.push_str("\\\\"),
            '\n' if st.short_esc => out.push_str("\\n"),
            '\r' if st.short_esc => out.push_str("\\r"),
            '\t' if st.short_esc => out.push_str("\\t"),
            '\u{8}' if st.short_esc => out.push_str("\\b"),
            '\u{c}' if st.short_esc => out.push_str("\\f"),
            c if (c as u32) < 0x20 || c as u32 == 0x7f => {
                if st.json5 && st.alt_quote {
                    out.push_str(&format!("\\x{:02x}", c as u32));
                } else {
                    out.push_str(&format!("\\u{:04x}", c as u32));
                }
            }
            '\u{2028}' | '\u{2029}' => push_u16_escapes(&mut out, c),
            c if (c as u32) > 0x7f && st.esc_non_ascii => push_u16_escapes(&mut out, c),
            c => out.push(c),
        }
    }
    out.push(q);
    out
}

fn json_num(t: &str, st: &Style) -> Option<String> {
    match t {
        "inf" | "-inf" | "nan" => {
            if !st.json5 {
                return None;
            }
            Some(match t {
                "inf" => "Infinity".into(),
                "-inf" => "-Infinity".into(),
                _ => "NaN".into(),
            })
        }
        _ => Some(t.to_string()),
    }
}

pub fn emit_json(v: &V, st: &Style) -> Option<String> {
    let mut out = String::new();
    json_rec(v, st, 0, &mut out)?;
    if st.layout == 1 {
        out.push('\n');
    }
    Some(out)
}

fn json_rec(v: &V, st: &Style, ind: usize, out: &mut String) -> Option<()> {
    let pretty = st.layout == 1;
    let nl = |out: &mut String, ind: usize| {
        if pretty {
            out.push('\n');
            for _ in 0..ind {
                out.push_str("  ");
            }
        }
    };
    match v {
        V::Null => out.push_str("null"),
        V::Bool(b) => out.push_str(if *b { "true" } else { "false" }),
        V::Num(t) => out.push_str(&json_num(t, st)?),
        V::Str(s) => out.push_str(&json_string(s, st)),
        V::Arr(a) => {
            out.push('[');
            for (i, x) in a.iter().enumerate() {
                if i > 0 {
                    out.push(',');
                }
                nl(out, ind + 1);
                json_rec(x, st, ind + 1, out)?;
            }
            if !a.is_empty() {
                if st.json5 && pretty {
                    out.push(',');
                }
                nl(out, ind);
            }
            out.push(']');
        }
        V::Obj(o) => {
            out.push('{');
            for (i, (k, x)) in o.iter().enumerate() {
                if i > 0 {
                    out.push(',');
                }
                nl(out, ind + 1);
                out.push_str(&json_string(k, st));
                out.push(':');
                if pretty {
                    out.push(' ');
                }
                json_rec(x, st, ind + 1, out)?;
            }
            if !o.is_empty() {
                if st.json5 && pretty {
                    out.push(',');
                }
                nl(out, ind);
            }
            out.push('}');
        }
    }
    Some(())
}

// ---- YAML

fn yaml_must_escape(c: char) -> bool {
    let u = c as u32;
    u < 0x20 || (0x7f..=0x9f).contains(&u) || u == 0xa0 || u == 0x2028 || u == 0x2029 || u == 0xfeff || (u & 0xfffe) == 0xfffe || (0xfdd0..=0xfdef).contains(&u)
}

pub fn yaml_string(s: &str, st: &Style) -> String {
    if st.alt_quote && printable_ascii(s) {
        return format!("'{}'", s.replace('\'', "''"));
    }
    let mut out = String::from("\"");
    for c in s.chars() {
        match c {
            '"' => out.push_str("\\\""),
            '\\' => out.push_str("\\\\"),
            '\0' if st.short_esc => out.push_str("\\0"),
            '\u{7}' if st.short_esc => out.push_str("\\a"),
            '\u{8}' if st.short_esc => out.push_str("\\b"),
            '\t' if st.short_esc => out.push_str("\\t"),
            '\n' if st.short_esc => out.push_str("\\n"),
            '\u{b}' if st.short_esc => out.push_str("\\v"),
            '\u{c}' if st.short_esc => out.push_str("\\f"),
            '\r' if st.short_esc => out.push_str("\\r"),
            '\u{1b}' if st.short_esc => out.push_str("\\e"),
            c if (c as u32) <= 0xff && (yaml_must_escape(c) || ((c as u32) > 0x7f && st.esc_non_ascii)) => out.push_str(&format!("\\x{:02x}", c as u32)),
            c if (c as u32) > 0x7f && (yaml_must_escape(c) || st.esc_non_ascii) => {
                if (c as u32) <= 0xffff {
                    out.push_str(&format!("\\u{:04x}", c as u32));
                } else {
                    out.push_str(&format!("\\U{:08x}", c as u32));
                }
            }
            c => out.push(c),
        }
    }
    out.push('"');
    out
}

fn yaml_scalar(v: &V, st: &Style) -> Option<String> {
    Some(match v {
        V::Null => (if st.alt_quote { "~" } else { "null" }).to_string(),
        V::Bool(b) => b.to_string(),
        V::Num(t) => match t.as_str() {
            "inf" => ".inf".into(),
            "-inf" => "-.inf".into(),
            "nan" => ".nan".into(),
            t => t.to_string(),
        },
        V::Str(s) => yaml_string(s, st),
        V::Arr(a) if a.is_empty() => "[]".into(),
        V::Obj(o) if o.is_empty() => "{}".into(),
        _ => return None,
    })
}

pub fn emit_yaml(v: &V, st: &Style) -> Option<String> {
    let mut out = String::new();
    if st.layout == 1 {
        if let Some(s) = yaml_scalar(v, st) {
            out.push_str(&s);
            out.push('\n');
        } else {
            yaml_block(v, st, 0, &mut out);
        }
    } else {
        yaml_flow(v, st, &mut out);
        out.push('\n');
    }
    Some(out)
}

fn yaml_flow(v: &V, st: &Style, out: &mut String) {
    match v {
        V::Arr(a) if !a.is_empty() => {
            out.push('[');
            for (i, x) in a.iter().enumerate() {
                if i > 0 {
                    out.push_str(", ");
                }
                yaml_flow(x, st, out);
            }
            out.push(']');
        }
        V::Obj(o) if !o.is_empty() => {
            out.push('{');
            for (i, (k, x)) in o.iter().enumerate() {
                if i > 0 {
                    out.push_str(", ");
                }
                out.push_str(&yaml_string(k, st));
                out.push_str(": ");
                yaml_flow(x, st, out);
            }
            out.push('}');
        }
        _ => out.push_str(&yaml_scalar(v, st).unwrap_or_default()),
    }
}

fn yaml_block(v: &V, st: &Style, ind: usize, out: &mut String) {
    let pad = " ".repeat(ind);
    match v {
        V::Arr(a) => {
            for x in a {
                out.push_str(&pad);
                out.push('-');
                match yaml_scalar(x, st) {
                    Some(s) => {
                        out.push(' ');
                        out.push_str(&s);
                        out.push('\n');
                    }
                    None => {
                        out.push('\n');
                        yaml_block(x, st, ind + 2, out);
                    }
                }
            }
        }
        V::Obj(o) => {
            for (k, x) in o {
                out.push_str(&pad);
                out.push_str(&yaml_string(k, st));
                out.push(':');
                match yaml_scalar(x, st) {
                    Some(s) => {
                        out.push(' ');
                        out.push_str(&s);
                        out.push('\n');
                    }
                    None => {
                        out.push('\n');
                        yaml_block(x, st, ind + 2, out);
                    }
                }
            }
        }
        _ => {}
    }
}

// ---- TOML

pub fn toml_string(s: &str, st: &Style) -> String {
    if st.alt_quote && printable_ascii(s) && !s.contains('\'') {
        return format!("'{}'", s);
    }
    let mut out = String::from("\"");
    for c in s.chars() {
        match c {
            '"' => out.push_str("\\\""),
            '\\' => out.push_str("\\\\"),
            '\u{8}' if st.short_esc => out.push_str("\\b"),
            '\t' if st.short_esc => out.push_str("\\t"),
            '\n' if st.short_esc => out.push_str("\\n"),
            '\u{c}' if st.short_esc => out.push_str("\\f"),
            '\r' if st.short_esc => out.push_str("\\r"),
            c if (c as u32) < 0x20 || c as u32 == 0x7f => out.push_str(&format!("\\u{:04X}", c as u32)),
            c if (c as u32) > 0x7f && st.esc_non_ascii => {
                if (c as u32) <= 0xffff {
                    out.push_str(&format!("\\u{:04X}", c as u32));
                } else {
                    out.push_str(&format!("\\U{:08X}", c as u32));
                }
            }
            c => out.push(c),
        }
    }
    out.push('"');
    out
}

fn toml_inline(v: &V, st: &Style, out: &mut String) -> Option<()> {
    match v {
        V::Null => return None,
        V::Bool(b) => out.push_str(&b.to_string()),
        V::Num(t) => out.push_str(t),
        V::Str(s) => out.push_str(&toml_string(s, st)),
        V::Arr(a) => {
            out.push('[');
            for (i, x) in a.iter().enumerate() {
                if i > 0 {
                    out.push_str(", ");
                }
                toml_inline(x, st, out)?;
            }
            out.push(']');
        }
        V::Obj(o) => {
            if o.is_empty() {
                out.push_str("{}");
            } else {
                out.push_str("{ ");
                for (i, (k, x)) in o.iter().enumerate() {
                    if i > 0 {
                        out.push_str(", ");
                    }
                    out.push_str(&toml_string(k, st));
                    out.push_str(" = ");
                    toml_inline(x, st, out)?;
                }
                out.push_str(" }");
            }
        }
    }
    Some(())
}

fn is_table_array(v: &V) -> bool {
    matches!(v, V::Arr(a) if !a.is_empty() && a.iter().all(|x| matches!(x, V::Obj(_))))
}

fn toml_table(o: &[(String, V)], st: &Style, path: &str, out: &mut String) -> Option<()> {
    let headers = st.layout == 1;
    for (k, x) in o {
        if headers && (matches!(x, V::Obj(_)) || is_table_array(x)) {
            continue;
        }
        out.push_str(&toml_string(k, st));
        out.push_str(" = ");
        toml_inline(x, st, out)?;
        out.push('\n');
    }
    if headers {
        for (k, x) in o {
            let p = if path.is_empty() { toml_string(k, st) } else { format!("{}.{}", path, toml_string(k, st)) };
            match x {
                V::Obj(sub) => {
                    out.push_str(&format!("[{}]\n", p));
                    toml_table(sub, st, &p, out)?;
                }
                x if is_table_array(x) => {
                    if let V::Arr(a) = x {
                        for el in a {
                            if let V::Obj(sub) = el {
                                out.push_str(&format!("[[{}]]\n", p));
                                toml_table(sub, st, &p, out)?;
                            }
                        }
                    }
                }
                _ => {}
            }
        }
    }
    Some(())
}

/// None when TOML cannot express the tree (root not a table, a null somewhere)
pub fn emit_toml(v: &V, st: &Style) -> Option<String> {
    let o = match v {
        V::Obj(o) => o,
        _ => return None,
    };
    if v.has_null() {
        return None;
    }
    let mut out = String::new();
    toml_table(o, st, "", &mut out)?;
    Some(out)
}

// ---------------------------------------------------------------------------------------------
// precondition: the format parser read the document as the tree

fn num_same(parsed: f64, text: &str) -> bool {
    match num_value(text) {
        Some(e) => (e.is_nan() && parsed.is_nan()) || e == parsed,
        None => false,
    }
}

pub fn same_json(p: &serde_json::Value, v: &V) -> Result<(), &'static str> {
    use serde_json::Value as P;
    match (p, v) {
        (P::Null, V::Null) => Ok(()),
        (P::Bool(a), V::Bool(b)) if a == b => Ok(()),
        (P::Number(n), V::Num(t)) => {
            let f = if let Some(u) = n.as_u64() {
                if num_is_integer_text(t) && t.parse::<i128>().map_or(false, |x| x != u as i128) {
                    return Err("number");
                }
                u as f64
            } else if let Some(i) = n.as_i64() {
                if num_is_integer_text(t) && t.parse::<i128>().map_or(false, |x| x != i as i128) {
                    return Err("number");
                }
                i as f64
            } else {
                n.as_f64().ok_or("number")?
            };
            if num_same(f, t) {
                Ok(())
            } else {
                Err("number")
            }
        }
        (P::Null, V::Num(t)) if matches!(t.as_str(), "inf" | "-inf" | "nan") || num_value(t).map_or(false, |f| f.is_infinite()) => Err("non-finite-becomes-null"),
        (P::String(a), V::Str(b)) => {
            if a == b {
                Ok(())
            } else {
                Err("string")
            }
        }
        (P::Array(a), V::Arr(b)) => {
            if a.len() != b.len() {
                return Err("shape");
            }
            for (x, y) in a.iter().zip(b) {
                same_json(x, y)?;
            }
            Ok(())
        }
        (P::Object(a), V::Obj(b)) => {
            if a.len() != b.len() {
                return Err("shape");
            }
            for (k, y) in b {
                same_json(a.get(k).ok_or("key")?, y)?;
            }
            Ok(())
        }
        _ => Err("type"),
    }
}

pub fn same_yaml(p: &serde_yaml::Value, v: &V) -> Result<(), &'static str> {
    use serde_yaml::Value as P;
    match (p, v) {
        (P::Null, V::Null) => Ok(()),
        (P::Bool(a), V::Bool(b)) if a == b => Ok(()),
        (P::Number(n), V::Num(t)) => {
            let f = if let Some(u) = n.as_u64() {
                if num_is_integer_text(t) && t.parse::<i128>().map_or(false, |x| x != u as i128) {
                    return Err("number");
                }
                u as f64
            } else if let Some(i) = n.as_i64() {
                if num_is_integer_text(t) && t.parse::<i128>().map_or(false, |x| x != i as i128) {
                    return Err("number");
                }
                i as f64
            } else {
                n.as_f64().ok_or("number")?
            };
            if num_same(f, t) {
                Ok(())
            } else {
                Err("number")
            }
        }
        (P::String(_), V::Num(_)) => Err("number-read-as-string"),
        (P::String(a), V::Str(b)) => {
            if a == b {
                Ok(())
            } else {
                Err("string")
            }
        }
        (P::Sequence(a), V::Arr(b)) => {
            if a.len() != b.len() {
                return Err("shape");
            }
            for (x, y) in a.iter().zip(b) {
                same_yaml(x, y)?;
            }
            Ok(())
        }
        (P::Mapping(a), V::Obj(b)) => {
            if a.len() != b.len() {
                return Err("shape");
            }
            for (k, y) in b {
                same_yaml(a.get(&P::String(k.clone())).ok_or("key")?, y)?;
            }
            Ok(())
        }
        _ => Err("type"),
    }
}

pub fn same_toml(p: &toml::Value, v: &V) -> Result<(), &'static str> {
    use toml::Value as P;
    match (p, v) {
        (P::Boolean(a), V::Bool(b)) if a == b => Ok(()),
        (P::Integer(i), V::Num(t)) => {
            if num_is_integer_text(t) && t.parse::<i64>().ok() == Some(*i) {
                Ok(())
            } else {
                Err("number")
            }
        }
        (P::Float(f), V::Num(t)) => {
            if num_same(*f, t) {
                Ok(())
            } else {
                Err("number")
            }
        }
        (P::String(a), V::Str(b)) => {
            if a == b {
                Ok(())
            } else {
                Err("string")
            }
        }
        (P::Array(a), V::Arr(b)) => {
            if a.len() != b.len() {
                return Err("shape");
            }
            for (x, y) in a.iter().zip(b) {
                same_toml(x, y)?;
            }
            Ok(())
        }
        (P::Table(a), V::Obj(b)) => {
            if a.len() != b.len() {
                return Err("shape");
            }
            for (k, y) in b {
                same_toml(a.get(k).ok_or("key")?, y)?;
            }
            Ok(())
        }
        _ => Err("type"),
    }
}

// ---------------------------------------------------------------------------------------------
// oracle: Lua value of the reference interpreter == tree

pub struct Diff {
    /// short stable class: what went wrong
    pub what: String,
    pub path: String,
    pub detail: String,
}

fn show_lua(v: &LV) -> String {
    match v {
        LV::Nil => "nil".into(),
        LV::Bool(b) => b.to_string(),
        LV::Num(n) => format!("number {:?}", n),
        LV::Str(s) => format!("string {}", show_bytes(s)),
        LV::Table(t) => {
            let d = t.data.borrow();
            format!("table ({} array slots, {} hash entries)", d.arr.len(), d.hash.len())
        }
        other => other.type_name().to_string(),
    }
}

pub fn show_bytes(b: &[u8]) -> String {
    let mut out = String::from("\"");
    for &c in b {
        match c {
            b'"' => out.push_str("\\\""),
            b'\\' => out.push_str("\\\\"),
            0x20..=0x7e => out.push(c as char),
            _ => out.push_str(&format!("\\x{:02x}", c)),
        }
    }
    out.push('"');
    out
}

fn entries(t: &crate::reflua::value::TableData) -> usize {
    t.arr.iter().filter(|x| !matches!(x, LV::Nil)).count() + t.hash.values().filter(|x| !matches!(x, LV::Nil)).count()
}

fn describe_keys(t: &crate::reflua::value::TableData) -> String {
    let mut out = vec![];
    if !t.arr.is_empty() {
        out.push(format!("1..{}", t.arr.len()));
    }
    for k in t.hash.keys().take(12) {
        out.push(match k {
            Key::Str(s) => show_bytes(s),
            Key::Num(bits) => format!("[{:?}]", crate::reflua::value::key_to_value_num(*bits)),
            Key::Bool(b) => format!("[{}]", b),
            Key::Obj(..) => "[object]".into(),
        });
    }
    out.join(", ")
}

pub fn same_lua(l: &LV, v: &V, path: &str) -> Result<(), Diff> {
    let diff = |what: &str, detail: String| Err(Diff { what: what.to_string(), path: if path.is_empty() { "<root>".into() } else { path.to_string() }, detail });
    match v {
        V::Null => match l {
            LV::Nil => Ok(()),
            _ => diff("null-not-nil", format!("expected nil (null), got {}", show_lua(l))),
        },
        V::Bool(b) => match l {
            LV::Bool(x) if x == b => Ok(()),
            _ => diff("boolean-differs", format!("expected {}, got {}", b, show_lua(l))),
        },
        V::Num(t) => {
            let e = match num_value(t) {
                Some(e) => e,
                None => return diff("harness-bad-number", t.clone()),
            };
            match l {
                LV::Num(x) if (e.is_nan() && x.is_nan()) || *x == e => Ok(()),
                LV::Num(x) => diff("number-differs", format!("number text {} => nearest double {:?}, got {:?}", t, e, x)),
                _ => diff("number-wrong-type", format!("number text {} => expected {:?}, got {}", t, e, show_lua(l))),
            }
        }
        V::Str(s) => match l {
            LV::Str(x) if &**x == s.as_bytes() => Ok(()),
            LV::Str(x) => diff("string-differs", format!("expected string {}, got {}", show_bytes(s.as_bytes()), show_bytes(x))),
            _ => diff("string-wrong-type", format!("expected string {}, got {}", show_bytes(s.as_bytes()), show_lua(l))),
        },
        V::Arr(a) => {
            let t = match l {
                LV::Table(t) => t,
                _ => return diff("array-wrong-type", format!("expected a sequence of {} elements, got {}", a.len(), show_lua(l))),
            };
            let d = t.data.borrow();
            if d.meta.is_some() {
                return diff("table-has-metatable", String::new());
            }
            for (i, x) in a.iter().enumerate() {
                let got = d.get(&LV::Num((i + 1) as f64));
                let p = format!("{}[{}]", path, i + 1);
                if let Err(mut e) = same_lua(&got, x, &p) {
                    // is it a shift? (what sits here is the element expected at another index)
                    // (only judged as such when a null precedes: the element expected later arrived early)
                    if !matches!(got, LV::Nil) && a[..=i].iter().any(|y| matches!(y, V::Null)) {
                        for (j, y) in a.iter().enumerate() {
                            if j > i && y != x && same_lua(&got, y, &p).is_ok() {
                                e.what = "array-index-shift".into();
                                e.detail = format!("{} (index {} holds the element expected at index {})", e.detail, i + 1, j + 1);
                                break;
                            }
                        }
                    }
                    return Err(e);
                }
            }
            let want = a.iter().filter(|x| !matches!(x, V::Null)).count();
            let have = entries(&d);
            if have != want {
                return diff("array-extra-entries", format!("expected exactly {} non-nil entries, the table has {} (keys: {})", want, have, describe_keys(&d)));
            }
            Ok(())
        }
        V::Obj(o) => {
            let t = match l {
                LV::Table(t) => t,
                _ => return diff("object-wrong-type", format!("expected a table with {} keys, got {}", o.len(), show_lua(l))),
            };
            let d = t.data.borrow();
            if d.meta.is_some() {
                return diff("table-has-metatable", String::new());
            }
            for (k, x) in o {
                let got = d.get(&LV::bytes(k.as_bytes()));
                let p = format!("{}[{}]", path, show_bytes(k.as_bytes()));
                if matches!(got, LV::Nil) && !matches!(x, V::Null) {
                    return Err(Diff { what: "key-missing".into(), path: p, detail: format!("no entry under the string key {}; the table's keys: {}", show_bytes(k.as_bytes()), describe_keys(&d)) });
                }
                same_lua(&got, x, &p)?;
            }
            let want = o.iter().filter(|(_, x)| !matches!(x, V::Null)).count();
            let have = entries(&d);
            if have != want {
                return diff("object-extra-entries", format!("expected exactly {} non-nil entries, the table has {} (keys: {})", want, have, describe_keys(&d)));
            }
            Ok(())
        }
    }
}
