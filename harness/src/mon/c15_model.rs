//! Model of darklua's require resolution, written from the documentation
//! (`site/content/docs/path-require-mode`, `luau-require-mode`, `bundle`) and the statement of
//! property C15.  Shared by C15 (resolution / convert_require) and C05 (model `require`).
//!
//! The model is *lexical*: paths are `/`-separated strings, never touched through std::path, so
//! that it shares nothing with darklua's `utils::normalize` / `path_iterator`.
//!
//! Wherever the documentation leaves room the model returns every acceptable outcome
//! (`Resolution::accept`) or declares the question undecided; callers must then accept anything.

use crate::framework::guarded;
use serde_json::{json, Value};
use std::collections::{BTreeMap, BTreeSet};

// ------------------------------------------------------------------------------------------
// lexical paths

pub fn is_abs(p: &str) -> bool {
    p.starts_with('/')
}

pub fn comps(p: &str) -> Vec<&str> {
    p.split('/').filter(|c| !c.is_empty()).collect()
}

/// remove `.` segments, fold `name/..`; leading `..` of a relative path are kept.
/// The current directory is the empty string.
pub fn norm(p: &str) -> String {
    let abs = is_abs(p);
    let mut st: Vec<&str> = vec![];
    for c in comps(p) {
        match c {
            "." => {}
            ".." => {
                if let Some(last) = st.last() {
                    if *last != ".." {
                        st.pop();
                        continue;
                    }
                }
                if !abs {
                    st.push("..");
                }
            }
            _ => st.push(c),
        }
    }
    let j = st.join("/");
    if abs {
        format!("/{}", j)
    } else {
        j
    }
}

pub fn join(a: &str, b: &str) -> String {
    if is_abs(b) || a.is_empty() {
        b.to_string()
    } else if b.is_empty() {
        a.to_string()
    } else if a.ends_with('/') {
        format!("{}{}", a, b)
    } else {
        format!("{}/{}", a, b)
    }
}

/// directory containing the (normalised) path
pub fn parent(p: &str) -> String {
    let n = norm(p);
    if n.is_empty() {
        return "..".into();
    }
    if n == "/" {
        return "/".into();
    }
    if n == ".." || n.ends_with("/..") {
        return format!("{}/..", n);
    }
    match n.rfind('/') {
        Some(0) => "/".into(),
        Some(i) => n[..i].to_string(),
        None => String::new(),
    }
}

pub fn file_name(p: &str) -> Option<String> {
    let n = norm(p);
    let last = n.rsplit('/').next().unwrap_or("");
    if last.is_empty() || last == ".." {
        None
    } else {
        Some(last.to_string())
    }
}

/// extension of a file name: text after the last dot, unless the only dot is the first character
pub fn extension(name: &str) -> Option<&str> {
    let base = name.rsplit('/').next().unwrap_or(name);
    match base.rfind('.') {
        Some(0) | None => None,
        Some(i) => Some(&base[i + 1..]),
    }
}

pub fn stem(name: &str) -> &str {
    match name.rfind('.') {
        Some(0) | None => name,
        Some(i) => &name[..i],
    }
}

/// is the file a module-folder file of the luau mode (`init`, `init.lua`, `init.luau`)?
pub fn is_init_file(p: &str) -> bool {
    match file_name(p) {
        Some(n) => n == "init" || n == "init.lua" || n == "init.luau",
        None => false,
    }
}

// ------------------------------------------------------------------------------------------
// require mode configuration

#[derive(Clone, Debug, PartialEq)]
pub struct ModeCfg {
    pub luau: bool,
    /// path mode only
    pub mfn: String,
    /// `sources` (path) / `aliases` (luau): name -> location relative to the configuration file
    pub sources: BTreeMap<String, String>,
    /// `use_luau_configuration` (None = leave the default, which is true)
    pub use_rc: Option<bool>,
}

impl ModeCfg {
    pub fn path() -> ModeCfg {
        ModeCfg { luau: false, mfn: "init".into(), sources: BTreeMap::new(), use_rc: None }
    }
    pub fn luau() -> ModeCfg {
        ModeCfg { luau: true, mfn: "init".into(), sources: BTreeMap::new(), use_rc: None }
    }
    pub fn name(&self) -> &'static str {
        if self.luau {
            "luau"
        } else {
            "path"
        }
    }
    pub fn module_folder_name(&self) -> &str {
        if self.luau {
            "init"
        } else {
            &self.mfn
        }
    }
    pub fn rc_enabled(&self) -> bool {
        self.use_rc.unwrap_or(true)
    }
    /// JSON (valid JSON5) text of the require mode object
    pub fn json5(&self) -> String {
        let mut m = serde_json::Map::new();
        m.insert("name".into(), json!(self.name()));
        if !self.luau && self.mfn != "init" {
            m.insert("module_folder_name".into(), json!(self.mfn));
        }
        if !self.sources.is_empty() {
            m.insert(if self.luau { "aliases".into() } else { "sources".into() }, json!(self.sources));
        }
        if let Some(b) = self.use_rc {
            m.insert("use_luau_configuration".into(), json!(b));
        }
        if m.len() == 1 {
            return format!("\"{}\"", self.name());
        }
        Value::Object(m).to_string()
    }
    pub fn to_json(&self) -> Value {
        json!({"luau": self.luau, "mfn": self.mfn, "sources": self.sources, "use_rc": self.use_rc})
    }
    pub fn from_json(v: &Value) -> ModeCfg {
        let mut sources = BTreeMap::new();
        if let Some(o) = v["sources"].as_object() {
            for (k, x) in o {
                sources.insert(k.clone(), x.as_str().unwrap_or("").to_string());
            }
        }
        ModeCfg { luau: v["luau"].as_bool().unwrap_or(false), mfn: v["mfn"].as_str().unwrap_or("init").to_string(), sources, use_rc: v["use_rc"].as_bool() }
    }
}

// ------------------------------------------------------------------------------------------
// file-system view

pub trait FsView {
    fn is_file(&self, p: &str) -> bool;
    fn read(&self, p: &str) -> Option<String>;
}

/// files keyed by their normalised path
pub struct MapFs<'a>(pub &'a BTreeMap<String, String>);
impl FsView for MapFs<'_> {
    fn is_file(&self, p: &str) -> bool {
        self.0.contains_key(&norm(p))
    }
    fn read(&self, p: &str) -> Option<String> {
        self.0.get(&norm(p)).cloned()
    }
}

// ------------------------------------------------------------------------------------------
// resolution

#[derive(Clone, Debug, PartialEq, Eq, PartialOrd, Ord)]
pub enum Res {
    /// the require designates this (normalised) file
    File(String),
    /// no candidate exists / unknown source: darklua must report an error
    Error,
}

#[derive(Clone, Debug, Default)]
pub struct Resolution {
    /// every outcome the documentation allows (empty only when `undecided`)
    pub accept: Vec<Res>,
    /// Some(reason): the documentation does not decide this require at all
    pub undecided: Option<String>,
    /// the head of the path (normalised) before candidates are tried, when unique
    pub base: Option<String>,
    /// candidates of the documented (append) reading, in order, for the unique base
    pub candidates: Vec<String>,
    /// why more than one outcome is acceptable
    pub ambiguity: Option<&'static str>,
    /// how the head of the path was found
    pub head: Head,
}

#[derive(Clone, Debug, Default, PartialEq)]
pub enum Head {
    #[default]
    None,
    /// relative to this directory (requirer's directory, or its parent in luau mode for init files)
    Relative(String),
    Absolute,
    /// `@self`: the requirer's directory
    SelfAlias(String),
    /// a `sources` / `aliases` entry of the configuration: (name, value as written)
    ConfigAlias(String, String),
    /// an alias of the nearest `.luaurc`
    RcAlias(String),
    /// both of the above, with different targets
    Mixed,
}

impl Resolution {
    pub fn unique(&self) -> Option<&Res> {
        if self.undecided.is_none() && self.accept.len() == 1 {
            self.accept.first()
        } else {
            None
        }
    }
    pub fn allows(&self, r: &Res) -> bool {
        self.undecided.is_some() || self.accept.contains(r)
    }
    fn undecided(reason: &str) -> Resolution {
        Resolution { undecided: Some(reason.to_string()), ..Default::default() }
    }
}

/// is the first component of `req` an alias that both the configuration and the nearest `.luaurc` define, with
/// different targets?
pub fn alias_defined_twice(cfg: &ModeCfg, project: &str, fs: &dyn FsView, requirer: &str, req: &str) -> bool {
    let cs = comps(req);
    let Some(first) = cs.first().copied() else { return false };
    if !cfg.rc_enabled() {
        return false;
    }
    let Some(v) = cfg.sources.get(first) else { return false };
    let Some(name) = first.strip_prefix('@') else { return false };
    match nearest_luaurc(fs, requirer) {
        Ok(Some((_d, aliases))) => aliases.get(name).map(|t| *t != norm(&join(project, v))).unwrap_or(false),
        _ => false,
    }
}

/// aliases of the nearest `.luaurc` above `requirer`: name (without `@`) -> normalised target
pub fn nearest_luaurc(fs: &dyn FsView, requirer: &str) -> Result<Option<(String, BTreeMap<String, String>)>, String> {
    let mut dir = parent(requirer);
    loop {
        let rc = join(&dir, ".luaurc");
        if fs.is_file(&rc) {
            let text = fs.read(&rc).unwrap_or_default();
            let v: Value = serde_json::from_str(&text).map_err(|e| format!("malformed .luaurc: {}", e))?;
            let mut out = BTreeMap::new();
            if let Some(o) = v.get("aliases").and_then(|a| a.as_object()) {
                for (k, x) in o {
                    let t = x.as_str().ok_or_else(|| "alias value is not a string".to_string())?;
                    out.insert(k.clone(), norm(&join(&dir, t)));
                }
            }
            return Ok(Some((dir, out)));
        }
        if dir.is_empty() || dir == "/" || dir.ends_with("..") {
            return Ok(None);
        }
        dir = parent(&dir);
    }
}

/// candidates in the documented order for `base`
pub fn candidates_append(base: &str, mfn: &str) -> Vec<String> {
    let mut v = vec![base.to_string(), format!("{}.luau", base), format!("{}.lua", base), join(base, mfn)];
    if extension(mfn).is_none() {
        v.push(join(base, &format!("{}.luau", mfn)));
        v.push(join(base, &format!("{}.lua", mfn)));
    }
    v
}

pub fn first_file(fs: &dyn FsView, cands: &[String]) -> Res {
    for c in cands {
        if fs.is_file(c) {
            return Res::File(norm(c));
        }
    }
    Res::Error
}

/// What the documentation says `require(<req>)` written in `requirer` designates.
/// `project` is the directory of the configuration file (relative sources are based there).
pub fn resolve(cfg: &ModeCfg, project: &str, fs: &dyn FsView, requirer: &str, req: &str) -> Resolution {
    if req.contains('\\') || req.contains("//") || req.ends_with('/') {
        return Resolution::undecided("unusual separators");
    }
    let cs = comps(req);
    if cs.is_empty() {
        return Resolution::undecided("empty path");
    }
    let first = cs[0];
    let mut ambiguity: Option<&'static str> = None;
    let mut head = Head::None;
    let bases: Vec<String> = if first == "." || first == ".." {
        let dir = parent(requirer);
        let dir = if cfg.luau && is_init_file(requirer) { parent(&dir) } else { dir };
        head = Head::Relative(dir.clone());
        vec![norm(&join(&dir, req))]
    } else if is_abs(req) {
        head = Head::Absolute;
        vec![norm(req)]
    } else {
        let rest = cs[1..].join("/");
        if cfg.luau && first == "@self" {
            if !is_init_file(requirer) {
                return Resolution::undecided("@self used outside a module-folder file");
            }
            head = Head::SelfAlias(parent(requirer));
            vec![norm(&join(&parent(requirer), &rest))]
        } else {
            let mut targets: BTreeSet<String> = BTreeSet::new();
            if let Some(v) = cfg.sources.get(first) {
                targets.insert(norm(&join(project, v)));
                head = Head::ConfigAlias(first.to_string(), v.clone());
            }
            if cfg.rc_enabled() {
                match nearest_luaurc(fs, requirer) {
                    Err(e) => return Resolution::undecided(&e),
                    Ok(Some((_dir, aliases))) => {
                        if let Some(name) = first.strip_prefix('@') {
                            if let Some(t) = aliases.get(name) {
                                targets.insert(t.clone());
                                if head == Head::None {
                                    head = Head::RcAlias(name.to_string());
                                }
                            }
                        } else if aliases.contains_key(first) && !cfg.sources.contains_key(first) {
                            return Resolution::undecided("`.luaurc` alias used without `@`");
                        }
                    }
                    Ok(None) => {}
                }
            }
            if targets.is_empty() {
                if cfg.luau && !first.starts_with('@') {
                    return Resolution::undecided("luau mode: path that is neither relative nor an alias");
                }
                return Resolution { accept: vec![Res::Error], ..Default::default() };
            }
            if targets.len() > 1 {
                // documented order ("Before looking at the `aliases` / `sources` value, darklua will attempt to find the
                // nearest `.luaurc` ... If it finds one, it will load the aliases"): the `.luaurc` alias is the one used
                if let Ok(Some((_dir, aliases))) = nearest_luaurc(fs, requirer) {
                    if let Some(t) = first.strip_prefix('@').and_then(|n| aliases.get(n)) {
                        targets = [t.clone()].into_iter().collect();
                        head = Head::RcAlias(first.trim_start_matches('@').to_string());
                    }
                }
            }
            if targets.len() > 1 {
                head = Head::Mixed;
                ambiguity = Some("same name in the configuration and in .luaurc with different targets");
            }
            targets.into_iter().map(|t| norm(&join(&t, &rest))).collect()
        }
    };
    let mfn = cfg.module_folder_name().to_string();
    let mut accept: BTreeSet<Res> = BTreeSet::new();
    let mut cands_doc: Vec<String> = vec![];
    for base in &bases {
        let name = match file_name(base) {
            Some(n) => n,
            None => {
                let mut r = Resolution::undecided("path without a file name");
                r.base = Some(base.clone());
                r.head = head;
                return r;
            }
        };
        let a = candidates_append(base, &mfn);
        accept.insert(first_file(fs, &a));
        if let Some(ext) = extension(&name) {
            // "the given path with a `luau` extension" can also be read as replacing the extension
            let dir = parent(base);
            let st = join(&dir, stem(&name));
            let mut r = a.clone();
            r[1] = format!("{}.luau", st);
            r[2] = format!("{}.lua", st);
            let rr = first_file(fs, &r);
            if !accept.contains(&rr) {
                accept.insert(rr);
                ambiguity = Some("path with an extension: `with a luau extension` may append or replace");
            }
            if ext == "lua" || ext == "luau" {
                // a path that already names a Lua file may be tried alone
                let only = first_file(fs, &a[..1]);
                if !accept.contains(&only) {
                    accept.insert(only);
                    ambiguity = Some("path already carrying a Lua extension: further candidates may or may not be tried");
                }
            }
        }
        cands_doc = a;
    }
    Resolution {
        accept: accept.into_iter().collect(),
        undecided: None,
        base: if bases.len() == 1 { Some(bases[0].clone()) } else { None },
        candidates: if bases.len() == 1 { cands_doc } else { vec![] },
        ambiguity,
        head,
    }
}

/// kinds of file darklua documents as requirable
pub fn file_kind(p: &str) -> &'static str {
    match extension(p) {
        Some("lua") | Some("luau") => "lua",
        Some("json") | Some("json5") => "json",
        Some("yml") | Some("yaml") => "yaml",
        Some("toml") => "toml",
        Some("txt") => "txt",
        _ => "unsupported",
    }
}

// ------------------------------------------------------------------------------------------
// running darklua on a small project

pub struct DlOut {
    pub ok: bool,
    pub errors: Vec<String>,
    /// content of the output file, if it exists afterwards
    pub output: Option<String>,
    pub panic: Option<String>,
    /// the harness could not set the project up (never a verdict about darklua)
    pub harness: Option<String>,
}

static FS_COUNTER: std::sync::atomic::AtomicU64 = std::sync::atomic::AtomicU64::new(0);

/// unique scratch directory for the file-system back end (caller removes it)
pub fn scratch_dir(tag: &str) -> String {
    let n = FS_COUNTER.fetch_add(1, std::sync::atomic::Ordering::Relaxed);
    // a memory-backed directory when there is one (plain disk scratch can cost 100 ms per layout)
    let name = format!("dlverif-{}-{}-{}", tag, std::process::id(), n);
    let shm = std::path::Path::new("/dev/shm");
    if std::env::var_os("DLVERIF_SCRATCH_ON_DISK").is_none() && shm.is_dir() {
        let d = shm.join(&name);
        if std::fs::create_dir_all(&d).is_ok() {
            return d.to_string_lossy().to_string();
        }
    }
    let d = std::env::temp_dir().join(&name);
    d.to_string_lossy().to_string()
}

/// `process(input -> output)` with the configuration file at `config_path`.
/// `fs_root`: None = in-memory resources; Some(dir) = real files, every path must be absolute
/// under that directory (created here, removed by the caller).
pub fn run_darklua(files: &BTreeMap<String, String>, config_path: &str, input: &str, output: &str, fs_root: Option<&str>) -> DlOut {
    use darklua_core::{Options, Resources};
    let resources = match fs_root {
        None => Resources::from_memory(),
        Some(_) => Resources::from_file_system(),
    };
    for (p, c) in files {
        if resources.write(p, c).is_err() {
            return DlOut { ok: false, errors: vec![], output: None, panic: None, harness: Some(format!("cannot write `{}`", p)) };
        }
    }
    let options = Options::new(input).with_configuration_at(config_path).with_output(output);
    let r = guarded(|| match darklua_core::process(&resources, options) {
        Ok(tree) => match tree.result() {
            Ok(()) => (true, vec![]),
            Err(errs) => (false, errs.iter().map(|e| e.to_string()).collect::<Vec<_>>()),
        },
        Err(e) => (false, vec![e.to_string()]),
    });
    match r {
        Ok((ok, errors)) => {
            let output = resources.get(output).ok();
            DlOut { ok, errors, output, panic: None, harness: None }
        }
        Err(msg) => DlOut { ok: false, errors: vec![], output: None, panic: Some(msg), harness: None },
    }
}

#[cfg(test)]
mod test {
    use super::*;
    #[test]
    fn norms() {
        assert_eq!(norm("./a/../b"), "b");
        assert_eq!(norm("a/d/../../../m"), "../m");
        assert_eq!(norm("/r/p/./x/../m"), "/r/p/m");
        assert_eq!(parent("a/d/main.lua"), "a/d");
        assert_eq!(parent("main.lua"), "");
        assert_eq!(parent(""), "..");
        assert_eq!(extension("m.json"), Some("json"));
        assert_eq!(extension(".luaurc"), None);
    }
}
