use crate::framework::Monitor;

pub mod behav;
pub mod c02;
pub mod c04;
pub mod c05;
pub mod c07;
pub mod c08;
pub mod c09;
pub mod c10;
pub mod c10_inv;
pub mod c10_model;
pub mod c10_watch;
pub mod c11;
pub mod c12;
pub mod c13;
pub mod c14;
pub mod c14_fmt;
pub mod c15;
pub mod c15_model;
pub mod c19;
pub mod c19_model;
pub mod c19_probe;
pub mod c20;
pub mod exec;
pub mod fstree;
pub mod textmon;
pub mod triggers;

pub fn make(id: &str) -> Option<Box<dyn Monitor>> {
    match id {
        "C01" => Some(Box::new(behav::Behav::new(behav::Kind::C01))),
        "C06" => Some(Box::new(behav::Behav::new(behav::Kind::C06))),
        "C16" => Some(Box::new(behav::Behav::new(behav::Kind::C16))),
        "C17" => Some(Box::new(behav::Behav::new(behav::Kind::C17))),
        "C02" => Some(Box::new(c02::C02::default())),
        "C03" => Some(Box::new(textmon::C03::default())),
        "C18" => Some(Box::new(textmon::C18::default())),
        "C14" => Some(Box::new(c14::C14::default())),
        "C19" => Some(Box::new(c19::C19::default())),
        "C11" => Some(Box::new(c11::C11::default())),
        "C20" => Some(Box::new(c20::C20::default())),
        "C05" => Some(Box::new(c05::C05::default())),
        "C15" => Some(Box::new(c15::C15::default())),
        "C10" => Some(Box::new(c10::C10::default())),
        "C13" => Some(Box::new(c13::C13::default())),
        "C08" => Some(Box::new(c08::C08::default())),
        "C07" => Some(Box::new(c07::C07::default())),
        "C09" => Some(Box::new(c09::C09::default())),
        "C04" => Some(Box::new(c04::C04::default())),
        "C12" => Some(Box::new(c12::C12::default())),
        _ => None,
    }
}

pub fn selftest() -> i32 {
    crate::selftest::run()
}
