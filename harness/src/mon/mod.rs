use crate::framework::Monitor;

pub mod c12;

pub fn make(id: &str) -> Option<Box<dyn Monitor>> {
    match id {
        "C12" => Some(Box::new(c12::C12::default())),
        _ => None,
    }
}

pub fn selftest() -> i32 {
    crate::selftest::run()
}
