//! C01 / C06 / C16 / C17 — behaviour preservation by differential execution against the
//! reference interpreter (DESIGN.md §6).

use super::exec::{compare, Cmp, ExecOpts, Model};
use crate::corpus;
use crate::dl;
use crate::framework::*;
use crate::gen::prog::{self, Feat};
use crate::gen::shrink::shrink_source;
use crate::reflua::parser::{parse_block, Mode};
use crate::reflua::print::print_block;
use crate::rng::{hash64, Rng};
use serde_json::{json, Value};

#[derive(Clone, Copy, PartialEq, Eq, Debug)]
pub enum Kind {
    C01,
    C06,
    C16,
    C17,
}

pub struct Behav {
    kind: Kind,
    corpus: Vec<corpus::CorpusItem>,
    loaded: bool,
}

pub const LOWERING: [&str; 8] = [
    "remove_compound_assignment",
    "remove_continue",
    "remove_if_expression",
    "'remove_interpolated_string'",
    "remove_floor_division",
    "convert_luau_number",
    "make_assignment_local",
    "remove_types",
];

pub const REFACTOR: [&str; 5] = ["group_local_assignment", "convert_local_function_to_assign", "convert_function_to_assignment", "remove_method_call", "convert_square_root_call"];

fn q(rule: &str) -> String {
    if rule.starts_with('{') || rule.starts_with('\'') {
        rule.to_string()
    } else {
        format!("'{}'", rule)
    }
}

impl Behav {
    pub fn new(kind: Kind) -> Behav {
        Behav { kind, corpus: vec![], loaded: false }
    }

    fn load(&mut self) {
        if self.loaded {
            return;
        }
        self.loaded = true;
        // corpus items that both parsers accept
        let want_luau = matches!(self.kind, Kind::C06);
        for it in corpus::load() {
            if it.text.len() > 6000 {
                continue;
            }
            if !(it.kind.starts_with("rule_test") || it.kind == "src_test" || it.kind.starts_with("fm_") && it.kind.ends_with("pass") || it.kind == "repo_file") {
                continue;
            }
            if !matches!(guarded(|| dl::parse_tokens(&it.text).is_ok()), Ok(true)) || parse_block(&it.text, Mode::Luau).is_err() {
                continue;
            }
            let is51 = parse_block(&it.text, Mode::Strict51).is_ok();
            if want_luau && is51 && !it.kind.contains("remove_") {
                continue;
            }
            self.corpus.push(it);
        }
    }

    fn feat(&self, r: &mut Rng) -> Feat {
        let mut f = Feat::default();
        f.max_stmts = 12 + r.below(40);
        f.avoid = avoid_list(self.kind);
        match self.kind {
            Kind::C01 => {}
            Kind::C06 => {
                f.luau = true;
                f.types = r.bool();
                f.idioms_default = r.chance(1, 3);
            }
            Kind::C16 => {
                f.idioms_refactor = true;
                f.idioms_default = r.chance(1, 3);
            }
            Kind::C17 => {
                f.idioms_removal = true;
                f.idioms_default = r.chance(1, 4);
            }
        }
        f
    }

    fn rule_pool(&self) -> Vec<String> {
        match self.kind {
            Kind::C01 => dl::DEFAULT_RULES.iter().map(|s| s.to_string()).collect(),
            Kind::C06 => LOWERING.iter().map(|s| s.to_string()).collect(),
            Kind::C16 => REFACTOR.iter().map(|s| s.to_string()).collect(),
            Kind::C17 => vec![],
        }
    }

    fn gen_config(&self, r: &mut Rng, index: u64, slot: u32) -> (Vec<String>, String, Value) {
        // returns (rules, generator json, model json)
        let gens = ["retain_lines", "dense", "readable"];
        let gname = gens[r.below(3)];
        let span = match r.below(5) {
            0 => Some(80),
            1 => Some(r.below(121)),
            2 => Some(*r.pick(&[0usize, 1, 2, 5, 10, 20])),
            _ => None,
        };
        let generator = dl::generator_json(gname, span);
        let pool = self.rule_pool();
        match self.kind {
            Kind::C17 => {
                let preserve = true;
                match (index + slot as u64) % 3 {
                    0 => (vec![format!("{{ rule: 'remove_assertions', preserve_arguments_side_effects: {} }}", preserve)], generator, json!({"kind": "assert_identity"})),
                    1 => (vec![format!("{{ rule: 'remove_debug_profiling', preserve_arguments_side_effects: {} }}", preserve)], generator, json!({"kind": "profiling_noop"})),
                    _ => {
                        let vals: [(&str, &str); 9] = [("true", "true"), ("false", "false"), ("12", "12"), ("-0.5", "-0.5"), ("'str'", "'str'"), ("null", "nil"), ("[1, 'a', true]", "{1, 'a', true}"), ("{ a: 1, 'b c': 'x' }", "{ a = 1, ['b c'] = 'x' }"), ("''", "''")];
                        if r.chance(1, 4) {
                            // the value comes from the process environment: (property, variable content or none, expected Lua value)
                            let envs: [(&str, Option<&str>, &str); 8] = [
                                ("env: 'DLVERIF_INJ'", Some("from env"), "'from env'"),
                                ("env: 'DLVERIF_INJ'", Some("12"), "'12'"),
                                ("env: 'DLVERIF_INJ'", Some(""), "''"),
                                ("env: 'DLVERIF_INJ'", None, "nil"),
                                ("env: 'DLVERIF_INJ', default_value: 7", None, "7"),
                                ("env: 'DLVERIF_INJ', default_value: 'd'", Some("set"), "'set'"),
                                ("env_json: 'DLVERIF_INJ'", Some("{ a: 1, b: [true, 'x'] }"), "{ a = 1, b = { true, 'x' } }"),
                                ("env_json: 'DLVERIF_INJ', default_value: false", None, "false"),
                            ];
                            let (prop, var, lv) = *r.pick(&envs);
                            return (vec![format!("{{ rule: 'inject_global_value', identifier: 'INJ', {} }}", prop)], generator, json!({"kind": "inject", "name": "INJ", "lua": lv, "env": ["DLVERIF_INJ", var]}));
                        }
                        let (jv, lv) = *r.pick(&vals);
                        (vec![format!("{{ rule: 'inject_global_value', identifier: 'INJ', value: {} }}", jv)], generator, json!({"kind": "inject", "name": "INJ", "lua": lv}))
                    }
                }
            }
            _ => {
                let n = pool.len();
                let rules: Vec<String> = match slot {
                    0 => {
                        // the full list (C01: default order; others: random order), C06/C16 sometimes followed by the default list
                        let mut v = pool.clone();
                        if self.kind != Kind::C01 {
                            r.shuffle(&mut v);
                            if r.chance(1, 3) {
                                v.extend(dl::DEFAULT_RULES.iter().map(|s| s.to_string()));
                            }
                        }
                        v
                    }
                    1 => vec![pool[(index as usize) % n].clone()],
                    2 => {
                        // all ordered pairs round-robin
                        let k = (index as usize) % (n * (n - 1));
                        let a = k / (n - 1);
                        let mut b = k % (n - 1);
                        if b >= a {
                            b += 1;
                        }
                        vec![pool[a].clone(), pool[b].clone()]
                    }
                    4 if n >= 3 => {
                        // (thorough) all ordered triples round-robin
                        let k = (index as usize) % (n * (n - 1) * (n - 2));
                        let a = k / ((n - 1) * (n - 2));
                        let rest = k % ((n - 1) * (n - 2));
                        let mut others: Vec<usize> = (0..n).filter(|x| *x != a).collect();
                        let b = others.remove(rest / (n - 2));
                        let c = others[rest % (n - 2)];
                        vec![pool[a].clone(), pool[b].clone(), pool[c].clone()]
                    }
                    5 => {
                        // (thorough) the whole pool in a random order
                        let mut v = pool.clone();
                        r.shuffle(&mut v);
                        v
                    }
                    _ => {
                        let size = 2 + r.below(4.min(n - 1));
                        let mut v = pool.clone();
                        r.shuffle(&mut v);
                        v.truncate(size);
                        if self.kind == Kind::C16 && r.chance(1, 3) {
                            v.extend(dl::DEFAULT_RULES.iter().map(|s| s.to_string()));
                        }
                        v
                    }
                };
                let rules = rules
                    .into_iter()
                    .map(|x| {
                        if x == "'remove_interpolated_string'" && r.bool() {
                            "{ rule: 'remove_interpolated_string', strategy: 'tostring' }".to_string()
                        } else {
                            q(&x)
                        }
                    })
                    .collect();
                (rules, generator, Value::Null)
            }
        }
    }
}

/// inject_global_value may read its value from the process environment: the case says what the variable holds
fn apply_env(model: &Value) {
    if let Some(a) = model.get("env").and_then(|e| e.as_array()) {
        if let Some(name) = a.first().and_then(|n| n.as_str()) {
            match a.get(1).and_then(|v| v.as_str()) {
                Some(v) => std::env::set_var(name, v),
                None => std::env::remove_var(name),
            }
        }
    }
}

fn avoid_list(kind: Kind) -> Vec<String> {
    // generator switches for open known findings (see known_findings.json); the stored witnesses
    // are replayed at the start of every run instead
    let mut v: Vec<&str> = vec![];
    match kind {
        Kind::C01 => v.push("and_or_multivalue_tail"),
        Kind::C06 => {
            v.push("and_or_multivalue_tail");
        }
        Kind::C16 => v.push("and_or_multivalue_tail"),
        Kind::C17 => v.push("and_or_multivalue_tail"),
    }
    v.into_iter().map(|s| s.to_string()).collect()
}

fn model_of(v: &Value) -> Model {
    match v["kind"].as_str() {
        Some("assert_identity") => Model::AssertIdentity,
        Some("profiling_noop") => Model::ProfilingNoop,
        Some("sqrt_as_pow") => Model::SqrtAsPow,
        Some("inject") => Model::Inject(v["name"].as_str().unwrap_or("INJ").to_string(), v["lua"].as_str().unwrap_or("nil").to_string()),
        _ => Model::None,
    }
}

fn rule_names(rules: &[String]) -> Vec<String> {
    rules
        .iter()
        .map(|r| {
            if let Some(i) = r.find("rule:") {
                let rest = &r[i + 5..];
                let rest = rest.trim_start().trim_start_matches('\'');
                rest.split(|c: char| c == '\'' || c == ',' || c == ' ').next().unwrap_or("").to_string()
            } else {
                r.trim_matches('\'').to_string()
            }
        })
        .collect()
}

impl Monitor for Behav {
    fn id(&self) -> &'static str {
        match self.kind {
            Kind::C01 => "C01",
            Kind::C06 => "C06",
            Kind::C16 => "C16",
            Kind::C17 => "C17",
        }
    }
    fn rule_text(&self) -> String {
        "cases: (a) every seed-corpus snippet both parsers accept, run under the universal (proxy) environment with the property's full rule list; (b) generated closed programs (type-directed grammar with per-rule idioms), each run against 4 configurations (full list, one rule round-robin, one ordered rule pair round-robin, a random ordered subset; thorough adds an ordered rule triple round-robin and the whole list in a random order) x random generator/column span. Oracle: reference interpreter, trace of external calls + return values must be equal. A case is non-trivial when darklua's output text differs from the input after whitespace normalisation (some rule fired) and the original ran to completion; distinct = hash of (source, rules, generator).".into()
    }
    fn assumptions(&self) -> Vec<String> {
        vec![
            "reference interpreter reflua implements Lua 5.1/Luau semantics as pinned in DESIGN.md appendix A (self-tested, not cross-checked against a real VM)".into(),
            "programs whose original run errors, exhausts fuel, or depends on unpinned behaviour are discarded (counted)".into(),
            "reading an identifier / literal has no side effect (darklua's documented assumption)".into(),
        ]
    }
    fn plan(&self, tier: Tier) -> Plan {
        let mut me = Behav::new(self.kind);
        me.load();
        let det = if self.kind == Kind::C17 { 0 } else { me.corpus.len() as u64 };
        Plan { deterministic: det, max_cases: u64::MAX, budget_s: if tier == Tier::Quick { 50.0 } else { 900.0 } }
    }
    fn floors(&self, _tier: Tier) -> Vec<(String, u64)> {
        vec![("held".into(), 200), ("distinct_nontrivial".into(), 100)]
    }

    fn gen(&mut self, tier: Tier, seed: u64, index: u64) -> Option<Case> {
        self.load();
        let det = if self.kind == Kind::C17 { 0 } else { self.corpus.len() as u64 };
        if index < det {
            let it = &self.corpus[index as usize];
            let mut r = case_rng(self.id(), 0, index);
            let (rules, generator, model) = self.gen_config(&mut r, index, 0);
            return Some(json!({"origin": format!("corpus:{}:{}", it.kind, it.name), "src": it.text, "universal": true,
                "configs": [{"rules": rules, "generator": generator, "model": model}]}));
        }
        let mut r = case_rng(self.id(), seed, index);
        let feat = self.feat(&mut r);
        let inject = self.kind == Kind::C17;
        let mut feat = feat;
        if inject {
            feat.inject_name = Some("INJ".to_string());
        }
        let (block, idioms) = prog::generate(&mut r, feat);
        let src = print_block(&block);
        let mut configs = vec![];
        let nconf = if self.kind == Kind::C17 { 3 } else if tier == Tier::Thorough { 6 } else { 4 };
        for slot in 0..nconf {
            let (rules, generator, model) = self.gen_config(&mut r, index, slot);
            configs.push(json!({"rules": rules, "generator": generator, "model": model}));
        }
        Some(json!({"origin": "gen", "src": src, "universal": false, "configs": configs, "idioms": idioms}))
    }

    fn run(&mut self, case: &Case, cov: &mut Cov) -> Verdict {
        let src = case["src"].as_str().unwrap_or("");
        let universal = case["universal"].as_bool().unwrap_or(false);
        let configs = case["configs"].as_array().cloned().unwrap_or_default();
        if let Some(o) = case["idioms"].as_object() {
            for (k, v) in o {
                cov.add(&format!("idiom:{}", k), v.as_u64().unwrap_or(0));
            }
        }
        let mut any_held = false;
        let mut last_discard: Option<String> = None;
        for cfg in &configs {
            let rules: Vec<String> = cfg["rules"].as_array().map(|a| a.iter().filter_map(|x| x.as_str().map(|s| s.to_string())).collect()).unwrap_or_default();
            let generator = cfg["generator"].as_str().unwrap_or("'retain_lines'");
            let model = model_of(&cfg["model"]);
            let config = dl::config_json(&rules, generator);
            apply_env(&cfg["model"]);
            let out = match dl::process_one(src, &config) {
                Ok(o) => o,
                Err(e) => {
                    if e.starts_with("config:") {
                        return Verdict::discard("harness produced a configuration darklua rejects");
                    }
                    // the input parses (checked below): an error from a behaviour-preserving rule is a failure to yield a program
                    if dl::parse_tokens(src).is_err() {
                        return Verdict::discard("darklua's parser rejects the input");
                    }
                    let first: String = e.lines().next().unwrap_or("").chars().take(80).collect();
                    return Verdict::Violated {
                        signature: "process-error".into(),
                        detail: format!("process returned an error for a parsable input: {}\nrules: {:?}", first, rules),
                        narrowed: Some(json!({"origin": case["origin"], "src": src, "universal": universal, "configs": [cfg]})),
                    };
                }
            };
            let opts = ExecOpts { both_dialects: self.kind != Kind::C06 && !universal_luau(src), universal, fuel: 200_000, model: model.clone() };
            let names = rule_names(&rules);
            match compare(src, &out, &opts) {
                Cmp::Same => {
                    any_held = true;
                    let changed = normalize_ws(&out) != normalize_ws(src);
                    for n in &names {
                        cov.hit(&format!("rule_ran:{}", n));
                    }
                    if changed {
                        cov.hit("output_differs_from_input");
                        if names.len() == 1 {
                            cov.hit(&format!("rule_fired_alone:{}", names[0]));
                        }
                    }
                    if names.len() == 2 {
                        cov.hit("ordered_pairs_run");
                    }
                    if names.len() == 3 {
                        cov.hit("ordered_triples_run");
                    }
                    if changed && cfg["model"].get("env").is_some() {
                        let form = rules.first().map(|r| if r.contains("env_json") { "env_json" } else { "env" }).unwrap_or("env");
                        let set = if cfg["model"]["env"][1].is_null() { "unset" } else { "set" };
                        let dflt = if rules.first().map(|r| r.contains("default_value")).unwrap_or(false) { "+default_value" } else { "" };
                        cov.hit(&format!("inject_from_environment:{}{}:{}", form, dflt, set));
                    }
                    let h = hash64(format!("{}|{:?}|{}", src, rules, generator).as_bytes());
                    cov.eval(if changed { Some(h) } else { None });
                    if changed && cov.want_sample() && src.len() < 1500 {
                        cov.sample(json!({"source": src, "rules": names, "generator": generator, "output": out}));
                    }
                }
                Cmp::Discard(r) => {
                    cov.hit(&format!("discard:{}", r));
                    last_discard = Some(r);
                    // the original does not meet the precondition: no configuration can be judged
                    if !any_held {
                        break;
                    }
                }
                Cmp::Differ { kind, detail } => {
                    return Verdict::Violated {
                        signature: format!("{}", kind),
                        detail: format!("rules: {:?}\ngenerator: {}\n{}\n--- source\n{}\n--- output\n{}", names, generator, detail, src, out),
                        narrowed: Some(json!({"origin": case["origin"], "src": src, "universal": universal, "configs": [cfg]})),
                    };
                }
            }
        }
        if any_held {
            Verdict::Held
        } else {
            Verdict::Discard(last_discard.unwrap_or_else(|| "no configuration".into()))
        }
    }

    fn shrink_count(&mut self, case: &Case) -> Option<usize> {
        let src = case["src"].as_str().unwrap_or("");
        let cfg = &case["configs"][0];
        let nrules = cfg["rules"].as_array().map(|a| a.len()).unwrap_or(0);
        let n_cfg = if nrules > 1 { nrules } else { 0 } + 2;
        let n_src = crate::gen::shrink::SrcShrinker::new(src).map(|s| s.count()).unwrap_or(0);
        Some(n_cfg + n_src)
    }

    fn shrink_candidate(&mut self, case: &Case, i: usize) -> Option<Case> {
        let src = case["src"].as_str().unwrap_or("");
        let cfg = &case["configs"][0];
        let rules: Vec<Value> = cfg["rules"].as_array().cloned().unwrap_or_default();
        let n_rules = if rules.len() > 1 { rules.len() } else { 0 };
        if i < n_rules {
            let mut r2 = rules.clone();
            r2.remove(i);
            let mut c = case.clone();
            c["configs"] = json!([{"rules": r2, "generator": cfg["generator"], "model": cfg["model"]}]);
            return Some(c);
        }
        let i = i - n_rules;
        if i < 2 {
            let g = ["'retain_lines'", "'dense'"][i];
            if cfg["generator"].as_str() == Some(g) || (i == 1 && cfg["generator"].as_str() == Some("'retain_lines'")) {
                return None;
            }
            let mut c = case.clone();
            c["configs"][0]["generator"] = json!(g);
            return Some(c);
        }
        let i = i - 2;
        // (the parse is repeated per candidate; it is cheap next to running the case)
        let sh = crate::gen::shrink::SrcShrinker::new(src)?;
        let text = sh.candidate(i)?;
        let mut c = case.clone();
        c["src"] = json!(text);
        c["configs"] = json!([cfg]);
        Some(c)
    }

    fn shrink(&mut self, case: &Case) -> Vec<Case> {
        let mut out = vec![];
        let src = case["src"].as_str().unwrap_or("");
        let cfg = &case["configs"][0];
        let rules: Vec<Value> = cfg["rules"].as_array().cloned().unwrap_or_default();
        // 1. fewer rules
        if rules.len() > 1 {
            for i in 0..rules.len() {
                let mut r2 = rules.clone();
                r2.remove(i);
                let mut c = case.clone();
                c["configs"] = json!([{"rules": r2, "generator": cfg["generator"], "model": cfg["model"]}]);
                out.push(c);
            }
        }
        // 2. simplest generator
        for g in ["'retain_lines'", "'dense'"] {
            if cfg["generator"].as_str() != Some(g) {
                let mut c = case.clone();
                c["configs"][0]["generator"] = json!(g);
                out.push(c);
            }
        }
        // 3. smaller program
        for s in shrink_source(src, 400) {
            let mut c = case.clone();
            c["src"] = json!(s);
            c["configs"] = json!([cfg]);
            out.push(c);
        }
        out
    }

    fn classify(&mut self, case: &Case, signature: &str) -> String {
        let cfg = &case["configs"][0];
        let rules: Vec<String> = cfg["rules"].as_array().map(|a| a.iter().filter_map(|x| x.as_str().map(|s| s.to_string())).collect()).unwrap_or_default();
        let mut names = rule_names(&rules);
        names.sort();
        names.dedup();
        let src = case["src"].as_str().unwrap_or("");
        let inj = rules.iter().find(|r| r.contains("inject_global_value")).and_then(|r| r.split("identifier:").nth(1)).map(|r| r.trim().trim_start_matches('\'').split('\'').next().unwrap_or("").to_string());
        super::triggers::INJECT_NAME.with(|n| *n.borrow_mut() = inj);
        let mut trig = super::triggers::classify(src, &names);
        if trig == "other" && names.iter().any(|n| n == "convert_square_root_call") {
            // does the difference vanish when math.sqrt is modelled as `x ^ 0.5` (the documented rewrite)?
            let generator = cfg["generator"].as_str().unwrap_or("'retain_lines'");
            apply_env(&cfg["model"]);
            if let Ok(out) = dl::process_one(src, &dl::config_json(&rules, generator)) {
                let opts = ExecOpts { both_dialects: true, universal: case["universal"].as_bool().unwrap_or(false), fuel: 200_000, model: Model::SqrtAsPow };
                if let Cmp::Same = compare(src, &out, &opts) {
                    trig = "sqrt_vs_pow_edge_value".into();
                }
            }
        }
        format!("{}|{}|{}", signature, names.join("+"), trig)
    }
}

fn universal_luau(src: &str) -> bool {
    // corpus snippets using Luau-only syntax can only be run in the Luau dialect
    parse_block(src, Mode::Strict51).is_err()
}

pub fn normalize_ws(s: &str) -> String {
    s.split_whitespace().collect::<Vec<_>>().join(" ")
}
