//! Trigger classes: narrow predicates over the *shrunk* witness of a behavioural violation.
//! A known finding is keyed on (failure kind, minimal rule set, trigger class), so a different
//! defect of the same property — or the same rule failing in another way — is still reported.

use crate::reflua::ast::*;
use crate::reflua::parser::{parse_block, Mode};

thread_local! {
    /// identifier of the inject_global_value rule of the case being classified
    pub static INJECT_NAME: std::cell::RefCell<Option<String>> = std::cell::RefCell::new(None);
}

fn shadowed_prefix_use(b: &Block, name: &str, shadowed: bool) -> bool {
    // is `name` used as the prefix of a field / index / call while a local of that name is in scope?
    let mut sh = shadowed;
    for s in &b.stmts {
        let exprs: Vec<&Expr> = match s {
            Stmt::Local { values, .. } => values.iter().collect(),
            Stmt::Assign { targets, values } => targets.iter().chain(values.iter()).collect(),
            Stmt::Call(e) => vec![e],
            Stmt::Return(es) => es.iter().collect(),
            Stmt::CompoundAssign { target, value, .. } => vec![target, value],
            _ => vec![],
        };
        if sh && exprs.iter().any(|e| prefix_use(e, name)) {
            return true;
        }
        match s {
            Stmt::Local { names, .. } => {
                if names.iter().any(|n| n.name == name) {
                    sh = true;
                }
            }
            Stmt::LocalFunction { name: n, func } => {
                if n == name {
                    sh = true;
                }
                if shadowed_prefix_use(&func.body, name, sh || func.params.iter().any(|p| p.name == name)) {
                    return true;
                }
            }
            Stmt::Do(b) => {
                if shadowed_prefix_use(b, name, sh) {
                    return true;
                }
            }
            Stmt::While { body, .. } | Stmt::Repeat { body, .. } => {
                if shadowed_prefix_use(body, name, sh) {
                    return true;
                }
            }
            Stmt::NumFor { var, body, .. } => {
                if shadowed_prefix_use(body, name, sh || var.name == name) {
                    return true;
                }
            }
            Stmt::GenFor { vars, body, .. } => {
                if shadowed_prefix_use(body, name, sh || vars.iter().any(|v| v.name == name)) {
                    return true;
                }
            }
            Stmt::If { clauses, else_block } => {
                for (_, b) in clauses {
                    if shadowed_prefix_use(b, name, sh) {
                        return true;
                    }
                }
                if let Some(b) = else_block {
                    if shadowed_prefix_use(b, name, sh) {
                        return true;
                    }
                }
            }
            Stmt::Function { func, .. } => {
                if shadowed_prefix_use(&func.body, name, sh || func.params.iter().any(|p| p.name == name)) {
                    return true;
                }
            }
            _ => {}
        }
        // function expressions inside the statement's expressions
        for e in exprs {
            if fn_bodies_use(e, name, sh) {
                return true;
            }
        }
    }
    false
}

fn fn_bodies_use(e: &Expr, name: &str, sh: bool) -> bool {
    match e {
        Expr::Function(f) => shadowed_prefix_use(&f.body, name, sh || f.params.iter().any(|p| p.name == name)),
        Expr::Call { func, args, .. } => fn_bodies_use(func, name, sh) || args.iter().any(|a| fn_bodies_use(a, name, sh)),
        Expr::MethodCall { obj, args, .. } => fn_bodies_use(obj, name, sh) || args.iter().any(|a| fn_bodies_use(a, name, sh)),
        Expr::Paren(a) | Expr::Unary(_, a) | Expr::Field(a, _) => fn_bodies_use(a, name, sh),
        Expr::Binary(_, a, b) | Expr::Index(a, b) => fn_bodies_use(a, name, sh) || fn_bodies_use(b, name, sh),
        Expr::Table(items) => items.iter().any(|it| match it {
            TableItem::Pos(v) | TableItem::Named(_, v) => fn_bodies_use(v, name, sh),
            TableItem::Keyed(k, v) => fn_bodies_use(k, name, sh) || fn_bodies_use(v, name, sh),
        }),
        _ => false,
    }
}

fn prefix_use(e: &Expr, name: &str) -> bool {
    let is = |x: &Expr| matches!(x, Expr::Name(n) if n == name);
    match e {
        Expr::Field(a, _) => is(a) || prefix_use(a, name),
        Expr::Index(a, k) => is(a) || prefix_use(a, name) || prefix_use(k, name),
        Expr::Call { func, args, .. } => is(func) || prefix_use(func, name) || args.iter().any(|a| prefix_use(a, name)),
        Expr::MethodCall { obj, args, .. } => is(obj) || prefix_use(obj, name) || args.iter().any(|a| prefix_use(a, name)),
        Expr::Paren(a) | Expr::Unary(_, a) => prefix_use(a, name),
        Expr::Binary(_, a, b) => prefix_use(a, name) || prefix_use(b, name),
        Expr::Table(items) => items.iter().any(|it| match it {
            TableItem::Pos(v) | TableItem::Named(_, v) => prefix_use(v, name),
            TableItem::Keyed(k, v) => prefix_use(k, name) || prefix_use(v, name),
        }),
        _ => false,
    }
}

pub fn classify(src: &str, rules: &[String]) -> String {
    let Ok(block) = parse_block(src, Mode::Luau) else { return "unparsable-source".into() };
    let has = |r: &str| rules.iter().any(|x| x == r);
    let mut found: Vec<&'static str> = vec![];
    let mut v = Finder { found: &mut found };
    v.block(&block, false);
    if let Some(name) = INJECT_NAME.with(|n| n.borrow().clone()) {
        if shadowed_prefix_use(&block, &name, false) {
            found.push("injected_name_shadowed_in_prefix_position");
        }
    }
    // order matters: most specific first
    // triggers needing two rules
    if has("compute_expression") && has("remove_if_expression") && found.contains(&"if_expression_with_multivalue_branch_in_tail_position") {
        return "if_expression_with_multivalue_branch_in_tail_position".into();
    }
    if has("remove_nil_declaration") && has("group_local_assignment") && found.contains(&"consecutive_locals_redeclaring_a_name") {
        return "consecutive_locals_redeclaring_a_name".into();
    }
    for (trigger, rule) in [
        ("and_or_const_left_multivalue_right_in_tail_position", "compute_expression"),
        ("continue_in_repeat_until_reading_body_local", "remove_continue"),
        ("if_expression_with_two_or_more_elseif", "remove_if_expression"),
        ("local_with_more_values_than_names_followed_by_local", "group_local_assignment"),
        ("injected_name_shadowed_in_prefix_position", "inject_global_value"),
        ("local_with_duplicate_names_and_nil_value", "remove_nil_declaration"),
        ("sqrt_of_negated_expression", "convert_square_root_call"),
        ("interpolated_string_with_holes_in_unused_local", "remove_unused_variable"),
        ("profiling_call_in_multivalue_tail_position", "remove_debug_profiling"),
    ] {
        if has(rule) && found.contains(&trigger) {
            return trigger.to_string();
        }
    }
    "other".into()
}

struct Finder<'a> {
    found: &'a mut Vec<&'static str>,
}

fn is_const_literal(e: &Expr) -> bool {
    matches!(e, Expr::Nil | Expr::True | Expr::False | Expr::Number(..) | Expr::Str(..))
}

impl<'a> Finder<'a> {
    fn add(&mut self, t: &'static str) {
        if !self.found.contains(&t) {
            self.found.push(t);
        }
    }

    fn block(&mut self, b: &Block, _in_repeat: bool) {
        for (i, s) in b.stmts.iter().enumerate() {
            if let Stmt::Local { names, values, .. } = s {
                let mut ns: Vec<&String> = names.iter().map(|b| &b.name).collect();
                let total = ns.len();
                ns.sort();
                ns.dedup();
                if ns.len() < total && values.iter().any(|v| matches!(v, Expr::Nil)) {
                    self.add("local_with_duplicate_names_and_nil_value");
                }
                if let Some(Stmt::Local { names: n2, .. }) = b.stmts.get(i + 1) {
                    if n2.iter().any(|x| names.iter().any(|y| y.name == x.name)) {
                        self.add("consecutive_locals_redeclaring_a_name");
                    }
                }
                if values.iter().any(|v| matches!(v, Expr::Interp(p) if p.iter().any(|x| matches!(x, InterpPart::Expr(_))))) {
                    self.add("interpolated_string_with_holes_in_unused_local");
                }
                if values.len() > names.len() {
                    if let Some(Stmt::Local { .. } | Stmt::LocalFunction { .. }) = b.stmts.get(i + 1) {
                        self.add("local_with_more_values_than_names_followed_by_local");
                    }
                }
            }
            self.stmt(s);
        }
    }

    fn tail(&mut self, es: &[Expr]) {
        self.tail_in(es, true)
    }

    /// `count_visible`: the number of values the last expression yields can be observed (call arguments, return
    /// lists, table constructors) - in a `local` / assignment missing values are nil anyway
    fn tail_in(&mut self, es: &[Expr], count_visible: bool) {
        // the last expression of a list is in a multi-value position
        if let Some(Expr::Binary(op, l, r)) = es.last() {
            if matches!(op, BinOp::And | BinOp::Or) && is_const_literal(l) && r.is_multi() {
                self.add("and_or_const_left_multivalue_right_in_tail_position");
            }
        }
        if let Some(Expr::Call { func, .. }) = es.last() {
            if let Expr::Field(m, f) = &**func {
                if count_visible && (f == "profilebegin" || f == "profileend") && matches!(&**m, Expr::Name(n) if n == "debug") {
                    // a no-op yields no value there; the rule writes `nil` (one value)
                    self.add("profiling_call_in_multivalue_tail_position");
                }
            }
        }
        if let Some(Expr::IfExpr { clauses, else_ }) = es.last() {
            if else_.is_multi() || clauses.iter().any(|(_, v)| v.is_multi()) {
                self.add("if_expression_with_multivalue_branch_in_tail_position");
            }
        }
        for e in es {
            self.expr(e);
        }
    }

    fn contains_continue(b: &Block) -> bool {
        b.stmts.iter().any(|s| match s {
            Stmt::Continue => true,
            Stmt::Do(b) => Self::contains_continue(b),
            Stmt::If { clauses, else_block } => clauses.iter().any(|(_, b)| Self::contains_continue(b)) || else_block.as_ref().map(Self::contains_continue).unwrap_or(false),
            _ => false,
        })
    }

    fn names_in(e: &Expr, out: &mut Vec<String>) {
        match e {
            Expr::Name(n) => out.push(n.clone()),
            Expr::Binary(_, a, b) | Expr::Index(a, b) => {
                Self::names_in(a, out);
                Self::names_in(b, out);
            }
            Expr::Unary(_, a) | Expr::Paren(a) | Expr::Field(a, _) => Self::names_in(a, out),
            Expr::Call { func, args, .. } => {
                Self::names_in(func, out);
                for a in args {
                    Self::names_in(a, out);
                }
            }
            Expr::MethodCall { obj, args, .. } => {
                Self::names_in(obj, out);
                for a in args {
                    Self::names_in(a, out);
                }
            }
            _ => {}
        }
    }

    fn stmt(&mut self, s: &Stmt) {
        match s {
            Stmt::Local { values, .. } => self.tail_in(values, false),
            Stmt::Assign { targets, values } => {
                for t in targets {
                    self.expr(t);
                }
                self.tail_in(values, false);
            }
            Stmt::CompoundAssign { target, value, .. } => {
                self.expr(target);
                self.expr(value);
            }
            Stmt::Call(e) => self.expr(e),
            Stmt::Do(b) => self.block(b, false),
            Stmt::While { cond, body } => {
                self.expr(cond);
                self.block(body, false);
            }
            Stmt::Repeat { body, cond } => {
                if Self::contains_continue(body) {
                    let mut locals: Vec<String> = vec![];
                    for s in &body.stmts {
                        match s {
                            Stmt::Local { names, .. } => locals.extend(names.iter().map(|b| b.name.clone())),
                            Stmt::LocalFunction { name, .. } => locals.push(name.clone()),
                            _ => {}
                        }
                    }
                    let mut used = vec![];
                    Self::names_in(cond, &mut used);
                    if used.iter().any(|u| locals.contains(u)) {
                        self.add("continue_in_repeat_until_reading_body_local");
                    }
                }
                self.block(body, true);
                self.expr(cond);
            }
            Stmt::If { clauses, else_block } => {
                for (c, b) in clauses {
                    self.expr(c);
                    self.block(b, false);
                }
                if let Some(b) = else_block {
                    self.block(b, false);
                }
            }
            Stmt::NumFor { start, limit, step, body, .. } => {
                self.expr(start);
                self.expr(limit);
                if let Some(s) = step {
                    self.expr(s);
                }
                self.block(body, false);
            }
            Stmt::GenFor { exprs, body, .. } => {
                self.tail(exprs);
                self.block(body, false);
            }
            Stmt::Function { func, .. } | Stmt::LocalFunction { func, .. } | Stmt::TypeFunction { func, .. } => self.block(&func.body, false),
            Stmt::Return(es) => self.tail(es),
            _ => {}
        }
    }

    fn expr(&mut self, e: &Expr) {
        match e {
            Expr::Function(f) => self.block(&f.body, false),
            Expr::Index(a, b) | Expr::Binary(_, a, b) => {
                self.expr(a);
                self.expr(b);
            }
            Expr::Field(a, _) | Expr::Unary(_, a) | Expr::Paren(a) | Expr::Cast(a, _) | Expr::TypeInstantiation(a, _) => self.expr(a),
            Expr::Call { func, args, .. } => {
                if let Expr::Field(m, f) = &**func {
                    if f == "sqrt" && matches!(&**m, Expr::Name(n) if n == "math") {
                        let mut a = args.first();
                        while let Some(Expr::Paren(x)) = a {
                            a = Some(&**x);
                        }
                        if let Some(Expr::Unary(UnOp::Neg, _)) = a {
                            self.add("sqrt_of_negated_expression");
                        }
                    }
                }
                self.expr(func);
                self.tail(args);
            }
            Expr::MethodCall { obj, args, .. } => {
                self.expr(obj);
                self.tail(args);
            }
            Expr::Table(items) => {
                let n = items.len();
                for (i, it) in items.iter().enumerate() {
                    match it {
                        TableItem::Pos(v) => {
                            if i + 1 == n {
                                self.tail(std::slice::from_ref(v));
                            } else {
                                self.expr(v);
                            }
                        }
                        TableItem::Named(_, v) => self.expr(v),
                        TableItem::Keyed(k, v) => {
                            self.expr(k);
                            self.expr(v);
                        }
                    }
                }
            }
            Expr::IfExpr { clauses, else_ } => {
                if clauses.len() >= 3 {
                    self.add("if_expression_with_two_or_more_elseif");
                }
                for (c, v) in clauses {
                    self.expr(c);
                    self.expr(v);
                }
                self.expr(else_);
            }
            Expr::Interp(parts) => {
                for p in parts {
                    if let InterpPart::Expr(e) = p {
                        self.expr(e);
                    }
                }
            }
            _ => {}
        }
    }
}
