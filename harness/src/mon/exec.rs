//! Differential execution oracle shared by C01, C05, C06, C16, C17 (DESIGN.md §2.2).

use crate::reflua::interp::{Interp, Outcome, Status};
use crate::reflua::literal::Dialect;
use crate::reflua::parser::{parse_block, Mode};

pub enum Cmp {
    Same,
    Discard(String),
    Differ { kind: &'static str, detail: String },
}

#[derive(Clone)]
pub struct ExecOpts {
    /// run under both dialects and discard programs on which they disagree
    pub both_dialects: bool,
    pub universal: bool,
    pub fuel: i64,
    /// environment modification applied to the run of the ORIGINAL only (C17 model)
    pub model: Model,
}

#[derive(Clone, Debug, PartialEq)]
pub enum Model {
    None,
    AssertIdentity,
    ProfilingNoop,
    /// math.sqrt(x) := x ^ 0.5 (what convert_square_root_call documents)
    SqrtAsPow,
    /// preset a global: name and a Lua expression text evaluated in the fresh environment
    Inject(String, String),
}

impl Default for ExecOpts {
    fn default() -> Self {
        ExecOpts { both_dialects: true, universal: false, fuel: 200_000, model: Model::None }
    }
}

fn run(block: &crate::reflua::ast::Block, d: Dialect, fuel: i64, universal: bool, model: &Model) -> Outcome {
    let mut it = Interp::new(d, fuel);
    it.universal = universal;
    match model {
        Model::None => {}
        Model::AssertIdentity => it.install_assert_identity(),
        Model::ProfilingNoop => it.install_profiling_noops(),
        Model::SqrtAsPow => it.sqrt_is_pow = true,
        Model::Inject(name, expr_text) => {
            if let Ok(b) = parse_block(&format!("return {}", expr_text), Mode::Luau) {
                if let Some(v) = it.run_chunk_values(&b).and_then(|v| v.into_iter().next()) {
                    it.set_global(name, v);
                }
            }
        }
    }
    it.run_chunk(block)
}

pub fn describe(o: &Outcome) -> String {
    let st = match &o.status {
        Status::Done(r) => format!("returns [{}]", r.join(", ")),
        Status::Error(e) => format!("ERROR {}", e),
        Status::Fuel => "OUT OF FUEL".to_string(),
        Status::Depth => "CALL DEPTH EXCEEDED".to_string(),
    };
    let mut log = o.log.clone();
    if log.len() > 40 {
        log.truncate(40);
        log.push("…".into());
    }
    format!("trace: [{}]\n  {}", log.join("; "), st)
}

fn first_diff(a: &[String], b: &[String]) -> String {
    for i in 0..a.len().max(b.len()) {
        let x = a.get(i).map(|s| s.as_str()).unwrap_or("<end of trace>");
        let y = b.get(i).map(|s| s.as_str()).unwrap_or("<end of trace>");
        if x != y {
            return format!("first difference at event {}: original `{}` vs transformed `{}`", i, x, y);
        }
    }
    String::new()
}

/// Compare the observable behaviour of `original` and `transformed`.
pub fn compare(original: &str, transformed: &str, opts: &ExecOpts) -> Cmp {
    let r = compare_in(original, transformed, opts, false);
    if let Cmp::Differ { .. } = &r {
        if !opts.both_dialects {
            // Luau-only input: a difference that disappears under Lua 5.1's arithmetic / formatting rules depends on
            // behaviour where the two dialects disagree, which the properties leave out
            match compare_in(original, transformed, opts, true) {
                Cmp::Same => return Cmp::Discard("difference only under Luau-specific arithmetic/formatting (dialect-dependent)".into()),
                Cmp::Discard(why) => return Cmp::Discard(format!("dialect-dependent: under Lua 5.1 semantics {}", why)),
                _ => {}
            }
        }
    }
    r
}

fn compare_in(original: &str, transformed: &str, opts: &ExecOpts, force_l51: bool) -> Cmp {
    let ob = match parse_block(original, Mode::Luau) {
        Ok(b) => b,
        Err(e) => return Cmp::Discard(format!("reference parser rejects the original: {}", e.msg)),
    };
    let dialects: Vec<Dialect> = if force_l51 { vec![Dialect::L51] } else if opts.both_dialects { vec![Dialect::Luau, Dialect::L51] } else { vec![Dialect::Luau] };
    let mut originals: Vec<Outcome> = vec![];
    for d in &dialects {
        let o = run(&ob, *d, opts.fuel, opts.universal, &opts.model);
        match &o.status {
            Status::Done(_) => {}
            Status::Error(_) => return Cmp::Discard("original raises an error".into()),
            Status::Fuel => return Cmp::Discard("original out of fuel".into()),
            Status::Depth => return Cmp::Discard("original exceeds call depth".into()),
        }
        if let Some(u) = &o.uncertain {
            return Cmp::Discard(format!("original depends on behaviour the reference does not pin: {}", u.split(':').next().unwrap_or(u)));
        }
        originals.push(o);
    }
    if originals.len() == 2 && (originals[0].log != originals[1].log || originals[0].status != originals[1].status) {
        return Cmp::Discard("dialects disagree on the original".into());
    }
    let tb = match parse_block(transformed, Mode::Luau) {
        Ok(b) => b,
        Err(e) => return Cmp::Differ { kind: "unparsable-output", detail: format!("the reference parser rejects the output: {}", e) },
    };
    for (i, d) in dialects.iter().enumerate() {
        let o0 = &originals[i];
        let fuel = (o0.steps as i64) * 20 + 2000;
        let mut o1 = run(&tb, *d, fuel, opts.universal, &Model::None);
        if o1.status == Status::Fuel {
            o1 = run(&tb, *d, (o0.steps as i64) * 200 + 20000, opts.universal, &Model::None);
            if o1.status == Status::Fuel {
                return Cmp::Differ { kind: "nontermination", detail: format!("original finishes in {} steps, transformed does not finish within 200x that\noriginal {}", o0.steps, describe(o0)) };
            }
        }
        if o1.status == Status::Depth {
            return Cmp::Discard("transformed exceeds call depth".into());
        }
        if let Some(u) = &o1.uncertain {
            return Cmp::Discard(format!("transformed depends on behaviour the reference does not pin: {}", u.split(':').next().unwrap_or(u)));
        }
        if let Status::Error(e) = &o1.status {
            return Cmp::Differ { kind: "error", detail: format!("[{:?}] transformed raises {} \n  after trace [{}]\noriginal {}", d, e, o1.log.join("; "), describe(o0)) };
        }
        if o0.log != o1.log {
            return Cmp::Differ { kind: "trace", detail: format!("[{:?}] {}\noriginal    {}\ntransformed {}", d, first_diff(&o0.log, &o1.log), describe(o0), describe(&o1)) };
        }
        if o0.status != o1.status {
            return Cmp::Differ { kind: "result", detail: format!("[{:?}] return values differ\noriginal    {}\ntransformed {}", d, describe(o0), describe(&o1)) };
        }
    }
    Cmp::Same
}
