//! Shared by C11 and C20: a tree of files described in the case (JSON), materialised either in
//! darklua's in-memory `Resources` or in a unique scratch directory under `std::env::temp_dir()`
//! (file-system `Resources`), the run of `darklua_core::process` on it, and byte-exact snapshots
//! of the whole tree before/after.
//!
//! JSON form of a node: `{"p": "src/a.lua", "t": "return 1"}` (text file),
//! `{"p": "src/b.lua", "hex": "fffe"}` (raw bytes, file-system back end only),
//! `{"p": "out/x.lua", "dir": true}` (directory, file-system back end only).

use darklua_core::{Options, Resources};
use serde_json::{json, Value};
use std::collections::BTreeMap;
use std::path::{Path, PathBuf};
use std::sync::atomic::{AtomicU64, Ordering};

#[derive(Clone, Debug, PartialEq, Eq)]
pub enum Item {
    File(Vec<u8>),
    Dir,
}

#[derive(Clone, Debug)]
pub struct Node {
    pub path: String,
    pub item: Item,
}

impl Node {
    pub fn text(path: &str, text: &str) -> Node {
        Node { path: path.to_string(), item: Item::File(text.as_bytes().to_vec()) }
    }
    pub fn bytes(path: &str, b: &[u8]) -> Node {
        Node { path: path.to_string(), item: Item::File(b.to_vec()) }
    }
    pub fn dir(path: &str) -> Node {
        Node { path: path.to_string(), item: Item::Dir }
    }
    pub fn is_file(&self) -> bool {
        matches!(self.item, Item::File(_))
    }
    pub fn to_json(&self) -> Value {
        match &self.item {
            Item::Dir => json!({"p": self.path, "dir": true}),
            Item::File(b) => match std::str::from_utf8(b) {
                Ok(s) => json!({"p": self.path, "t": s}),
                Err(_) => json!({"p": self.path, "hex": hex(b)}),
            },
        }
    }
    pub fn from_json(v: &Value) -> Option<Node> {
        let p = v.get("p")?.as_str()?.to_string();
        if v.get("dir").and_then(|d| d.as_bool()) == Some(true) {
            return Some(Node { path: p, item: Item::Dir });
        }
        if let Some(t) = v.get("t").and_then(|t| t.as_str()) {
            return Some(Node { path: p, item: Item::File(t.as_bytes().to_vec()) });
        }
        if let Some(h) = v.get("hex").and_then(|t| t.as_str()) {
            return Some(Node { path: p, item: Item::File(unhex(h)?) });
        }
        None
    }
}

pub fn nodes_from_json(v: &Value) -> Option<Vec<Node>> {
    v.as_array()?.iter().map(Node::from_json).collect()
}
pub fn nodes_to_json(nodes: &[Node]) -> Value {
    Value::Array(nodes.iter().map(|n| n.to_json()).collect())
}

pub fn hex(b: &[u8]) -> String {
    b.iter().map(|x| format!("{:02x}", x)).collect()
}
pub fn unhex(s: &str) -> Option<Vec<u8>> {
    let s: Vec<u8> = s.bytes().filter(|c| !c.is_ascii_whitespace()).collect();
    if s.len() % 2 != 0 {
        return None;
    }
    let mut out = Vec::with_capacity(s.len() / 2);
    for ch in s.chunks(2) {
        let t = std::str::from_utf8(ch).ok()?;
        out.push(u8::from_str_radix(t, 16).ok()?);
    }
    Some(out)
}

/// printable rendering of file bytes for violation details
pub fn show(b: &[u8]) -> String {
    let s = match std::str::from_utf8(b) {
        Ok(s) => format!("{:?}", s),
        Err(_) => format!("hex:{}", hex(b)),
    };
    if s.len() > 400 {
        let mut end = 400;
        while !s.is_char_boundary(end) {
            end -= 1;
        }
        format!("{}…[{} bytes]", &s[..end], b.len())
    } else {
        s
    }
}

/// `a/b/c.lua` -> ["a", "a/b"]
pub fn ancestors(rel: &str) -> Vec<String> {
    let comps: Vec<&str> = rel.split('/').collect();
    let mut out = vec![];
    for i in 1..comps.len() {
        out.push(comps[..i].join("/"));
    }
    out
}

/// component-wise "is `p` strictly below directory `dir`"
pub fn is_under(p: &str, dir: &str) -> bool {
    p.len() > dir.len() + 1 && p.starts_with(dir) && p.as_bytes()[dir.len()] == b'/'
}

pub fn file_name(p: &str) -> &str {
    p.rsplit('/').next().unwrap_or(p)
}

/// what the property calls "a `.lua`/`.luau` file": a name with a non-empty stem and exactly that
/// (case-sensitive) extension.  Names the generators produce never fall into the grey zone
/// (`.lua`, `x.LUA`).
pub fn is_lua_name(p: &str) -> bool {
    let name = file_name(p);
    for ext in [".lua", ".luau"] {
        if name.len() > ext.len() && name.ends_with(ext) {
            return true;
        }
    }
    false
}

pub type Snap = BTreeMap<String, Item>;

pub struct Outcome {
    /// `process` itself returned an error (before/outside the per-file loop)
    pub setup_error: Option<String>,
    /// one text per failed work item (`WorkerTree::collect_errors`)
    pub errors: Vec<String>,
    pub success_count: usize,
}

pub struct World {
    pub fs: bool,
    /// empty for the memory back end; the scratch directory for the file-system back end
    pub base: PathBuf,
    res: Resources,
}

/// where file-system trees are created: `$DLVERIF_SCRATCH` if set (e.g. a tmpfs, which is an order of
/// magnitude faster when 16 workers create and delete trees concurrently), else the system temp dir
pub fn scratch_root() -> PathBuf {
    match std::env::var_os("DLVERIF_SCRATCH") {
        Some(p) if !p.is_empty() && Path::new(&p).is_dir() => PathBuf::from(p),
        _ => std::env::temp_dir(),
    }
}

static COUNTER: AtomicU64 = AtomicU64::new(0);

impl World {
    /// Creates the nodes in the order given by `order` (indices into `nodes`; missing indices are
    /// appended in natural order).
    pub fn build(fs: bool, nodes: &[Node], order: &[usize]) -> Result<World, String> {
        let mut seq: Vec<usize> = order.iter().copied().filter(|i| *i < nodes.len()).collect();
        let mut seen = vec![false; nodes.len()];
        seq.retain(|i| {
            let first = !seen[*i];
            seen[*i] = true;
            first
        });
        for i in 0..nodes.len() {
            if !seen[i] {
                seq.push(i);
            }
        }
        if fs {
            let n = COUNTER.fetch_add(1, Ordering::SeqCst);
            let nanos = std::time::SystemTime::now().duration_since(std::time::UNIX_EPOCH).map(|d| d.subsec_nanos()).unwrap_or(0);
            let base = scratch_root().join(format!("dlverif-tree-{}-{}-{}", std::process::id(), n, nanos));
            let _ = std::fs::remove_dir_all(&base);
            std::fs::create_dir_all(&base).map_err(|e| format!("scratch dir: {}", e))?;
            let world = World { fs, base, res: Resources::from_file_system() };
            for i in seq {
                let n = &nodes[i];
                let p = world.base.join(&n.path);
                match &n.item {
                    Item::Dir => std::fs::create_dir_all(&p).map_err(|e| format!("mkdir {}: {}", n.path, e))?,
                    Item::File(b) => {
                        if let Some(parent) = p.parent() {
                            std::fs::create_dir_all(parent).map_err(|e| format!("mkdir for {}: {}", n.path, e))?;
                        }
                        std::fs::write(&p, b).map_err(|e| format!("write {}: {}", n.path, e))?;
                    }
                }
            }
            Ok(world)
        } else {
            let world = World { fs, base: PathBuf::new(), res: Resources::from_memory() };
            for i in seq {
                let n = &nodes[i];
                match &n.item {
                    Item::Dir => return Err("memory back end has no directories".into()),
                    Item::File(b) => {
                        let s = std::str::from_utf8(b).map_err(|_| "memory back end holds text only".to_string())?;
                        world.res.write(&n.path, s).map_err(|e| format!("memory write: {:?}", e))?;
                    }
                }
            }
            Ok(world)
        }
    }

    /// the path handed to darklua for the tree-relative path `rel`
    pub fn path(&self, rel: &str) -> String {
        if self.fs {
            if rel.is_empty() || rel == "." {
                self.base.to_string_lossy().to_string()
            } else {
                self.base.join(rel).to_string_lossy().to_string()
            }
        } else {
            rel.to_string()
        }
    }

    /// prefix that turns a tree-relative path into the path darklua sees ("" or "<base>/")
    pub fn prefix(&self) -> String {
        if self.fs {
            format!("{}/", self.base.to_string_lossy())
        } else {
            String::new()
        }
    }

    pub fn snapshot(&self) -> Result<Snap, String> {
        let mut snap = Snap::new();
        if self.fs {
            fn walk(base: &Path, dir: &Path, snap: &mut Snap) -> Result<(), String> {
                let rd = std::fs::read_dir(dir).map_err(|e| format!("read_dir {}: {}", dir.display(), e))?;
                for e in rd {
                    let e = e.map_err(|e| format!("dir entry: {}", e))?;
                    let p = e.path();
                    let rel = p.strip_prefix(base).map_err(|e| e.to_string())?.to_string_lossy().to_string();
                    let md = std::fs::symlink_metadata(&p).map_err(|e| format!("metadata {}: {}", rel, e))?;
                    if md.is_dir() {
                        snap.insert(rel, Item::Dir);
                        walk(base, &p, snap)?;
                    } else {
                        let b = std::fs::read(&p).map_err(|e| format!("read {}: {}", rel, e))?;
                        snap.insert(rel, Item::File(b));
                    }
                }
                Ok(())
            }
            walk(&self.base, &self.base, &mut snap)?;
        } else {
            for p in self.res.walk("") {
                let c = self.res.get(&p).map_err(|e| format!("memory get {}: {:?}", p.display(), e))?;
                snap.insert(p.to_string_lossy().to_string(), Item::File(c.into_bytes()));
            }
        }
        Ok(snap)
    }

    /// `cfg`: `Ok(json5 text)` passes a `Configuration` object, `Err(rel path)` passes the path of a
    /// configuration file that is part of the tree.
    pub fn process(&self, cfg: Result<&str, &str>, input: &str, output: Option<&str>, fail_fast: bool) -> Outcome {
        let mut options = Options::new(self.path(input));
        match cfg {
            Ok(text) => match crate::dl::config_from_json(text) {
                Ok(c) => options = options.with_configuration(c),
                Err(e) => return Outcome { setup_error: Some(format!("config: {}", e)), errors: vec![], success_count: 0 },
            },
            Err(rel) => options = options.with_configuration_at(self.path(rel)),
        }
        if let Some(o) = output {
            options = options.with_output(self.path(o));
        }
        if fail_fast {
            options = options.fail_fast();
        }
        match darklua_core::process(&self.res, options) {
            Ok(tree) => {
                let errors: Vec<String> = tree.collect_errors().iter().map(|e| e.to_string()).collect();
                Outcome { setup_error: None, errors, success_count: tree.success_count() }
            }
            Err(e) => Outcome { setup_error: Some(e.to_string()), errors: vec![], success_count: 0 },
        }
    }
}

impl Drop for World {
    fn drop(&mut self) {
        if self.fs && self.base.file_name().map(|n| n.to_string_lossy().starts_with("dlverif-tree-")).unwrap_or(false) {
            let _ = std::fs::remove_dir_all(&self.base);
        }
    }
}

/// the snapshot a list of nodes produces (parents of every node become directories on the
/// file-system back end)
pub fn initial_snapshot(fs: bool, nodes: &[Node]) -> Snap {
    let mut s = Snap::new();
    for n in nodes {
        if fs {
            for a in ancestors(&n.path) {
                s.entry(a).or_insert(Item::Dir);
            }
        }
        s.insert(n.path.clone(), n.item.clone());
    }
    s
}

/// differences between two snapshots, at most `cap` lines
pub fn diff(expected: &Snap, actual: &Snap, cap: usize) -> Vec<String> {
    let mut out = vec![];
    for (p, e) in expected {
        match actual.get(p) {
            None => out.push(format!("missing `{}` (expected {})", p, show_item(e))),
            Some(a) if a != e => out.push(format!("`{}`: expected {} observed {}", p, show_item(e), show_item(a))),
            _ => {}
        }
    }
    for (p, a) in actual {
        if !expected.contains_key(p) {
            out.push(format!("unexpected `{}` = {}", p, show_item(a)));
        }
    }
    out.truncate(cap);
    out
}

pub fn show_item(i: &Item) -> String {
    match i {
        Item::Dir => "<directory>".into(),
        Item::File(b) => show(b),
    }
}
