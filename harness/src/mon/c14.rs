//! C14 — data files convert to Lua values equal to the data.
//!
//! value tree -> the harness's own JSON / JSON5 / YAML / TOML text -> darklua (library
//! `convert_data`, bundled `require` of the data file, optionally the CLI) -> Lua text ->
//! reference interpreter -> Lua value, compared structurally with the tree.

use super::c14_fmt::*;
use crate::dl;
use crate::framework::*;
use crate::reflua::interp::{Interp, Status};
use crate::reflua::literal::Dialect;
use crate::reflua::parser::{parse_block, Mode};
use crate::rng::{hash64, Rng};
use serde_json::{json, Value};
use std::sync::atomic::{AtomicU64, Ordering};

#[derive(Default)]
pub struct C14 {
    det: Option<Vec<V>>,
}

// ---------------------------------------------------------------------------------------------
// vocabulary

pub const KEYWORDS: &[&str] = &["and", "break", "do", "else", "elseif", "end", "false", "for", "function", "if", "in", "local", "nil", "not", "or", "repeat", "return", "then", "true", "until", "while"];
/// contextual / other-version keywords and look-alikes (legal field names in Lua 5.1 and Luau)
const NEAR_KEYWORDS: &[&str] = &["continue", "type", "export", "typeof", "goto", "self", "And", "END", "Nil", "TRUE", "_", "__index", "_G", "_ENV", "a1", "_1"];
const SPECIAL_KEYS: &[&str] = &[
    "", " ", "  ", "a b", " a", "a ", "a-b", "a.b", "a:b", "a[1]", "a=b", "a,b", "a;b", "1", "0", "1a", "0x10", "007", "9z", "-1", "1.5", "1e5", "nan", "inf", "\"", "'", "\"'", "'\"", "\\", "\\\\", "\\n", "\\\"", "\\'", "\\0", "\\x41",
    "\\u{41}", "\n", "\r", "\r\n", "\t", "\0", "a\0b", "\0\0", "\u{7f}", "\u{1b}", "]]", "]=]", "[[", "[=[", "--", "--[[", "]", "[", "{", "}", "é", "aé", "éa", "ключ", "日本", "😀", "\u{2028}", "\u{feff}", "\u{aa}",
];

/// characters that matter to some escaping / quoting decision of the string writer
const ESC_SET: &[char] = &['\\', '"', '\'', '\n', '\r', '\t', '\0', '\u{7}', '\u{8}', '\u{b}', '\u{c}', '\u{1b}', '\u{7f}', '0', '9', 'a', 'n', 'x', 'u', 'z', '{', '}', '[', ']', '=', '-', ' ', 'é', '😀', '\u{2028}'];
const TRIPLE_SET: &[char] = &['\\', '"', '\'', '\n', '0', '\0', 'é', ']'];
const NON_ASCII: &[char] = &[
    '\u{80}', '\u{85}', '\u{a0}', '\u{ff}', '\u{100}', '\u{7ff}', '\u{800}', '\u{d7ff}', '\u{e000}', '\u{fffd}', '\u{fffe}', '\u{ffff}', '\u{10000}', '\u{10ffff}', '\u{2028}', '\u{2029}', '\u{feff}', '\u{301}', '\u{200d}', 'é', '日', '😀',
];

const NUMBERS: &[&str] = &[
    "0", "-0", "1", "-1", "7", "10", "-10", "255", "65535", "16777216", "16777217", "-16777217", "33554433", "3000000001", "4294967295", "4294967296", "9007199254740991", "9007199254740992", "9007199254740993", "9007199254740995", "-9007199254740993",
    "9223372036854775807", "9223372036854775808", "9223372036854775809", "-9223372036854775808", "-9223372036854775809", "-9223372036854775807", "18446744073709551615", "18446744073709551616", "18446744073709549568", "18014398509481985", "100000000000000000000",
    "123456789012345678901234567890", "-123456789012345678901234567890", "0.1", "0.5", "-0.5", "1.5", "3.14159", "0.30000000000000004", "0.1e1", "4.35", "2.2250738585072014e-308", "2.2250738585072011e-308", "5e-324", "4.9e-324", "3e-324", "1e-400", "-1e-400",
    "1.7976931348623157e308", "1.7976931348623159e308", "1e308", "1e309", "-1e309", "1e5", "1E5", "1e+5", "1E+5", "1e-5", "1E-5", "1.5e3", "-1.5E-3", "0e0", "0.0", "-0.0", "1.0", "100.0", "1e0", "1e15", "1e16", "1e21", "1e22", "1e23", "8.5e-323", "123456789.123456789",
    "0.000001", "0.0000001", "1e-7", "12345678901234567890.0", "9007199254740993.0", "9007199254740992.5", "0.3333333333333333", "0.33333333333333337", "6.02214076e23", "299792458", "1e00", "1e007", "2.5e-08", "inf", "-inf", "nan", "123456789012",
];

fn obj(entries: Vec<(&str, V)>) -> V {
    V::Obj(entries.into_iter().map(|(k, v)| (k.to_string(), v)).collect())
}
fn s(x: &str) -> V {
    V::Str(x.to_string())
}
fn n(x: &str) -> V {
    V::Num(x.to_string())
}

fn all_keys() -> Vec<String> {
    let mut keys: Vec<String> = vec![];
    keys.extend(KEYWORDS.iter().map(|k| k.to_string()));
    keys.extend(NEAR_KEYWORDS.iter().map(|k| k.to_string()));
    keys.extend(SPECIAL_KEYS.iter().map(|k| k.to_string()));
    for c in 0u8..128 {
        let c = c as char;
        keys.push(c.to_string());
        keys.push(format!("a{}", c));
        keys.push(format!("{}a", c));
    }
    keys.push("k".repeat(300));
    keys.push(format!("{} {}", "k".repeat(150), "k".repeat(150)));
    for kw in ["end", "nil", "function"] {
        keys.push(format!("{} ", kw));
        keys.push(format!("{}1", kw));
        keys.push(format!("_{}", kw));
        keys.push(kw.to_uppercase());
    }
    let mut seen = std::collections::HashSet::new();
    keys.retain(|k| seen.insert(k.clone()));
    keys
}

fn all_strings() -> Vec<String> {
    let mut v: Vec<String> = vec![String::new()];
    for c in 0u8..128 {
        v.push((c as char).to_string());
    }
    for a in ESC_SET {
        for b in ESC_SET {
            v.push(format!("{}{}", a, b));
        }
    }
    for a in TRIPLE_SET {
        for b in TRIPLE_SET {
            for c in TRIPLE_SET {
                v.push(format!("{}{}{}", a, b, c));
            }
        }
    }
    // every control byte followed by a digit / a non-digit / nothing, and in the middle
    for c in (0u8..32).chain(std::iter::once(127)) {
        let c = c as char;
        for f in ["0", "9", "12", "a", "x41"] {
            v.push(format!("{}{}", c, f));
            v.push(format!("z{}{}", c, f));
        }
    }
    for c in NON_ASCII {
        v.push(c.to_string());
        v.push(format!("a{}b", c));
        v.push(format!("{}1", c));
        v.push(format!("\\{}", c));
    }
    v.push("e\u{301}\u{1f468}\u{200d}\u{1f469}\u{200d}\u{1f467}".to_string());
    // escape look-alikes that must stay literal text
    for t in ["\\n", "\\t", "\\\\", "\\\"", "\\'", "\\0", "\\065", "\\x41", "\\u{41}", "\\u0041", "\\z", "\\\n", "\\a\\b\\f\\v\\r", "%s %d %%", "${x}", "`{x}`", "{x}", "\\u{110000}", "--[[ x ]]", "--", "]] .. os.exit() .. [["] {
        v.push(t.to_string());
    }
    // around the long-bracket thresholds of the string writer (20 / 60 bytes, 6 newlines)
    for len in [18usize, 19, 20, 21, 22, 58, 59, 60, 61, 62, 80] {
        let base = "a".repeat(len);
        v.push(base.clone());
        let put = |at: usize, what: &str| -> String {
            let mut b: Vec<char> = base.chars().collect();
            let w: Vec<char> = what.chars().collect();
            for (i, c) in w.iter().enumerate() {
                if at + i < b.len() {
                    b[at + i] = *c;
                }
            }
            b.into_iter().collect()
        };
        v.push(put(len / 2, "]]"));
        v.push(put(len / 2, "]=]"));
        v.push(put(len / 2, "]==]"));
        v.push(put(2, "]]]=]]==]"));
        v.push(put(len - 1, "]"));
        v.push(put(len - 2, "]]"));
        v.push(put(len - 2, "]="));
        v.push(put(0, "\n"));
        v.push(put(0, "\n\n"));
        v.push(put(0, "\r\n"));
        v.push(put(len / 2, "\r"));
        v.push(put(len / 2, "\t"));
        v.push(put(len / 2, "\0"));
        v.push(put(len / 2, "é"));
        v.push(put(len / 2, "\"'"));
        v.push(put(len / 2, "\\"));
        v.push(put(len - 1, "\\"));
        v.push(put(len - 1, "\n"));
        v.push(put(0, "[["));
        v.push(put(0, "[=["));
        v.push(put(0, "--"));
    }
    for nl in [5usize, 6, 7] {
        // newline threshold (6) at length >= 20
        let mut t = String::new();
        for i in 0..nl {
            t.push_str(&format!("ln{}\n", i));
        }
        while t.len() < 24 {
            t.push('x');
        }
        v.push(t.clone());
        v.push(format!("{}]]", t));
        v.push(format!("\n{}", t));
    }
    v
}

fn nesting_docs() -> Vec<V> {
    // every array/object chain of depth 1..=6 with a leaf, an empty container and a sibling
    let mut out = vec![];
    for depth in 1..=6u32 {
        for pat in 0..(1u32 << depth) {
            for leaf in 0..3 {
                let mut v = match leaf {
                    0 => s("leaf"),
                    1 => V::Arr(vec![]),
                    _ => V::Obj(vec![]),
                };
                for level in 0..depth {
                    let is_obj = (pat >> level) & 1 == 1;
                    v = if is_obj { V::Obj(vec![(format!("k{}", level), v), ("end".to_string(), n("1"))]) } else { V::Arr(vec![n("0"), v, V::Bool(true)]) };
                }
                if depth > 3 && leaf != 0 && pat % 3 != 0 {
                    continue;
                }
                out.push(v);
            }
        }
    }
    out
}

fn null_docs() -> Vec<V> {
    let one = || n("1");
    let mut out = vec![
        V::Null,
        V::Arr(vec![V::Null]),
        V::Arr(vec![V::Null, V::Null]),
        V::Arr(vec![V::Null, one()]),
        V::Arr(vec![one(), V::Null]),
        V::Arr(vec![one(), V::Null, n("3")]),
        V::Arr(vec![V::Null, V::Null, n("3")]),
        V::Arr(vec![one(), V::Null, V::Null, n("4"), V::Null]),
        V::Arr(vec![s("a"), V::Null, s("c"), V::Null, s("e"), V::Null, s("g")]),
        V::Arr(vec![V::Arr(vec![V::Null, one()]), V::Null, V::Arr(vec![one(), V::Null])]),
        V::Arr(vec![obj(vec![("a", V::Null)]), V::Null, obj(vec![("b", one())])]),
        obj(vec![("a", V::Null)]),
        obj(vec![("a", V::Null), ("b", one())]),
        obj(vec![("a", one()), ("b", V::Null), ("c", n("3"))]),
        obj(vec![("nil", V::Null), ("end", V::Null), ("", V::Null), ("a b", V::Null), ("x", one())]),
        obj(vec![("list", V::Arr(vec![one(), V::Null, n("3")])), ("none", V::Null), ("sub", obj(vec![("n", V::Null), ("l", V::Arr(vec![V::Null]))]))]),
        V::Arr(vec![V::Bool(false), V::Null, V::Bool(true)]),
        V::Arr((0..20).map(|i| if i % 3 == 1 { V::Null } else { V::Num(i.to_string()) }).collect()),
    ];
    // a null at every position of a 5-element array
    for at in 0..5 {
        out.push(V::Arr((0..5).map(|i| if i == at { V::Null } else { V::Str(format!("e{}", i)) }).collect()));
    }
    out
}

fn misc_docs() -> Vec<V> {
    vec![
        V::Bool(true),
        V::Bool(false),
        n("42"),
        s("root string"),
        V::Arr(vec![]),
        V::Obj(vec![]),
        V::Arr(vec![V::Arr(vec![]), V::Obj(vec![]), V::Arr(vec![V::Arr(vec![])]), obj(vec![("e", V::Obj(vec![])), ("a", V::Arr(vec![]))])]),
        obj(vec![("e", V::Obj(vec![])), ("a", V::Arr(vec![])), ("s", s("")), ("", s(""))]),
        // the documentation's JSON example
        obj(vec![
            ("experienceActivation_singleton", s("experienceActivation")),
            ("experience_singleton", obj(vec![("experience", obj(vec![("assetId", n("3296599132")), ("startPlaceId", n("8667346609"))]))])),
            ("placeFile_start", obj(vec![("placeFile", obj(vec![("version", n("2"))]))])),
        ]),
        // the documentation's YAML example (shape)
        obj(vec![
            ("name", s("Tests")),
            ("on", obj(vec![("push", obj(vec![("branches", V::Arr(vec![s("main")]))]))])),
            ("jobs", obj(vec![("code-style", obj(vec![("runs-on", s("ubuntu-latest")), ("steps", V::Arr(vec![obj(vec![("uses", s("actions/checkout@v3"))]), obj(vec![("name", s("Verify code format")), ("run", s("cargo fmt -- --check"))])]))]))])),
        ]),
        // array of tables / mixed arrays
        obj(vec![("bin", V::Arr(vec![obj(vec![("name", s("darklua")), ("path", s("src/bin.rs"))]), obj(vec![("name", s("x")), ("sub", obj(vec![("deep", V::Arr(vec![obj(vec![("k", n("1"))])]))]))])])), ("mixed", V::Arr(vec![n("1"), s("a"), V::Bool(true), V::Arr(vec![]), obj(vec![("k", s("v"))])]))]),
        // a wide object and a long array
        V::Obj((0..120).map(|i| (format!("key{}", i), V::Num(i.to_string()))).collect()),
        V::Arr((0..300).map(|i| V::Num(i.to_string())).collect()),
        V::Arr((0..64).map(|i| V::Str("x".repeat(i))).collect()),
        // date-looking and number-looking strings stay strings
        V::Arr(vec![s("1979-05-27T07:32:00Z"), s("1979-05-27"), s("07:32:00"), s("1"), s("1.5"), s("true"), s("null"), s("~"), s("nil"), s(".inf"), s("0x10"), s("1e5"), s("yes"), s("no"), s("on"), s("off"), s("- a"), s("a: b"), s("#c"), s("&a"), s("*a"), s("!t"), s("|"), s(">"), s("%"), s("@")]),
    ]
}

/// (fmt, ext, style) of the deterministic part
const COMBOS: [(&str, &str, Style); 8] = [
    ("json", "json", Style { json5: false, alt_quote: false, short_esc: false, esc_non_ascii: false, layout: 0 }),
    ("json", "json", Style { json5: false, alt_quote: false, short_esc: true, esc_non_ascii: true, layout: 1 }),
    ("json", "json5", Style { json5: true, alt_quote: true, short_esc: false, esc_non_ascii: false, layout: 1 }),
    ("yaml", "yml", Style { json5: false, alt_quote: false, short_esc: true, esc_non_ascii: false, layout: 0 }),
    ("yaml", "yaml", Style { json5: false, alt_quote: true, short_esc: false, esc_non_ascii: true, layout: 1 }),
    ("toml", "toml", Style { json5: false, alt_quote: false, short_esc: true, esc_non_ascii: false, layout: 0 }),
    ("toml", "toml", Style { json5: false, alt_quote: true, short_esc: false, esc_non_ascii: true, layout: 1 }),
    ("yaml", "yaml", Style { json5: false, alt_quote: false, short_esc: false, esc_non_ascii: false, layout: 1 }),
];

const GENERATORS: [&str; 5] = ["'dense'", "'readable'", "'retain_lines'", "{ name: 'dense', column_span: 20 }", "{ name: 'readable', column_span: 12 }"];

fn build_det() -> Vec<V> {
    let mut docs = vec![];
    let keys = all_keys();
    // one key per document ...
    for (i, k) in keys.iter().enumerate() {
        let val = match i % 4 {
            0 => n("1"),
            1 => s("v"),
            2 => V::Bool(true),
            _ => V::Arr(vec![n("1"), s("two")]),
        };
        docs.push(V::Obj(vec![(k.clone(), val)]));
    }
    // ... and batches of 8 keys, nested, next to ordinary keys
    for chunk in keys.chunks(8) {
        let inner = V::Obj(chunk.iter().enumerate().map(|(i, k)| (k.clone(), V::Num(i.to_string()))).collect());
        let mut outer = vec![("first".to_string(), n("0"))];
        outer.push((chunk[0].clone(), V::Arr(vec![inner.clone(), V::Obj(vec![(chunk[chunk.len() - 1].clone(), inner)])])));
        outer.push(("last".to_string(), s("z")));
        let mut o = V::Obj(outer);
        if o.has_dup_keys() {
            o = V::Obj(vec![("w".to_string(), V::Obj(chunk.iter().map(|k| (k.clone(), s("x"))).collect()))]);
        }
        docs.push(o);
    }
    docs.push(V::Obj(KEYWORDS.iter().map(|k| (k.to_string(), s(k))).collect()));
    docs.push(V::Obj(NEAR_KEYWORDS.iter().map(|k| (k.to_string(), s(k))).collect()));
    // strings: singly as object values for the 1-character ones, then in batches of 16
    let strings = all_strings();
    for st in strings.iter().take(129) {
        docs.push(V::Obj(vec![("s".to_string(), V::Str(st.clone()))]));
    }
    for chunk in strings.chunks(16) {
        docs.push(V::Obj(vec![("s".to_string(), V::Arr(chunk.iter().map(|x| V::Str(x.clone())).collect()))]));
    }
    // strings as keys and values at the same time (the two writers must agree)
    for chunk in strings.chunks(16).step_by(3) {
        let o = V::Obj(chunk.iter().map(|x| (x.clone(), V::Str(x.clone()))).collect());
        if !o.has_dup_keys() {
            docs.push(o);
        }
    }
    // numbers
    for t in NUMBERS {
        docs.push(V::Obj(vec![("n".to_string(), n(t))]));
    }
    for chunk in NUMBERS.chunks(12) {
        docs.push(V::Arr(chunk.iter().map(|t| n(t)).collect()));
        docs.push(V::Obj(chunk.iter().map(|t| (t.to_string(), n(t))).collect()));
    }
    docs.extend(null_docs());
    docs.extend(nesting_docs());
    docs.extend(misc_docs());
    docs
}

// ---------------------------------------------------------------------------------------------
// random documents

fn int_fits(fmt: &str, t: &str) -> bool {
    match t.parse::<i128>() {
        Ok(x) => {
            if fmt == "toml" {
                x >= i64::MIN as i128 && x <= i64::MAX as i128
            } else {
                x >= i64::MIN as i128 && x <= u64::MAX as i128
            }
        }
        Err(_) => false,
    }
}

struct Gen<'a> {
    fmt: &'a str,
    r: &'a mut Rng,
    allow_null: bool,
    allow_special: bool,
    avoid: Vec<String>,
    budget: i32,
}

impl<'a> Gen<'a> {
    fn ch(&mut self) -> char {
        match self.r.weighted(&[6, 5, 3, 2, 1]) {
            0 => *self.r.pick(&ESC_SET),
            1 => (self.r.below(128) as u8) as char,
            2 => *self.r.pick(&['a', 'b', 'Z', '_', '1', ' ', 'e']),
            3 => *self.r.pick(&NON_ASCII),
            _ => loop {
                let u = self.r.below(0x110000) as u32;
                if let Some(c) = char::from_u32(u) {
                    break c;
                }
            },
        }
    }
    fn string(&mut self) -> String {
        let len = match self.r.weighted(&[2, 10, 6, 3, 2]) {
            0 => 0,
            1 => 1 + self.r.below(4),
            2 => 4 + self.r.below(10),
            3 => 17 + self.r.below(8),
            _ => 55 + self.r.below(12),
        };
        let mut out = String::new();
        if len >= 17 && self.r.chance(2, 3) {
            // mostly plain text so that the long-bracket writer is reachable
            let special = self.r.below(4);
            for i in 0..len {
                if i % 7 == 3 && special > 0 {
                    out.push(*self.r.pick(&['\n', ']', '=', '[', ' ', '-']));
                } else {
                    out.push(*self.r.pick(&['a', 'b', ' ', 'x', '1']));
                }
            }
            if self.r.chance(1, 3) {
                out.push(*self.r.pick(&[']', '\n', '\\', '"']));
            }
            return out;
        }
        for _ in 0..len {
            out.push(self.ch());
        }
        out
    }
    fn ident(&mut self) -> String {
        let first = *self.r.pick(&['a', 'b', 'k', 'x', '_', 'A', 'Z', 'e', 'n']);
        let mut out = first.to_string();
        for _ in 0..self.r.below(8) {
            out.push(*self.r.pick(&['a', 'e', 'n', 'd', 'o', 'r', 't', 'i', 'f', '_', '0', '1', '9', 'X']));
        }
        out
    }
    fn key(&mut self) -> String {
        match self.r.weighted(&[3, 2, 3, 3, 4, 1, 1]) {
            0 => self.r.pick(&KEYWORDS).to_string(),
            1 => self.r.pick(&NEAR_KEYWORDS).to_string(),
            2 => self.r.pick(&SPECIAL_KEYS).to_string(),
            3 => self.ident(),
            4 => self.string(),
            5 => {
                // keyword with something attached
                let kw = self.r.pick(&KEYWORDS).to_string();
                let c = self.ch();
                if self.r.bool() {
                    format!("{}{}", kw, c)
                } else {
                    format!("{}{}", c, kw)
                }
            }
            _ => format!("{}{}", self.r.below(100), self.ident()),
        }
    }
    fn digits(&mut self, len: usize) -> String {
        let mut out = String::new();
        for i in 0..len {
            let d = if i == 0 { 1 + self.r.below(9) } else { self.r.below(10) };
            out.push((b'0' + d as u8) as char);
        }
        out
    }
    fn number(&mut self) -> String {
        loop {
            let t = match self.r.weighted(&[4, 4, 4, 3, 3, 3, 2]) {
                0 => self.r.pick(&NUMBERS).to_string(),
                1 => {
                    let cap = if self.r.chance(1, 4) { 30 } else { 20 };
                    let len = 1 + self.r.below(cap);
                    let d = self.digits(len);
                    if self.r.chance(1, 3) {
                        format!("-{}", d)
                    } else {
                        d
                    }
                }
                2 => {
                    // 2^k + delta
                    let k = 20 + self.r.below(50) as u32;
                    let base: i128 = 1i128 << k;
                    let delta = self.r.range(-3, 3) as i128;
                    let v = base + delta;
                    if self.r.chance(1, 4) {
                        format!("{}", -v)
                    } else {
                        format!("{}", v)
                    }
                }
                3 => {
                    // random double, shortest round-trip text
                    let f = f64::from_bits(self.r.next_u64());
                    if !f.is_finite() {
                        continue;
                    }
                    if self.r.bool() {
                        format!("{:e}", f)
                    } else {
                        let t = format!("{}", f);
                        if t.len() > 60 {
                            format!("{:e}", f)
                        } else {
                            t
                        }
                    }
                }
                4 => {
                    let int_len = 1 + self.r.below(6);
                    let frac_len = 1 + self.r.below(18);
                    let mut frac = String::new();
                    for _ in 0..frac_len {
                        frac.push((b'0' + self.r.below(10) as u8) as char);
                    }
                    let i = if self.r.chance(1, 4) { "0".to_string() } else { self.digits(int_len) };
                    format!("{}{}.{}", if self.r.chance(1, 4) { "-" } else { "" }, i, frac)
                }
                5 => {
                    let (l1, l2) = (1 + self.r.below(4), 1 + self.r.below(16));
                    let mant = if self.r.bool() { self.digits(l1) } else { format!("{}.{}", self.digits(1), self.digits(l2)) };
                    let e = self.r.range(-330, 312);
                    let sign = if e < 0 {
                        "-"
                    } else if self.r.bool() {
                        "+"
                    } else {
                        ""
                    };
                    format!("{}{}{}{}{}", if self.r.chance(1, 5) { "-" } else { "" }, mant, if self.r.bool() { "e" } else { "E" }, sign, e.abs())
                }
                _ => {
                    if self.allow_special {
                        self.r.pick(&["inf", "-inf", "nan"]).to_string()
                    } else {
                        "0".to_string()
                    }
                }
            };
            if !self.allow_special && matches!(t.as_str(), "inf" | "-inf" | "nan") {
                continue;
            }
            let f = match num_value(&t) {
                Some(f) => f,
                None => continue,
            };
            // integers the format's parser cannot hold and decimal texts that overflow are rejected
            // (or read as null / as a string) by the parsers: keep them rare
            let special = matches!(t.as_str(), "inf" | "-inf" | "nan");
            let unfit = !special && (f.is_infinite() || (num_is_integer_text(&t) && !int_fits(self.fmt, &t)));
            if unfit && !self.r.chance(1, 40) {
                if f.is_finite() && self.r.bool() {
                    return format!("{}.0", t);
                }
                continue;
            }
            return t;
        }
    }
    fn value(&mut self, depth_left: u32) -> V {
        self.budget -= 1;
        let containers = depth_left > 0 && self.budget > 0;
        let w = [if self.allow_null { 2 } else { 0 }, 2, 5, 6, if containers { 4 } else { 0 }, if containers { 6 } else { 0 }];
        match self.r.weighted(&w) {
            0 => V::Null,
            1 => V::Bool(self.r.bool()),
            2 => V::Num(self.number()),
            3 => V::Str(self.string()),
            4 => {
                let len = match self.r.weighted(&[1, 6, 2]) {
                    0 => 0,
                    1 => 1 + self.r.below(5),
                    _ => 5 + self.r.below(12),
                };
                V::Arr((0..len).map(|_| self.value(depth_left - 1)).collect())
            }
            _ => self.object(depth_left),
        }
    }
    fn object(&mut self, depth_left: u32) -> V {
        let len = match self.r.weighted(&[1, 6, 2]) {
            0 => 0,
            1 => 1 + self.r.below(5),
            _ => 5 + self.r.below(10),
        };
        let mut entries: Vec<(String, V)> = vec![];
        for _ in 0..len {
            let k = self.key();
            if entries.iter().any(|(x, _)| *x == k) || k.len() > 200 {
                continue;
            }
            let v = self.value(depth_left.saturating_sub(1));
            entries.push((k, v));
        }
        V::Obj(entries)
    }
}

// ---------------------------------------------------------------------------------------------
// running

static SCRATCH_SEQ: AtomicU64 = AtomicU64::new(0);

enum Ev {
    Ok,
    Discard(String),
    Bad { what: String, detail: String },
}

fn lua_is_51_candidate(lua: &str) -> bool {
    // darklua writes non-ASCII characters as `\u{..}` (Luau / Lua 5.3+); such output is judged in
    // the Luau dialect only
    lua.is_ascii() && !lua.contains("\\u{")
}

fn evaluate(lua: &str, tree: &V, check51: bool) -> Ev {
    let block = match parse_block(lua, Mode::Luau) {
        Ok(b) => b,
        Err(e) => return Ev::Bad { what: "unparsable".into(), detail: format!("the emitted text does not parse (Luau grammar): {}", e) },
    };
    if check51 && lua_is_51_candidate(lua) {
        if let Err(e) = parse_block(lua, Mode::Strict51) {
            return Ev::Bad { what: "unparsable-lua51".into(), detail: format!("the emitted text parses as Luau but not as Lua 5.1: {}", e) };
        }
    }
    let mut it = Interp::new(Dialect::Luau, 20_000_000);
    let vals = match it.run_chunk_values(&block) {
        Some(v) => v,
        None => {
            let mut it2 = Interp::new(Dialect::Luau, 20_000_000);
            let out = it2.run_chunk(&block);
            return match out.status {
                Status::Error(m) => Ev::Bad { what: "runtime-error".into(), detail: format!("evaluating the emitted text raises an error: {}", m) },
                Status::Fuel => Ev::Discard("reference interpreter out of fuel".into()),
                Status::Depth => Ev::Discard("reference interpreter depth limit".into()),
                Status::Done(_) => Ev::Discard("reference interpreter not deterministic".into()),
            };
        }
    };
    if let Some(u) = &it.uncertain {
        return Ev::Discard(format!("reference interpreter uncertain: {}", u));
    }
    if vals.len() != 1 {
        return Ev::Bad { what: "return-arity".into(), detail: format!("the emitted chunk returns {} values, expected 1", vals.len()) };
    }
    match same_lua(&vals[0], tree, "") {
        Ok(()) => Ev::Ok,
        Err(d) => Ev::Bad { what: d.what, detail: format!("at {}: {}", d.path, d.detail) },
    }
}

fn key_class(k: &str) -> &'static str {
    if k.is_empty() {
        "empty"
    } else if KEYWORDS.contains(&k) {
        "keyword"
    } else if k.contains('\0') {
        "nul"
    } else if !k.is_ascii() {
        "non_ascii"
    } else if k.contains('\n') || k.contains('\r') {
        "newline"
    } else if k.contains('\\') {
        "backslash"
    } else if k.contains('"') || k.contains('\'') {
        "quote"
    } else if k.as_bytes()[0].is_ascii_digit() {
        "digit_leading"
    } else if k.bytes().all(|b| b.is_ascii_alphanumeric() || b == b'_') {
        "identifier"
    } else if k.bytes().any(|b| b < 0x20 || b == 0x7f) {
        "control"
    } else {
        "other_non_identifier"
    }
}

fn num_class(t: &str) -> &'static str {
    let f = match num_value(t) {
        Some(f) => f,
        None => return "bad",
    };
    if t == "nan" {
        "nan"
    } else if t == "inf" || t == "-inf" {
        "inf"
    } else if f.is_infinite() {
        "overflows_to_inf"
    } else if num_is_integer_text(t) {
        let a = f.abs();
        if t.starts_with('-') {
            if a > 9007199254740992.0 {
                "int_negative_beyond_2p53"
            } else {
                "int_negative"
            }
        } else if a <= 9007199254740992.0 {
            "int_upto_2p53"
        } else if a <= 9223372036854775808.0 {
            "int_2p53_to_2p63"
        } else if a < 18446744073709551616.0 {
            "int_2p63_to_2p64"
        } else {
            "int_beyond_2p64"
        }
    } else if t.contains('e') || t.contains('E') {
        if f != 0.0 && f.abs() < 2.2250738585072014e-308 {
            "exponent_subnormal"
        } else {
            "exponent"
        }
    } else {
        "fraction"
    }
}

fn record_shape(tree: &V, cov: &mut Cov) {
    let mut events: Vec<String> = vec![];
    tree.visit(&mut |v| match v {
        Visit::Null => events.push("value:null".into()),
        Visit::Bool => events.push("value:bool".into()),
        Visit::Num(t) => events.push(format!("number:{}", num_class(t))),
        Visit::Str(s) => {
            events.push("value:string".into());
            let b = s.as_bytes();
            if s.is_empty() {
                events.push("string:empty".into());
            }
            if b.iter().any(|c| *c < 0x20 || *c == 0x7f) {
                events.push("string:control_byte".into());
            }
            if b.windows(2).any(|w| (w[0] < 0x20 || w[0] == 0x7f) && w[1].is_ascii_digit()) {
                events.push("string:control_then_digit".into());
            }
            if s.contains('\0') {
                events.push("string:nul".into());
            }
            if s.contains('\\') {
                events.push("string:backslash".into());
            }
            if s.contains('"') && s.contains('\'') {
                events.push("string:both_quotes".into());
            } else if s.contains('"') || s.contains('\'') {
                events.push("string:one_quote_kind".into());
            }
            if !s.is_ascii() {
                events.push("string:non_ascii".into());
            }
            if s.chars().any(|c| c as u32 > 0xffff) {
                events.push("string:astral".into());
            }
            if s.len() >= 20 && !b.iter().any(|c| !(c.is_ascii_graphic() || *c == b' ' || *c == b'\n')) && (s.len() >= 60 || b.iter().filter(|c| **c == b'\n').count() >= 6) {
                events.push("string:long_bracket_candidate".into());
                if s.contains("]]") || s.ends_with(']') || s.contains("]=]") {
                    events.push("string:long_bracket_with_closer".into());
                }
            }
        }
        Visit::Key(k) => events.push(format!("key:{}", key_class(k))),
        Visit::Arr(a) => {
            if a.is_empty() {
                events.push("container:empty_array".into());
            } else {
                events.push("container:array".into());
            }
            let nulls = a.iter().filter(|x| matches!(x, V::Null)).count();
            if nulls > 0 {
                events.push("null:in_array".into());
                if matches!(a.last(), Some(V::Null)) {
                    events.push("null:array_trailing".into());
                }
                if a.iter().enumerate().any(|(i, x)| matches!(x, V::Null) && i + 1 < a.len() && a[i + 1..].iter().any(|y| !matches!(y, V::Null))) {
                    events.push("null:array_before_element".into());
                }
            }
        }
        Visit::Obj(o) => {
            if o.is_empty() {
                events.push("container:empty_object".into());
            } else {
                events.push("container:object".into());
            }
            if o.iter().any(|(_, x)| matches!(x, V::Null)) {
                events.push("null:as_object_value".into());
            }
        }
    });
    for e in events {
        cov.hit(&e);
    }
    cov.hit(&format!("depth:{}", tree.depth().min(7)));
}

fn cli_binary() -> Option<std::path::PathBuf> {
    let p = std::env::var_os("DLVERIF_DARKLUA_BIN")?;
    let p = std::path::PathBuf::from(p);
    if p.is_file() {
        Some(p)
    } else {
        None
    }
}

fn run_cli(bin: &std::path::Path, ext: &str, text: &str, explicit_format: Option<&str>, to_stdout: bool) -> Result<String, String> {
    let dir = std::env::temp_dir().join(format!("dlverif-c14-{}-{}", std::process::id(), SCRATCH_SEQ.fetch_add(1, Ordering::Relaxed)));
    if std::fs::create_dir_all(&dir).is_err() {
        return Err("scratch".into());
    }
    let (input, mut args): (std::path::PathBuf, Vec<String>) = match explicit_format {
        Some(f) => (dir.join("data"), vec!["--format".into(), f.into()]),
        None => (dir.join(format!("data.{}", ext)), vec![]),
    };
    let out = dir.join("out.lua");
    let res = (|| {
        std::fs::write(&input, text).map_err(|_| "scratch".to_string())?;
        let mut cmd = std::process::Command::new(bin);
        cmd.arg("convert").arg(&input);
        if !to_stdout {
            cmd.arg(&out);
        }
        cmd.args(args.drain(..));
        cmd.env_remove("RUST_LOG").stdin(std::process::Stdio::null());
        let o = cmd.output().map_err(|_| "spawn".to_string())?;
        if !o.status.success() {
            return Err(format!("exit:{} {}", o.status.code().unwrap_or(-1), String::from_utf8_lossy(&o.stderr).chars().take(300).collect::<String>()));
        }
        if to_stdout {
            // `println!("{}", lua_code)`: the text followed by one newline
            return String::from_utf8(o.stdout).map_err(|_| "exit:0 but stdout is not UTF-8".to_string());
        }
        std::fs::read_to_string(&out).map_err(|_| "exit:0 but no output file".to_string())
    })();
    let _ = std::fs::remove_dir_all(&dir);
    res
}

impl C14 {
    fn det(&mut self) -> &Vec<V> {
        if self.det.is_none() {
            self.det = Some(build_det());
        }
        self.det.as_ref().unwrap()
    }
}

fn make_case(fmt: &str, ext: &str, style: &Style, tree: &V, generator: &str, cli: bool, origin: &str) -> Case {
    json!({"origin": origin, "fmt": fmt, "ext": ext, "style": style.to_case(), "doc": tree.to_case(), "generator": generator, "cli": cli,
        "channels": ["direct", "lib", "bundle", "cli"]})
}

/// generator switches for open known findings (none at the moment)
fn avoid_list() -> Vec<String> {
    vec![]
}

impl Monitor for C14 {
    fn id(&self) -> &'static str {
        "C14"
    }
    fn rule_text(&self) -> String {
        "case = (value tree, format json|json5|yaml|toml, file extension, emitter style, generator). The tree is written by the harness's own conservative emitters (always-quoted keys and strings; compact/flow/inline or pretty/block/[table]-header layout; literal or escaped non-ASCII; short or numeric escapes), read back by the same serde parser darklua uses (precondition: it reads exactly the tree, else discard), then converted through up to four channels: direct = convert_data(tree as Serialize), lib = convert_data(parsed value), bundle = darklua_core::process of `return require('./data.<ext>')` with bundle.require_mode='path' (generator dense/readable/retain_lines, narrow column spans), cli = `darklua convert` when DLVERIF_DARKLUA_BIN is set. The emitted Lua is parsed and evaluated by reflua and the resulting value compared structurally with the tree (sequence 1..n in order with nil holes where the data has null, exactly the same string keys, byte-identical strings, numbers == nearest double of the decimal text (sign of zero ignored, NaN-ness kept), booleans, null => nil/absent, no extra entries). Deterministic prefix: every listed key (21 keywords, 16 near-keywords, 64 special keys, every ASCII byte alone / after 'a' / before 'a', long keys) alone and in nested batches; every ASCII byte as a string, all pairs over 30 escape-relevant characters, all triples over 8, every control byte before a digit, non-ASCII samples, strings around the 20/60-byte and 6-newline long-bracket thresholds; 92 number texts (2^24+1, 2^53±k, 2^63, 2^64, fractions, exponent forms, subnormals, overflow, inf/nan); nulls at every array position and as object values; all array/object nestings up to depth 6; empty containers — each under 8 format/style combinations. Beyond: random documents (depth <= 6). One evaluation = one channel of one case; it is non-trivial when the document contains at least one key or array element; distinct = hash(channel, extension, generator, document text).".into()
    }
    fn assumptions(&self) -> Vec<String> {
        vec![
            "reference interpreter reflua parses and evaluates table constructors, string and number literals as Lua 5.1/Luau do (self-tested)".into(),
            "Rust's str::parse::<f64> is correctly rounded (defines 'nearest double' of the decimal text)".into(),
            "serde_json/json5/serde_yaml/toml are not under test: documents they reject or read differently from the tree are discarded and counted (e.g. JSON5 Infinity/NaN become null inside serde_json::Value, integers >= 2^64 are rejected by json5+serde_json, integers beyond i64 by toml)".into(),
            "emitted text is judged in the Luau dialect (darklua writes non-ASCII characters as \\u{...}); ASCII-only outputs of convert_data must also parse with the strict Lua 5.1 grammar".into(),
            "sign of zero is not compared (0 == -0 in Lua)".into(),
            "bundle channel uses rules: [] so that only the data conversion and the generator are exercised".into(),
        ]
    }
    fn plan(&self, tier: Tier) -> Plan {
        let det = build_det().len() as u64 * COMBOS.len() as u64;
        Plan { deterministic: det, max_cases: u64::MAX, budget_s: if tier == Tier::Quick { 30.0 } else { 600.0 } }
    }
    fn exhaustive_note(&self, _tier: Tier) -> Option<String> {
        let d = build_det();
        Some(format!("deterministic prefix: {} documents ({} keys, {} strings, {} number texts, null / nesting / misc documents) x {} format-style combinations, all executed at every seed", d.len(), all_keys().len(), all_strings().len(), NUMBERS.len(), COMBOS.len()))
    }
    fn floors(&self, _tier: Tier) -> Vec<(String, u64)> {
        vec![
            ("held".into(), 1000),
            ("distinct_nontrivial".into(), 1000),
            ("held:lib:json".into(), 200),
            ("held:lib:yaml".into(), 200),
            ("held:lib:toml".into(), 100),
            ("held:bundle:json".into(), 100),
            ("held:bundle:yaml".into(), 100),
            ("held:bundle:toml".into(), 50),
            ("key:keyword".into(), 100),
            ("key:digit_leading".into(), 50),
            ("key:empty".into(), 5),
            ("key:nul".into(), 5),
            ("string:control_then_digit".into(), 50),
            ("number:int_2p53_to_2p63".into(), 20),
            ("null:array_before_element".into(), 20),
        ]
    }

    fn gen(&mut self, _tier: Tier, seed: u64, index: u64) -> Option<Case> {
        let ncombo = COMBOS.len() as u64;
        let ndet = self.det().len() as u64 * ncombo;
        if index < ndet {
            let doc = &self.det()[(index / ncombo) as usize];
            let (fmt, ext, style) = &COMBOS[(index % ncombo) as usize];
            // TOML needs a table at the root
            let tree = if *fmt == "toml" && !matches!(doc, V::Obj(_)) { V::Obj(vec![("root".to_string(), doc.clone())]) } else { doc.clone() };
            let generator = GENERATORS[((index / ncombo + index % ncombo) % GENERATORS.len() as u64) as usize];
            return Some(make_case(fmt, ext, style, &tree, generator, index % 5 == 0, &format!("det:{}", index / ncombo)));
        }
        let mut r = case_rng("C14", seed, index);
        let (fmt, ext) = *r.pick(&[("json", "json"), ("json", "json5"), ("json", "json"), ("yaml", "yml"), ("yaml", "yaml"), ("toml", "toml")]);
        let mut style = Style::index(r.next_u64());
        if fmt != "json" {
            style.json5 = false;
        }
        let depth = 1 + r.below(6) as u32;
        let budget = *r.pick(&[6, 12, 25, 40, 80]);
        let mut g = Gen { fmt, r: &mut r, allow_null: fmt != "toml", allow_special: fmt != "json", avoid: avoid_list(), budget };
        let tree = if fmt == "toml" || g.r.chance(3, 4) { g.object(depth) } else { g.value(depth) };
        let _ = &g.avoid;
        let generator = *r.pick(&GENERATORS);
        Some(make_case(fmt, ext, &style, &tree, generator, r.chance(1, 10), "gen"))
    }

    fn run(&mut self, case: &Case, cov: &mut Cov) -> Verdict {
        let fmt = case["fmt"].as_str().unwrap_or("json");
        let ext = case["ext"].as_str().unwrap_or(fmt);
        let style = Style::from_case(&case["style"]);
        let generator = case["generator"].as_str().unwrap_or("'dense'");
        let tree = match V::from_case(&case["doc"]) {
            Some(t) => t,
            None => return Verdict::discard("malformed case"),
        };
        if tree.has_dup_keys() {
            return Verdict::discard("duplicate keys in the tree");
        }
        let channels: Vec<String> = case["channels"].as_array().map(|a| a.iter().filter_map(|x| x.as_str().map(|s| s.to_string())).collect()).unwrap_or_else(|| vec!["direct".into(), "lib".into(), "bundle".into(), "cli".into()]);
        let has = |c: &str| channels.iter().any(|x| x == c);
        let narrowed = |channel: &str| {
            let mut c = case.clone();
            c["channels"] = json!([channel]);
            Some(c)
        };
        let nontrivial = tree.size() > 1;
        let mut any = false;

        // ---- direct: the tree itself through the serializer (no format parser)
        if has("direct") {
            match darklua_core::convert_data(&tree) {
                Ok(lua) => match evaluate(&lua, &tree, true) {
                    Ev::Ok => {
                        any = true;
                        cov.hit("held:direct");
                        cov.eval(if nontrivial { Some(hash64(format!("direct|{}", lua).as_bytes())) } else { None });
                    }
                    Ev::Discard(r) => cov.hit(&format!("discard:direct:{}", r)),
                    Ev::Bad { what, detail } => {
                        return Verdict::Violated { signature: what, detail: format!("channel: convert_data(value tree)\n{}\n--- value tree\n{}\n--- emitted Lua\n{}", detail, case["doc"], lua), narrowed: narrowed("direct") };
                    }
                },
                Err(e) => {
                    return Verdict::Violated { signature: "convert-error".into(), detail: format!("channel: convert_data(value tree) returned an error: {}\n--- value tree\n{}", e, case["doc"]), narrowed: narrowed("direct") };
                }
            }
        }

        // ---- the document text
        let text = match fmt {
            "json" => emit_json(&tree, &style),
            "yaml" => emit_yaml(&tree, &style),
            "toml" => emit_toml(&tree, &style),
            _ => None,
        };
        let text = match text {
            Some(t) => t,
            None => {
                cov.hit(&format!("discard:{}:format cannot express the tree", fmt));
                return if any { Verdict::Held } else { Verdict::discard(format!("{}: format cannot express the tree", fmt)) };
            }
        };

        // ---- precondition + lib channel: the parser darklua uses reads the tree
        enum Parsed {
            J(serde_json::Value),
            Y(serde_yaml::Value),
            T(toml::Value),
        }
        let parsed: Result<Parsed, String> = match fmt {
            "json" => json5::from_str::<serde_json::Value>(&text).map(Parsed::J).map_err(|e| e.to_string()),
            "yaml" => serde_yaml::from_str::<serde_yaml::Value>(&text).map(Parsed::Y).map_err(|e| e.to_string()),
            _ => toml::from_str::<toml::Value>(&text).map(Parsed::T).map_err(|e| e.to_string()),
        };
        let parsed = match parsed {
            Ok(p) => p,
            Err(_) => {
                let reason = format!("{}: format parser rejects the document", fmt);
                cov.hit(&format!("discard:{}", reason));
                return if any { Verdict::Held } else { Verdict::discard(reason) };
            }
        };
        let same = match &parsed {
            Parsed::J(p) => same_json(p, &tree),
            Parsed::Y(p) => same_yaml(p, &tree),
            Parsed::T(p) => same_toml(p, &tree),
        };
        if let Err(class) = same {
            let reason = format!("{}: format parser reads the document differently ({})", fmt, class);
            cov.hit(&format!("discard:{}", reason));
            return if any { Verdict::Held } else { Verdict::discard(reason) };
        }
        record_shape(&tree, cov);
        cov.hit(&format!("layout:{}:{}", fmt, style.layout));

        if has("lib") {
            let res = match &parsed {
                Parsed::J(p) => darklua_core::convert_data(p),
                Parsed::Y(p) => darklua_core::convert_data(p),
                Parsed::T(p) => darklua_core::convert_data(p),
            };
            match res {
                Ok(lua) => match evaluate(&lua, &tree, true) {
                    Ev::Ok => {
                        any = true;
                        cov.hit(&format!("held:lib:{}", fmt));
                        cov.eval(if nontrivial { Some(hash64(format!("lib|{}|{}", fmt, text).as_bytes())) } else { None });
                        if nontrivial && cov.want_sample() && text.len() < 400 {
                            cov.sample(json!({"format": fmt, "document": text, "lua": lua}));
                        }
                    }
                    Ev::Discard(r) => cov.hit(&format!("discard:lib:{}", r)),
                    Ev::Bad { what, detail } => {
                        return Verdict::Violated { signature: what, detail: format!("channel: convert_data({} value)\n{}\n--- document ({})\n{}\n--- emitted Lua\n{}", fmt, detail, fmt, text, lua), narrowed: narrowed("lib") };
                    }
                },
                Err(e) => {
                    return Verdict::Violated { signature: "convert-error".into(), detail: format!("channel: convert_data({} value) returned an error: {}\n--- document\n{}", fmt, e, text), narrowed: narrowed("lib") };
                }
            }
        }

        // ---- bundle: require of the data file
        if has("bundle") {
            let files = vec![("src/main.lua".to_string(), format!("return require('./data.{}')\n", ext)), (format!("src/data.{}", ext), text.clone())];
            let config = format!("{{ rules: [], generator: {}, bundle: {{ require_mode: 'path' }} }}", generator);
            let out = dl::process_memory(&files, &config, "src/main.lua", Some("out/main.lua"), "out");
            if !out.ok {
                if out.errors.iter().any(|e| e.starts_with("config:")) {
                    cov.hit("discard:bundle:configuration rejected");
                } else {
                    let first: String = out.errors.join(" | ").chars().take(300).collect();
                    return Verdict::Violated { signature: "bundle-error".into(), detail: format!("channel: bundle (require('./data.{}'))\nprocess failed: {}\n--- document\n{}", ext, first, text), narrowed: narrowed("bundle") };
                }
            } else {
                match out.files.get("out/main.lua") {
                    None => {
                        return Verdict::Violated { signature: "bundle-no-output".into(), detail: format!("bundle produced no out/main.lua; files: {:?}", out.files.keys().collect::<Vec<_>>()), narrowed: narrowed("bundle") };
                    }
                    Some(lua) => match evaluate(lua, &tree, false) {
                        Ev::Ok => {
                            any = true;
                            cov.hit(&format!("held:bundle:{}", fmt));
                            cov.hit(&format!("bundle_ext:{}", ext));
                            cov.hit(&format!("bundle_generator:{}", generator.trim_matches('\'')));
                            cov.eval(if nontrivial { Some(hash64(format!("bundle|{}|{}|{}", ext, generator, text).as_bytes())) } else { None });
                        }
                        Ev::Discard(r) => cov.hit(&format!("discard:bundle:{}", r)),
                        Ev::Bad { what, detail } => {
                            return Verdict::Violated { signature: what, detail: format!("channel: bundle (require('./data.{}'), generator {})\n{}\n--- document\n{}\n--- bundled Lua\n{}", ext, generator, detail, text, lua), narrowed: narrowed("bundle") };
                        }
                    },
                }
            }
        }

        // ---- the command line, when a binary is provided
        if has("cli") && case["cli"].as_bool().unwrap_or(false) {
            match cli_binary() {
                None => cov.hit("cli:no binary (DLVERIF_DARKLUA_BIN unset)"),
                Some(bin) => {
                    let explicit = if case["cli_format_flag"].as_bool().unwrap_or(style.layout == 1) { Some(fmt) } else { None };
                    let to_stdout = case["cli_stdout"].as_bool().unwrap_or(style.short_esc);
                    cov.hit(if to_stdout { "cli:stdout" } else { "cli:output file" });
                    cov.hit(if explicit.is_some() { "cli:--format flag" } else { "cli:format from extension" });
                    match run_cli(&bin, ext, &text, explicit, to_stdout) {
                        Ok(lua) => match evaluate(&lua, &tree, true) {
                            Ev::Ok => {
                                any = true;
                                cov.hit(&format!("held:cli:{}", fmt));
                                cov.eval(if nontrivial { Some(hash64(format!("cli|{}|{}", ext, text).as_bytes())) } else { None });
                            }
                            Ev::Discard(r) => cov.hit(&format!("discard:cli:{}", r)),
                            Ev::Bad { what, detail } => {
                                return Verdict::Violated { signature: what, detail: format!("channel: darklua convert data.{}\n{}\n--- document\n{}\n--- emitted Lua\n{}", ext, detail, text, lua), narrowed: narrowed("cli") };
                            }
                        },
                        Err(e) if e.starts_with("exit:") => {
                            return Verdict::Violated { signature: "cli-error".into(), detail: format!("channel: darklua convert data.{} failed: {}\n--- document\n{}", ext, e, text), narrowed: narrowed("cli") };
                        }
                        Err(e) => cov.hit(&format!("discard:cli:{}", e)),
                    }
                }
            }
        }

        if any {
            Verdict::Held
        } else {
            Verdict::discard("no channel could be judged")
        }
    }

    fn shrink(&mut self, case: &Case) -> Vec<Case> {
        let mut out = vec![];
        let tree = match V::from_case(&case["doc"]) {
            Some(t) => t,
            None => return out,
        };
        let fmt = case["fmt"].as_str().unwrap_or("json");
        let with_tree = |t: &V| {
            let mut c = case.clone();
            c["doc"] = t.to_case();
            c
        };
        // plain style first
        let plain = Style { json5: false, alt_quote: false, short_esc: false, esc_non_ascii: false, layout: 0 };
        if case["style"] != plain.to_case() {
            let mut c = case.clone();
            c["style"] = plain.to_case();
            out.push(c);
        }
        if case["generator"].as_str() != Some("'dense'") {
            let mut c = case.clone();
            c["generator"] = json!("'dense'");
            out.push(c);
        }
        // the simplest format (a failure of the serializer does not depend on it)
        if fmt != "json" || case["ext"].as_str() != Some("json") {
            let mut c = case.clone();
            c["fmt"] = json!("json");
            c["ext"] = json!("json");
            out.push(c);
        }
        let mut cands: Vec<V> = vec![];
        shrink_tree(&tree, &mut cands);
        let w0 = weight(&tree);
        let mut n = 0;
        for t in cands {
            let t = if fmt == "toml" && !matches!(t, V::Obj(_)) { V::Obj(vec![("root".to_string(), t)]) } else { t };
            // strictly simpler only, so that shrinking terminates
            if weight(&t) >= w0 {
                continue;
            }
            out.push(with_tree(&t));
            n += 1;
            if n >= 400 {
                break;
            }
        }
        out
    }

    fn classify(&mut self, case: &Case, signature: &str) -> String {
        // add the kind of datum involved in the minimal witness
        let tree = match V::from_case(&case["doc"]) {
            Some(t) => t,
            None => return signature.to_string(),
        };
        let mut kinds: Vec<String> = vec![];
        tree.visit(&mut |v| match v {
            Visit::Key(k) if signature.starts_with("key") || signature == "unparsable" || signature == "object-extra-entries" => kinds.push(format!("key:{}", key_class(k))),
            Visit::Num(t) if signature.starts_with("number") => kinds.push(format!("number:{}", num_class(t))),
            Visit::Null if signature.contains("null") || signature.contains("array") => kinds.push("null".into()),
            _ => {}
        });
        kinds.sort();
        kinds.dedup();
        kinds.truncate(3);
        let channel = case["channels"].as_array().filter(|a| a.len() == 1).and_then(|a| a[0].as_str()).unwrap_or("any");
        let channel = if channel == "direct" || channel == "lib" { "convert" } else { channel };
        format!("{}|{}|{}", signature, channel, kinds.join("+"))
    }
}

/// well-founded measure for shrinking: (nodes, characters, leaf complexity)
fn weight(t: &V) -> u64 {
    fn chars(s: &str) -> (u64, u64) {
        (s.chars().count() as u64, s.chars().filter(|c| *c != 'a').count() as u64)
    }
    fn rec(t: &V, nodes: &mut u64, len: &mut u64, cx: &mut u64) {
        *nodes += 1;
        match t {
            V::Null => *cx += 2,
            V::Bool(b) => *cx += *b as u64,
            V::Num(x) => {
                if x != "1" {
                    *cx += 2 + 10 * x.len() as u64 + x.bytes().filter(|b| b.is_ascii_digit()).map(|b| (b - b'0') as u64).sum::<u64>();
                } else {
                    *cx += 2;
                }
            }
            V::Str(s) => {
                let (l, c) = chars(s);
                *len += l;
                *cx += c + 2;
            }
            V::Arr(a) => {
                for x in a {
                    rec(x, nodes, len, cx);
                }
            }
            V::Obj(o) => {
                for (k, x) in o {
                    let (l, c) = chars(k);
                    *len += l;
                    *cx += c;
                    rec(x, nodes, len, cx);
                }
            }
        }
    }
    let (mut nodes, mut len, mut cx) = (0, 0, 0);
    rec(t, &mut nodes, &mut len, &mut cx);
    nodes * 100_000_000 + len.min(9_999) * 10_000 + cx.min(9_999)
}

/// simpler trees: a child in place of the root, one entry less, shorter strings / keys,
/// simpler leaves — applied at every position
fn shrink_tree(t: &V, out: &mut Vec<V>) {
    // children in place of the whole
    match t {
        V::Arr(a) => {
            for x in a {
                out.push(x.clone());
            }
        }
        V::Obj(o) => {
            for (_, x) in o {
                out.push(x.clone());
            }
        }
        _ => {}
    }
    let mut local: Vec<V> = vec![];
    match t {
        V::Arr(a) => {
            if a.len() > 2 {
                local.push(V::Arr(a[..a.len() / 2].to_vec()));
                local.push(V::Arr(a[a.len() / 2..].to_vec()));
            }
            for i in 0..a.len() {
                let mut b = a.clone();
                b.remove(i);
                local.push(V::Arr(b));
            }
            for i in 0..a.len() {
                let mut sub = vec![];
                shrink_tree(&a[i], &mut sub);
                for s in sub.into_iter().take(40) {
                    let mut b = a.clone();
                    b[i] = s;
                    local.push(V::Arr(b));
                }
            }
        }
        V::Obj(o) => {
            if o.len() > 2 {
                local.push(V::Obj(o[..o.len() / 2].to_vec()));
                local.push(V::Obj(o[o.len() / 2..].to_vec()));
            }
            for i in 0..o.len() {
                let mut b = o.clone();
                b.remove(i);
                local.push(V::Obj(b));
            }
            for i in 0..o.len() {
                for k in shrink_string(&o[i].0) {
                    if o.iter().any(|(x, _)| *x == k) {
                        continue;
                    }
                    let mut b = o.clone();
                    b[i].0 = k;
                    local.push(V::Obj(b));
                }
                let mut sub = vec![];
                shrink_tree(&o[i].1, &mut sub);
                for s in sub.into_iter().take(40) {
                    let mut b = o.clone();
                    b[i].1 = s;
                    local.push(V::Obj(b));
                }
            }
        }
        V::Str(s) => {
            for x in shrink_string(s) {
                local.push(V::Str(x));
            }
        }
        V::Num(t) => {
            if t != "1" {
                local.push(V::Num("1".into()));
            }
            if t.len() > 1 && !matches!(t.as_str(), "inf" | "-inf" | "nan") {
                if let Some(stripped) = t.strip_prefix('-') {
                    local.push(V::Num(stripped.to_string()));
                }
                // fewer digits
                let mut c: Vec<String> = vec![t[..t.len() / 2].to_string(), t[..t.len() - 1].to_string()];
                for i in 0..t.len().min(24) {
                    let mut x = t.clone();
                    x.remove(i);
                    c.push(x);
                }
                // smaller digits
                for (i, ch) in t.char_indices().take(24) {
                    if ch.is_ascii_digit() && ch != '0' && ch != '1' {
                        let mut x = t.clone();
                        x.replace_range(i..i + 1, "1");
                        c.push(x);
                    }
                }
                for x in c {
                    if x != *t && num_text_ok(&x) {
                        local.push(V::Num(x));
                    }
                }
            }
        }
        V::Bool(true) => local.push(V::Bool(false)),
        _ => {}
    }
    if !matches!(t, V::Bool(_)) && *t != V::Num("1".into()) {
        local.push(V::Bool(true));
    }
    out.extend(local);
}

fn shrink_string(s: &str) -> Vec<String> {
    let chars: Vec<char> = s.chars().collect();
    let mut out = vec![];
    if chars.is_empty() {
        return out;
    }
    if s != "a" {
        out.push("a".to_string());
    }
    if chars.len() > 1 {
        out.push(chars[..chars.len() / 2].iter().collect());
        out.push(chars[chars.len() / 2..].iter().collect());
        if chars.len() <= 24 {
            for i in 0..chars.len() {
                let mut c = chars.clone();
                c.remove(i);
                out.push(c.into_iter().collect());
            }
        }
    }
    if chars.len() <= 24 {
        for i in 0..chars.len() {
            if chars[i] != 'a' {
                let mut c = chars.clone();
                c[i] = 'a';
                out.push(c.into_iter().collect());
            }
        }
    }
    out
}

#[allow(dead_code)]
fn _unused(_: Value) {}

/// developer helper: `dlverif dev c14 <fmt> <file>` prints what each channel yields
pub fn dev(args: &[String]) -> i32 {
    let fmt = args.first().map(|s| s.as_str()).unwrap_or("json");
    let text = std::fs::read_to_string(&args[1]).unwrap_or_default();
    let lua = match fmt {
        "yaml" | "yml" => serde_yaml::from_str::<serde_yaml::Value>(&text).map_err(|e| e.to_string()).and_then(|v| darklua_core::convert_data(v).map_err(|e| e.to_string())),
        "toml" => toml::from_str::<toml::Value>(&text).map_err(|e| e.to_string()).and_then(|v| darklua_core::convert_data(v).map_err(|e| e.to_string())),
        _ => json5::from_str::<serde_json::Value>(&text).map_err(|e| e.to_string()).and_then(|v| darklua_core::convert_data(v).map_err(|e| e.to_string())),
    };
    println!("convert_data: {:?}", lua);
    if let Ok(lua) = &lua {
        println!("reflua: {:?}", crate::reflua::run_source(lua, Dialect::Luau, 1_000_000, false).map(|o| o.status));
    }
    let ext = if fmt == "yml" { "yml" } else { fmt };
    let files = vec![("src/main.lua".to_string(), format!("return require('./data.{}')\n", ext)), (format!("src/data.{}", ext), text.clone())];
    let gen = args.get(2).map(|s| s.as_str()).unwrap_or("'dense'");
    let config = format!("{{ rules: [], generator: {}, bundle: {{ require_mode: 'path' }} }}", gen);
    let out = dl::process_memory(&files, &config, "src/main.lua", Some("out/main.lua"), "out");
    println!("bundle ok={} errors={:?}", out.ok, out.errors);
    for (k, v) in &out.files {
        println!("--- {}\n{}", k, v);
        println!("reflua: {:?}", crate::reflua::run_source(v, Dialect::Luau, 1_000_000, false).map(|o| o.status));
    }
    0
}

/// developer helper: tally why the format parsers reject / reinterpret generated documents
pub fn dev_rejects(args: &[String]) -> i32 {
    use crate::framework::Monitor;
    let n: u64 = args.first().and_then(|s| s.parse().ok()).unwrap_or(20000);
    let mut m = C14::default();
    let mut tally: std::collections::BTreeMap<String, (u64, String)> = Default::default();
    for index in 0..n {
        let case = match m.gen(Tier::Quick, 1, index) {
            Some(c) => c,
            None => break,
        };
        let fmt = case["fmt"].as_str().unwrap_or("json");
        let style = Style::from_case(&case["style"]);
        let tree = V::from_case(&case["doc"]).unwrap();
        let text = match fmt {
            "json" => emit_json(&tree, &style),
            "yaml" => emit_yaml(&tree, &style),
            _ => emit_toml(&tree, &style),
        };
        let text = match text {
            Some(t) => t,
            None => continue,
        };
        let strip = |e: String| -> String { e.chars().filter(|c| !c.is_ascii_digit()).take(90).collect() };
        let r: Result<Result<(), &'static str>, String> = match fmt {
            "json" => json5::from_str::<serde_json::Value>(&text).map(|p| same_json(&p, &tree)).map_err(|e| strip(e.to_string())),
            "yaml" => serde_yaml::from_str::<serde_yaml::Value>(&text).map(|p| same_yaml(&p, &tree)).map_err(|e| strip(e.to_string())),
            _ => toml::from_str::<toml::Value>(&text).map(|p| same_toml(&p, &tree)).map_err(|e| strip(e.to_string().lines().last().unwrap_or("").to_string())),
        };
        let key = match r {
            Ok(Ok(())) => continue,
            Ok(Err(c)) => format!("{} differs: {}", fmt, c),
            Err(e) => format!("{} rejects: {}", fmt, e),
        };
        let ent = tally.entry(key).or_insert((0, String::new()));
        ent.0 += 1;
        if ent.1.is_empty() || text.len() < ent.1.len() {
            ent.1 = text.clone();
        }
    }
    for (k, (c, ex)) in tally {
        println!("{:6} {}\n        e.g. {:?}", c, k, ex.chars().take(160).collect::<String>());
    }
    0
}
