//! C05 — a bundle behaves like the program with its modules required normally.
//!
//! A case is a small project: files (entry + modules + data files), a require mode, bundle
//! options, a generator and an optional rule pipeline.  Every `require` call that darklua is
//! documented to inline is written in the case with a marker character (`§`) at the start of its
//! string: the *real* text (given to darklua) drops the marker, the *model* text (run by the
//! reference interpreter with a model `require`) replaces it by `<requiring file>|`, so the model
//! `require` knows the file a call is written in even when the call happens later through a closure.
//! Requires without marker (shadowed `require`, non-literal argument, excluded pattern) reach the
//! run-time `require` in both runs, which is served by the same "host" function.

use super::c15_model::*;
use crate::dl;
use crate::framework::*;
use crate::reflua;
use crate::reflua::interp::{Interp, Outcome, Status};
use crate::reflua::literal::Dialect;
use crate::reflua::value::Value as LV;
use crate::rng::{hash64, Rng};
use serde_json::{json, Value};
use std::cell::RefCell;
use std::collections::{BTreeMap, BTreeSet, HashMap};
use std::rc::Rc;

const MARK: char = '§';
/// generate shadowed `require`s inside required modules too (off: known defect, see directed cases)
const SHADOW_IN_MODULES: bool = false;

#[derive(Default)]
pub struct C05 {
    fixed: Option<Vec<Case>>,
}

// ------------------------------------------------------------------------------------------
// project representation

#[derive(Clone, Debug)]
struct FileSpec {
    text: String,
    /// for data files: Lua expression of the value the document denotes
    lua: Option<String>,
    /// generator's note: this file is malformed on purpose
    problem: Option<String>,
}

struct Project {
    project: String,
    entry: String,
    mode: ModeCfg,
    files: BTreeMap<String, FileSpec>,
    excludes: Vec<String>,
    generator: String,
    rules: Vec<String>,
    modules_identifier: Option<String>,
}

fn project_of(case: &Case) -> Project {
    let mut files = BTreeMap::new();
    if let Some(o) = case["files"].as_object() {
        for (k, v) in o {
            files.insert(norm(k), FileSpec { text: v["text"].as_str().unwrap_or("").to_string(), lua: v["lua"].as_str().map(|s| s.to_string()), problem: v["problem"].as_str().map(|s| s.to_string()) });
        }
    }
    let strs = |v: &Value| -> Vec<String> { v.as_array().map(|a| a.iter().filter_map(|x| x.as_str().map(|s| s.to_string())).collect()).unwrap_or_default() };
    Project {
        project: case["project"].as_str().unwrap_or("p").to_string(),
        entry: norm(case["entry"].as_str().unwrap_or("")),
        mode: ModeCfg::from_json(&case["mode"]),
        files,
        excludes: strs(&case["excludes"]),
        generator: case["generator"].as_str().unwrap_or("'retain_lines'").to_string(),
        rules: strs(&case["rules"]),
        modules_identifier: case["modules_identifier"].as_str().map(|s| s.to_string()),
    }
}

fn real_text(t: &str) -> String {
    t.replace(MARK, "")
}
fn model_text(t: &str, file: &str) -> String {
    t.replace(MARK, &format!("{}|", file))
}

/// literal strings of the inlinable requires written in a file
fn marked_requires(t: &str) -> Vec<String> {
    let mut out = vec![];
    let mut rest = t;
    while let Some(i) = rest.find(MARK) {
        let after = &rest[i + MARK.len_utf8()..];
        let end = after.find(|c: char| c == '"' || c == '\'' || c == ']').unwrap_or(after.len());
        out.push(after[..end].to_string());
        rest = &after[end..];
    }
    out
}

// ------------------------------------------------------------------------------------------
// static analysis of the project (what the documentation says the bundler must do)

#[derive(Debug, Clone, PartialEq)]
enum Problem {
    Cycle(Vec<String>),
    Missing { requirer: String, literal: String },
    Malformed { file: String, what: String },
    /// the model cannot decide a require: the case is discarded
    Undecided(String),
}

struct Static {
    problems: Vec<Problem>,
    reachable: BTreeSet<String>,
    edges: usize,
    /// same file reached through more than one literal spelling
    multi_spelled: usize,
    shared: usize,
}

fn module_shape_problem(file: &str, spec: &FileSpec) -> Option<String> {
    if file_kind(file) != "lua" {
        return spec.problem.clone();
    }
    let block = match reflua::parser::parse_block(&real_text(&spec.text), reflua::parser::Mode::Luau) {
        Ok(b) => b,
        Err(_) => return Some("syntax error".into()),
    };
    match block.stmts.last() {
        Some(reflua::ast::Stmt::Return(values)) => {
            if values.len() == 1 {
                None
            } else {
                Some(format!("returns {} values", values.len()))
            }
        }
        _ => Some("does not end with a return statement".into()),
    }
}

fn analyse(p: &Project) -> Static {
    let real: BTreeMap<String, String> = p.files.iter().map(|(k, v)| (k.clone(), real_text(&v.text))).collect();
    let fs = MapFs(&real);
    let mut st = Static { problems: vec![], reachable: BTreeSet::new(), edges: 0, multi_spelled: 0, shared: 0 };
    let mut indeg: HashMap<String, BTreeSet<String>> = HashMap::new();
    let mut spellings: HashMap<String, BTreeSet<String>> = HashMap::new();
    // DFS with an explicit stack of (file, path from the entry)
    let mut adj: BTreeMap<String, Vec<String>> = BTreeMap::new();
    let mut todo = vec![p.entry.clone()];
    while let Some(f) = todo.pop() {
        if !st.reachable.insert(f.clone()) {
            continue;
        }
        let spec = match p.files.get(&f) {
            Some(s) => s,
            None => continue,
        };
        if f != p.entry {
            if let Some(w) = module_shape_problem(&f, spec) {
                st.problems.push(Problem::Malformed { file: f.clone(), what: w });
                continue;
            }
            if file_kind(&f) == "unsupported" {
                st.problems.push(Problem::Malformed { file: f.clone(), what: "unsupported file type".into() });
                continue;
            }
        }
        if file_kind(&f) != "lua" {
            continue;
        }
        for lit in marked_requires(&spec.text) {
            let r = resolve(&p.mode, &p.project, &fs, &f, &lit);
            match r.unique() {
                None => st.problems.push(Problem::Undecided(format!("`{}` in {}: {}", lit, f, r.undecided.clone().or(r.ambiguity.map(|s| s.to_string())).unwrap_or_default()))),
                Some(Res::Error) => st.problems.push(Problem::Missing { requirer: f.clone(), literal: lit.clone() }),
                Some(Res::File(t)) => {
                    st.edges += 1;
                    adj.entry(f.clone()).or_default().push(t.clone());
                    indeg.entry(t.clone()).or_default().insert(f.clone());
                    spellings.entry(t.clone()).or_default().insert(format!("{}|{}", parent(&f), lit));
                    todo.push(t.clone());
                }
            }
        }
    }
    st.shared = indeg.values().filter(|s| s.len() > 1).count();
    st.multi_spelled = spellings.values().filter(|s| s.iter().map(|x| x.split('|').nth(1).unwrap_or("").to_string()).collect::<BTreeSet<_>>().len() > 1).count();
    // cycles among reachable files
    fn dfs(n: &str, adj: &BTreeMap<String, Vec<String>>, stack: &mut Vec<String>, done: &mut BTreeSet<String>, out: &mut Vec<Vec<String>>) {
        if let Some(i) = stack.iter().position(|x| x == n) {
            out.push(stack[i..].to_vec());
            return;
        }
        if done.contains(n) {
            return;
        }
        stack.push(n.to_string());
        if let Some(v) = adj.get(n) {
            for t in v {
                dfs(t, adj, stack, done, out);
            }
        }
        stack.pop();
        done.insert(n.to_string());
    }
    let mut cycles = vec![];
    dfs(&p.entry, &adj, &mut vec![], &mut BTreeSet::new(), &mut cycles);
    for c in cycles {
        st.problems.push(Problem::Cycle(c));
    }
    st
}

// ------------------------------------------------------------------------------------------
// the model `require`

struct World {
    mode: ModeCfg,
    project: String,
    real: BTreeMap<String, String>,
    specs: BTreeMap<String, FileSpec>,
    cache: HashMap<String, LV>,
    host: HashMap<String, LV>,
    loading: Vec<String>,
    /// the model could not decide something: discard
    trouble: Option<String>,
    loads: u32,
}

fn install_require(it: &mut Interp, world: Option<Rc<RefCell<World>>>, host: Rc<RefCell<HashMap<String, LV>>>) {
    it.require_hook = Some(Rc::new(move |it: &mut Interp, name: &str| -> Result<LV, String> {
        if let (Some(world), Some((from, lit))) = (&world, name.split_once('|')) {
            let (res, file_spec);
            {
                let w = world.borrow();
                let r = resolve(&w.mode, &w.project, &MapFs(&w.real), from, lit);
                res = r.unique().cloned();
                if res.is_none() {
                    drop(w);
                    world.borrow_mut().trouble = Some(format!("model cannot decide `{}` from {}", lit, from));
                    return Err("undecided".into());
                }
                file_spec = match &res {
                    Some(Res::File(f)) => w.specs.get(f).cloned(),
                    _ => None,
                };
            }
            let f = match res {
                Some(Res::File(f)) => f,
                _ => {
                    world.borrow_mut().trouble = Some(format!("module `{}` not found from {}", lit, from));
                    return Err("module not found".into());
                }
            };
            if let Some(v) = world.borrow().cache.get(&f) {
                return Ok(v.clone());
            }
            if world.borrow().loading.contains(&f) {
                world.borrow_mut().trouble = Some("cyclic require at run time".into());
                return Err("cyclic require".into());
            }
            let spec = file_spec.ok_or_else(|| "no such file".to_string())?;
            let src = match file_kind(&f) {
                "lua" => model_text(&spec.text, &f),
                "unsupported" => {
                    world.borrow_mut().trouble = Some("unsupported file type".into());
                    return Err("unsupported".into());
                }
                _ => match &spec.lua {
                    Some(l) => format!("return {}", l),
                    None => {
                        world.borrow_mut().trouble = Some("data file without a model value".into());
                        return Err("no model value".into());
                    }
                },
            };
            let block = match reflua::parser::parse_block(&src, reflua::parser::Mode::Luau) {
                Ok(b) => b,
                Err(e) => {
                    world.borrow_mut().trouble = Some(format!("reference parser rejects {}: {}", f, e));
                    return Err("syntax".into());
                }
            };
            world.borrow_mut().loading.push(f.clone());
            world.borrow_mut().loads += 1;
            let r = it.run_module(&block);
            world.borrow_mut().loading.pop();
            let vals = r?;
            if vals.len() != 1 {
                world.borrow_mut().trouble = Some(format!("module {} returned {} values at run time", f, vals.len()));
                return Err("bad module".into());
            }
            let v = vals.into_iter().next().unwrap_or(LV::Nil);
            world.borrow_mut().cache.insert(f, v.clone());
            Ok(v)
        } else {
            // the host's `require`: one table per name
            if let Some(v) = host.borrow().get(name) {
                return Ok(v.clone());
            }
            let t = it.new_table();
            t.data.borrow_mut().set(&LV::str("host"), LV::str(name));
            let v = LV::Table(t);
            host.borrow_mut().insert(name.to_string(), v.clone());
            Ok(v)
        }
    }));
}

fn run_reference(p: &Project, fuel: i64) -> (Outcome, Option<String>, u32) {
    let real: BTreeMap<String, String> = p.files.iter().map(|(k, v)| (k.clone(), real_text(&v.text))).collect();
    let world = Rc::new(RefCell::new(World { mode: p.mode.clone(), project: p.project.clone(), real, specs: p.files.clone(), cache: HashMap::new(), host: HashMap::new(), loading: vec![p.entry.clone()], trouble: None, loads: 0 }));
    let mut it = Interp::new(Dialect::Luau, fuel);
    install_require(&mut it, Some(world.clone()), Rc::new(RefCell::new(HashMap::new())));
    let text = p.files.get(&p.entry).map(|s| model_text(&s.text, &p.entry)).unwrap_or_default();
    let block = match reflua::parser::parse_block(&text, reflua::parser::Mode::Luau) {
        Ok(b) => b,
        Err(e) => {
            return (Outcome { status: Status::Error("parse".into()), log: vec![], uncertain: None, steps: 0 }, Some(format!("reference parser rejects the entry: {}", e)), 0);
        }
    };
    let o = it.run_chunk(&block);
    it.require_hook = None;
    let t = world.borrow().trouble.clone();
    let loads = world.borrow().loads;
    (o, t, loads)
}

fn run_bundle(text: &str, fuel: i64) -> Result<Outcome, String> {
    let block = reflua::parser::parse_block(text, reflua::parser::Mode::Luau).map_err(|e| e.to_string())?;
    let mut it = Interp::new(Dialect::Luau, fuel);
    install_require(&mut it, None, Rc::new(RefCell::new(HashMap::new())));
    let o = it.run_chunk(&block);
    it.require_hook = None;
    Ok(o)
}

fn describe(o: &Outcome) -> String {
    super::exec::describe(o)
}

// ------------------------------------------------------------------------------------------
// generation of module graphs

#[derive(Clone, Copy, PartialEq, Debug)]
enum Ret {
    Table,
    Func,
    Nil,
    False,
    Num,
    Str,
    Reexport,
}

const FORMS: [&str; 19] = [
    "local", "statement", "paren", "field", "callfield", "method", "call", "argument", "select", "table", "binary", "nested", "string-call", "string-call-long", "shadow-local", "shadow-param", "non-literal", "paren-arg", "excluded",
];

struct GenMod {
    id: String,
    path: String,
    ret: Ret,
    /// the module exports Luau types used by its requirers
    types: bool,
}

fn rel_spelling(base: &str, target_noext: &str) -> String {
    let b = comps(base);
    let t = comps(target_noext);
    let mut i = 0;
    while i < b.len() && i < t.len() && b[i] == t[i] {
        i += 1;
    }
    let ups = b.len() - i;
    let rest = t[i..].join("/");
    if ups == 0 {
        format!("./{}", rest)
    } else {
        format!("{}{}", "../".repeat(ups), rest)
    }
}

/// candidate spellings of a require of `to` written in `from`
fn spellings(mode: &ModeCfg, project: &str, from: &str, to: &str, r: &mut Rng) -> Vec<(String, &'static str)> {
    let dir = parent(from);
    let base = if mode.luau && is_init_file(from) { parent(&dir) } else { dir.clone() };
    let mut out: Vec<(String, &'static str)> = vec![];
    let noext = match extension(to) {
        Some(e) if e == "lua" || e == "luau" => to[..to.len() - e.len() - 1].to_string(),
        _ => to.to_string(),
    };
    let folder = if file_name(&noext).as_deref() == Some(mode.module_folder_name()) && noext != *to { Some(parent(&noext)) } else { None };
    let short = folder.clone().unwrap_or_else(|| noext.clone());
    let s0 = rel_spelling(&base, &short);
    out.push((s0.clone(), "plain"));
    out.push((rel_spelling(&base, to), "with-extension"));
    if folder.is_some() {
        out.push((rel_spelling(&base, &noext), "explicit-folder-file"));
    }
    // redundant segments
    let (head, tail) = match s0.find('/') {
        Some(i) => s0.split_at(i + 1),
        None => (s0.as_str(), ""),
    };
    let mut lead = String::new();
    let mut rest_tail = tail.to_string();
    let mut h = head.to_string();
    while rest_tail.starts_with("../") {
        h.push_str("../");
        rest_tail = rest_tail[3..].to_string();
    }
    lead.push_str(&h);
    out.push((format!("{}zz/../{}", lead, rest_tail), "dot-dot"));
    if s0.starts_with("./") {
        out.push((format!("./{}", s0), "dot-dot"));
    }
    if let Some(i) = rest_tail.find('/') {
        out.push((format!("{}{}/./{}", lead, &rest_tail[..i], &rest_tail[i + 1..]), "dot-dot"));
    }
    // sources / aliases
    for (name, loc) in &mode.sources {
        let target_dir = norm(&join(project, loc));
        let pre = format!("{}/", target_dir);
        if short.starts_with(&pre) {
            out.push((format!("{}/{}", name, &short[pre.len()..]), "alias"));
            out.push((format!("{}/{}", name, &to[pre.len()..]), "alias"));
        }
    }
    if mode.luau && is_init_file(from) {
        let pre = format!("{}/", dir);
        if short.starts_with(&pre) {
            out.push((format!("@self/{}", &short[pre.len()..]), "@self"));
        }
    }
    r.shuffle(&mut out);
    out
}

const DATA_DOCS: [(&str, &str, &str); 9] = [
    ("json", "{\"name\": \"doc\", \"list\": [1, 2.5, -3], \"nested\": {\"ok\": true, \"text\": \"a b\"}, \"empty\": []}", "{name=\"doc\", list={1, 2.5, -3}, nested={ok=true, text=\"a b\"}, empty={}}"),
    ("json", "[\"x\", {\"k\": false}, 10]", "{\"x\", {k=false}, 10}"),
    ("json", "\"just a string\"", "\"just a string\""),
    ("json5", "{ name: 'doc5', n: 12, arr: [true, 'q'], }", "{name=\"doc5\", n=12, arr={true, \"q\"}}"),
    ("yaml", "name: ydoc\nitems:\n  - 1\n  - two\nflag: true\nsub:\n  k: v\n", "{name=\"ydoc\", items={1, \"two\"}, flag=true, sub={k=\"v\"}}"),
    ("yml", "- a\n- 2\n- k: 3\n", "{\"a\", 2, {k=3}}"),
    ("toml", "title = \"tdoc\"\nn = 7\nlist = [1, 2]\n[section]\nkey = \"value\"\nflag = false\n", "{title=\"tdoc\", n=7, list={1, 2}, section={key=\"value\", flag=false}}"),
    ("txt", "plain text\nwith \"quotes\" and a second line\n", "\"plain text\\nwith \\\"quotes\\\" and a second line\\n\""),
    ("txt", "", "\"\""),
];

const PRELUDE: &str = "local count = 0\nlocal secret = \"secret-of-@ID\"\nlocal name = \"@ID\"\nlocal obs = {}\nlocal deps = {}\nlocal lazy = {}\nlocal function id(...) return ... end\nlocal function describe(v)\n  if type(v) == \"table\" then\n    local r = { kind = \"table\", name = v.name, host = v.host }\n    if type(v.count) == \"function\" then r.count = v.count() end\n    return r\n  elseif type(v) == \"function\" then\n    return \"function\"\n  end\n  return v\nend\nRUNS = RUNS or {}\nRUNS[name] = (RUNS[name] or 0) + 1\ncount = count + 1";

const ENTRY_EPILOGUE: &str = "local out = { own = { count = count, name = name, secret = secret }, obs = obs }\nlocal list = {}\nlocal function collect(v, depth)\n  list[#list + 1] = v\n  local d, l = nil, nil\n  if type(v) == \"table\" then d = v.deps l = v.lazy elseif type(v) == \"function\" then d = v(\"deps\") l = v(\"lazy\") end\n  if depth < 4 and type(d) == \"table\" then\n    for i = 1, 12 do\n      if d[\"k\" .. i] ~= nil then collect(d[\"k\" .. i], depth + 1) end\n    end\n  end\n  if depth < 4 and type(l) == \"table\" then\n    for i = 1, 12 do\n      if type(l[\"k\" .. i]) == \"function\" then collect(l[\"k\" .. i](), depth + 1) end\n    end\n  end\nend\nfor i = 1, 12 do\n  if deps[\"k\" .. i] ~= nil then collect(deps[\"k\" .. i], 1) end\n  if lazy[\"k\" .. i] ~= nil then collect(lazy[\"k\" .. i](), 1) end\nend\nif #list > 40 then for i = #list, 41, -1 do list[i] = nil end end\nlocal first = {}\nfor i = 1, #list do first[i] = describe(list[i]) end\nlocal bits = \"\"\nfor i = 1, #list do\n  for j = i + 1, #list do\n    bits = bits .. ((list[i] == list[j]) and \"1\" or \"0\")\n  end\nend\nlocal bumped = {}\nfor i = 1, #list do\n  local v = list[i]\n  if type(v) == \"table\" and type(v.bump) == \"function\" then bumped[#bumped + 1] = v.bump()\n  elseif type(v) == \"function\" then bumped[#bumped + 1] = v(\"bump\")\n  else bumped[#bumped + 1] = \"-\" end\nend\nlocal second = {}\nfor i = 1, #list do\n  local v = list[i]\n  second[i] = describe(v)\n  if type(v) == \"table\" and type(v.obs) == \"table\" then second[i] = { second[i], v.obs, type(v.secret) == \"function\" and v.secret() } end\n  if type(v) == \"function\" then second[i] = { \"function\", v(\"obs\"), v(\"secret\") } end\nend\nout.first = first\nout.identity = bits\nout.bumped = bumped\nout.second = second\nout.runs = RUNS\nout.globals = { count = rawget(_G, \"count\"), name = rawget(_G, \"name\"), secret = rawget(_G, \"secret\"), obs = rawget(_G, \"obs\"), v = rawget(_G, \"v\") }\nreturn out";

fn q(s: &str) -> String {
    format!("\"{}{}\"", MARK, s)
}

#[allow(clippy::too_many_arguments)]
fn emit_edge(lines: &mut Vec<String>, k: usize, form: &str, s1: &str, s2: &str, target_ret: Ret, plain: &str, forms_used: &mut Vec<String>) {
    // every edge ends with `deps.k<k>` holding the module value (when the form yields it)
    let dk = format!("deps.k{}", k);
    let is_table = target_ret == Ret::Table;
    let is_func = target_ret == Ret::Func;
    let mut used = form.to_string();
    match form {
        "statement" => {
            lines.push(format!("require({})", q(s1)));
            lines.push(format!("{} = require({})", dk, q(s2)));
        }
        "paren" => lines.push(format!("{} = (require({}))", dk, q(s1))),
        "field" if is_table => {
            lines.push(format!("obs[#obs + 1] = require({}).name", q(s1)));
            lines.push(format!("{} = require({})", dk, q(s2)));
        }
        "callfield" if is_table => {
            lines.push(format!("obs[#obs + 1] = require({}).bump()", q(s1)));
            lines.push(format!("{} = require({})", dk, q(s2)));
        }
        "method" if is_table => {
            lines.push(format!("obs[#obs + 1] = require({}):who()", q(s1)));
            lines.push(format!("{} = require({})", dk, q(s2)));
        }
        "call" if is_func => {
            lines.push(format!("obs[#obs + 1] = require({})(\"bump\")", q(s1)));
            lines.push(format!("{} = require({})", dk, q(s2)));
        }
        "argument" => lines.push(format!("{} = id(require({}))", dk, q(s1))),
        "select" => {
            lines.push(format!("obs[#obs + 1] = select(\"#\", require({}))", q(s1)));
            lines.push(format!("{} = require({})", dk, q(s2)));
        }
        "table" => {
            lines.push(format!("local t{} = {{ n = 1, require({}) }}", k, q(s1)));
            lines.push(format!("{} = t{}[1]", dk, k));
        }
        "binary" => {
            lines.push(format!("obs[#obs + 1] = (require({}) == require({}))", q(s1), q(s2)));
            lines.push(format!("{} = require({})", dk, q(s1)));
        }
        "nested" => {
            lines.push(format!("lazy.k{} = function() return require({}) end", k, q(s1)));
        }
        "string-call" => lines.push(format!("{} = require {}", dk, q(s1))),
        "string-call-long" => lines.push(format!("{} = require[[{}{}]]", dk, MARK, s1)),
        "shadow-local" => {
            // binder and use stay on one line so that shrinking cannot separate them
            lines.push(format!("do local require = function(n) return \"shadowed:\" .. n end; obs[#obs + 1] = require(\"{}\") end", plain));
            lines.push(format!("{} = require({})", dk, q(s1)));
        }
        "shadow-param" => {
            lines.push(format!("local function sp{}(require) return require(\"{}\") end; obs[#obs + 1] = sp{}(function(n) return \"param:\" .. n end)", k, plain, k));
            lines.push(format!("{} = require({})", dk, q(s1)));
        }
        "non-literal" => {
            lines.push(format!("local n{} = \"{}\"", k, plain));
            lines.push(format!("obs[#obs + 1] = describe(require(n{}))", k));
            lines.push(format!("obs[#obs + 1] = describe(require(\"{}\" .. \"\"))", plain));
            lines.push(format!("{} = require({})", dk, q(s1)));
        }
        "paren-arg" => {
            lines.push(format!("obs[#obs + 1] = describe(require((\"{}\")))", plain));
            lines.push(format!("{} = require({})", dk, q(s1)));
        }
        "excluded" => {
            lines.push(format!("obs[#obs + 1] = describe(require(\"@lune/thing{}\"))", k % 2));
            lines.push(format!("obs[#obs + 1] = (require(\"@lune/thing{}\") == require('@lune/thing{}'))", k % 2, k % 2));
            lines.push(format!("{} = require({})", dk, q(s1)));
        }
        _ => {
            used = "local".into();
            lines.push(format!("local d{} = require({})", k, q(s1)));
            lines.push(format!("{} = d{}", dk, k));
        }
    }
    forms_used.push(used);
}

fn emit_return(lines: &mut Vec<String>, ret: Ret, index: usize, has_dep: bool) {
    match ret {
        Ret::Table => lines.push("return { name = name, count = function() return count end, bump = function() count = count + 1 return count end, who = function(self) return \"who:\" .. self.name end, secret = function() return secret end, deps = deps, lazy = lazy, obs = obs }".into()),
        Ret::Func => lines.push("return function(what) if what == \"deps\" then return deps elseif what == \"lazy\" then return lazy elseif what == \"obs\" then return obs elseif what == \"secret\" then return secret elseif what == \"bump\" then count = count + 1 return count end return count end".into()),
        Ret::Nil => lines.push("return nil".into()),
        Ret::False => lines.push("return false".into()),
        Ret::Num => lines.push(format!("return {}", 40 + index)),
        Ret::Str => lines.push("return \"value-of-\" .. name".into()),
        Ret::Reexport => {
            if has_dep {
                lines.push("return deps.k1".into())
            } else {
                lines.push("return { name = name, deps = deps, lazy = lazy, obs = obs }".into())
            }
        }
    }
}

fn random_graph(r: &mut Rng, thorough: bool) -> Case {
    let luau = r.chance(2, 5);
    let mut mode = if luau { ModeCfg::luau() } else { ModeCfg::path() };
    if !luau && r.chance(1, 4) {
        mode.mfn = r.pick(&["index", "mod"]).to_string();
    }
    let project = r.pick(&["p", "p", "work/proj", "/abs/p", ""]).to_string();
    if r.chance(2, 3) {
        mode.sources.insert("@pkg".into(), "./pkg".into());
        if !luau && r.bool() {
            mode.sources.insert("lib".into(), "src/lib".into());
        }
    }
    let n = 1 + r.below(if thorough { 9 } else { 8 });
    let dirs = ["src", "src", "src/lib", "src/lib/util", "pkg", "pkg/inner"];
    let mfn = mode.module_folder_name().to_string();
    let entry_name = if luau { *r.pick(&["main.lua", "main.luau", "init.luau", "init.lua"]) } else { *r.pick(&["main.lua", "main.luau", "init.lua", "entry.lua"]) };
    let entry = norm(&join(&project, &format!("src/{}", entry_name)));
    let mut mods: Vec<GenMod> = vec![GenMod { id: "entry".into(), path: entry.clone(), ret: Ret::Table, types: false }];
    let with_types = r.chance(1, 3);
    let ids = ["a", "b", "c", "d", "e", "f", "g", "h", "i"];
    for i in 0..n {
        let id = ids[i].to_string();
        let dir = norm(&join(&project, *r.pick(&dirs)));
        let ext = if r.chance(1, 3) { "luau" } else { "lua" };
        let path = match r.below(5) {
            0 => format!("{}/{}/{}.{}", dir, id, mfn, ext),
            _ => format!("{}/{}.{}", dir, id, ext),
        };
        let ret = match r.below(12) {
            0 => Ret::Func,
            1 => Ret::Nil,
            2 => Ret::False,
            3 => Ret::Num,
            4 => Ret::Str,
            5 => Ret::Reexport,
            6 => Ret::Func,
            _ => Ret::Table,
        };
        let types = with_types && r.chance(1, 2);
        mods.push(GenMod { id, path, ret, types });
    }
    // data files
    let mut files: BTreeMap<String, Value> = BTreeMap::new();
    let mut data_paths: Vec<(String, String)> = vec![];
    let ndata = if r.chance(1, 2) { 1 + r.below(2) } else { 0 };
    for i in 0..ndata {
        let (ext, doc, lua) = *r.pick(&DATA_DOCS);
        let path = format!("{}/data{}.{}", norm(&join(&project, *r.pick(&["src", "src/lib", "pkg"]))), i, ext);
        files.insert(path.clone(), json!({"text": doc, "lua": lua}));
        data_paths.push((path, lua.to_string()));
    }
    // the files known so far (for validating spellings with the model)
    let mut known: BTreeMap<String, String> = mods.iter().map(|m| (m.path.clone(), String::new())).collect();
    for (p, _) in &data_paths {
        known.insert(p.clone(), String::new());
    }
    // decoys: siblings of lower precedence that must not be picked
    let mut decoys = vec![];
    for m in mods.iter().skip(1) {
        if r.chance(1, 6) {
            if let Some(e) = extension(&m.path) {
                if !m.path.ends_with(&format!("/{}.{}", mfn, e)) {
                    let noext = &m.path[..m.path.len() - e.len() - 1];
                    let d = if e == "luau" { format!("{}.lua", noext) } else { format!("{}/{}.lua", noext, mfn) };
                    if !known.contains_key(&d) {
                        known.insert(d.clone(), String::new());
                        decoys.push(d);
                    }
                }
            }
        }
    }
    let excludes: Vec<String> = if r.chance(3, 4) { vec!["@lune/**".to_string()] } else { vec![] };
    // an alias of a `.luaurc` next to the configuration; its target differs from project to project (the same worker
    // bundles thousands of projects: whatever is cached between runs must not leak from one to the next)
    let rc_alias: Option<(String, String)> = if r.chance(1, 3) { Some(("rc".to_string(), r.pick(&["./pkg", "./src/lib", "./src", "./pkg/inner"]).to_string())) } else { None };
    let rc_path = norm(&join(&project, ".luaurc"));
    if let Some((n, loc)) = &rc_alias {
        known.insert(rc_path.clone(), format!("{{\"aliases\": {{\"{}\": \"{}\"}}}}", n, loc));
    }
    let fs = MapFs(&known);
    let mut forms_used: Vec<String> = vec![];
    let mut spell_used: Vec<String> = vec![];
    let total = mods.len();
    let mut texts: Vec<String> = vec![];
    for i in 0..total {
        let m = &mods[i];
        let mut lines: Vec<String> = PRELUDE.replace("@ID", &m.id).lines().map(|s| s.to_string()).collect();
        let mut k = 0usize;
        // dependencies: modules with a larger index (acyclic), data files
        let mut targets: Vec<(String, Ret)> = vec![];
        let mut typed: BTreeSet<String> = BTreeSet::new();
        if m.types {
            lines.push("export type Id = number".into());
            lines.push("export type Pair<T> = { first: T, second: T }".into());
            lines.push("type Private = string".into());
            lines.push("local typed: Private = name".into());
        }
        for j in (i + 1)..total {
            let p = if i == 0 { 3 } else { 2 };
            if r.below(5) < p {
                targets.push((mods[j].path.clone(), mods[j].ret));
                if mods[j].types {
                    typed.insert(mods[j].path.clone());
                }
            }
        }
        for (p, _) in &data_paths {
            if r.chance(1, 3) {
                targets.push((p.clone(), Ret::Num));
            }
        }
        r.shuffle(&mut targets);
        if targets.len() > 10 {
            targets.truncate(10);
        }
        // sometimes require the same dependency twice in a module
        if !targets.is_empty() && r.chance(1, 3) {
            let t = targets[r.below(targets.len())].clone();
            targets.push(t);
        }
        for (tpath, tret) in &targets {
            k += 1;
            let mut cands = spellings(&mode, &project, &m.path, tpath, r);
            if let Some((n, loc)) = &rc_alias {
                let pre = format!("{}/", norm(&join(&project, loc)));
                if tpath.starts_with(&pre) && mode.rc_enabled() {
                    let rest = &tpath[pre.len()..];
                    let noext = match extension(rest) {
                        Some(e) if e == "lua" || e == "luau" => &rest[..rest.len() - e.len() - 1],
                        _ => rest,
                    };
                    cands.insert(0, (format!("@{}/{}", n, noext), "luaurc-alias"));
                    cands.insert(0, (format!("@{}/{}", n, rest), "luaurc-alias"));
                    r.shuffle(&mut cands);
                }
            }
            let mut valid: Vec<(String, &'static str)> = vec![];
            for (s, kind) in cands {
                let res = resolve(&mode, &project, &fs, &m.path, &s);
                if res.unique() == Some(&Res::File(tpath.clone())) {
                    valid.push((s, kind));
                }
            }
            if valid.is_empty() {
                k -= 1;
                continue;
            }
            let (s1, k1) = valid[0].clone();
            let (s2, k2) = valid[r.below(valid.len())].clone();
            spell_used.push(k1.to_string());
            spell_used.push(k2.to_string());
            let mut form = if excludes.is_empty() { FORMS[r.below(FORMS.len() - 1)] } else { FORMS[r.below(FORMS.len())] };
            // known defect (directed case `shadowed-require-in-module`): scopes are not tracked inside
            // required modules, a shadowed `require` is inlined there.  Only the entry gets these forms.
            if i > 0 && form.starts_with("shadow") && !SHADOW_IN_MODULES {
                form = "local";
            }
            if typed.contains(tpath) && r.chance(2, 3) {
                // a typed import: `local` form followed by uses of the exported types
                lines.push(format!("local d{} = require({})", k, q(&s1)));
                lines.push(format!("deps.k{} = d{}", k, k));
                lines.push(format!("local ty{}: d{}.Id = {}", k, k, k));
                lines.push(format!("local pair{}: d{}.Pair<d{}.Id> = {{ first = ty{}, second = ty{} + 1 }}", k, k, k, k, k));
                lines.push(format!("obs[#obs + 1] = pair{}.second", k));
                forms_used.push("typed-import".into());
                continue;
            }
            emit_edge(&mut lines, k, form, &s1, &s2, *tret, &s1, &mut forms_used);
        }
        if i == 0 {
            lines.extend(ENTRY_EPILOGUE.lines().map(|s| s.to_string()));
        } else {
            emit_return(&mut lines, m.ret, i, k > 0);
        }
        texts.push(lines.join("\n"));
    }
    for (m, t) in mods.iter().zip(texts) {
        files.insert(m.path.clone(), json!({ "text": t }));
    }
    for d in decoys {
        files.insert(d, json!({"text": "RUNS = RUNS or {}\nRUNS.decoy = (RUNS.decoy or 0) + 1\nreturn \"DECOY\""}));
    }
    if rc_alias.is_some() {
        files.insert(rc_path.clone(), json!({"text": known[&rc_path].clone(), "lua": "nil"}));
    }
    let generator = dl::generator_json(*r.pick(&dl::GENERATORS), if r.chance(1, 3) { Some(*r.pick(&[0usize, 20, 80])) } else { None });
    let rules: Vec<String> = match r.below(4) {
        0 => dl::DEFAULT_RULES.iter().map(|s| format!("'{}'", s)).collect(),
        1 => vec![format!("'{}'", r.pick(&dl::DEFAULT_RULES))],
        _ => vec![],
    };
    json!({
        "kind": "graph", "project": project, "entry": entry, "mode": mode.to_json(), "files": files, "excludes": excludes,
        "generator": generator, "rules": rules, "fs": r.chance(1, 10),
        "modules_identifier": if r.chance(1, 6) { json!("_BUNDLE") } else { Value::Null },
        "forms": forms_used, "spellings": spell_used,
    })
}

// ------------------------------------------------------------------------------------------
// fixed cases: all small directed graphs, malformed modules

fn small_graph_case(n: usize, edges: u32, luau: bool) -> Case {
    let names = ["main", "a", "b"];
    let mut files = BTreeMap::new();
    for i in 0..n {
        let mut lines = vec![format!("local name = \"{}\"", names[i]), "local deps = {}".to_string(), "RUNS = RUNS or {}".to_string(), "RUNS[name] = (RUNS[name] or 0) + 1".to_string()];
        for j in 0..n {
            if edges >> (i * n + j) & 1 == 1 {
                lines.push(format!("deps.{} = require({})", names[j], q(&format!("./{}", names[j]))));
            }
        }
        if i == 0 {
            lines.push("local out = {}".into());
            lines.push("for _, k in ipairs({\"main\", \"a\", \"b\"}) do local d = deps[k] if d then out[#out + 1] = { k, d.name, d.deps.a == deps.a, d.deps.b == deps.b, d.deps.a and d.deps.a.name, d.deps.b and d.deps.b.name } end end".into());
            lines.push("return { out, RUNS }".into());
        } else {
            lines.push("return { name = name, deps = deps }".into());
        }
        files.insert(format!("p/src/{}.lua", names[i]), json!({"text": lines.join("\n")}));
    }
    let mode = if luau { ModeCfg::luau() } else { ModeCfg::path() };
    json!({"kind": "small-graph", "project": "p", "entry": "p/src/main.lua", "mode": mode.to_json(), "files": files, "excludes": [], "generator": "'retain_lines'", "rules": [], "modules_identifier": null, "graph": format!("n={} edges={:b}", n, edges)})
}

fn malformed_cases() -> Vec<Case> {
    let mut v = vec![];
    let entry = |req: &str| format!("local m = require({})\nreturn {{ m }}", q(req));
    let bad: Vec<(&str, &str, &str, &str)> = vec![
        ("no-return", "p/src/a.lua", "./a", "local x = 1"),
        ("empty-file", "p/src/a.lua", "./a", ""),
        ("returns-nothing", "p/src/a.lua", "./a", "return"),
        ("returns-two", "p/src/a.lua", "./a", "return 1, 2"),
        ("returns-three", "p/src/a.luau", "./a", "local t = {}\nreturn t, t, t"),
        ("syntax-error", "p/src/a.lua", "./a", "local = 1\nreturn 1"),
        ("syntax-error-unfinished", "p/src/a.lua", "./a", "return {"),
        ("bad-json", "p/src/a.json", "./a.json", "{ \"a\": "),
        ("bad-toml", "p/src/a.toml", "./a.toml", "a = = 1"),
        ("bad-yaml", "p/src/a.yml", "./a.yml", "a: [1, 2"),
        ("unsupported-extension", "p/src/a.png", "./a.png", "return 1"),
    ];
    for (what, path, req, text) in &bad {
        for luau in [false, true] {
            // directly from the entry, and one level down
            let mut files = BTreeMap::new();
            files.insert("p/src/main.lua".to_string(), json!({"text": entry(req)}));
            files.insert(path.to_string(), json!({"text": text, "problem": what}));
            let mode = if luau { ModeCfg::luau() } else { ModeCfg::path() };
            v.push(json!({"kind": "malformed", "what": what, "project": "p", "entry": "p/src/main.lua", "mode": mode.to_json(), "files": files.clone(), "excludes": [], "generator": "'retain_lines'", "rules": [], "modules_identifier": null}));
            let mut files2 = BTreeMap::new();
            files2.insert("p/src/main.lua".to_string(), json!({"text": entry("./mid")}));
            files2.insert("p/src/mid.lua".to_string(), json!({"text": format!("local inner = require({})\nreturn {{ inner = inner }}", q(req))}));
            files2.insert(path.to_string(), json!({"text": text, "problem": what}));
            v.push(json!({"kind": "malformed", "what": what, "project": "p", "entry": "p/src/main.lua", "mode": mode.to_json(), "files": files2, "excludes": [], "generator": "'dense'", "rules": [], "modules_identifier": null}));
        }
    }
    // missing files: direct, nested, inside a function that is never called, unknown source
    for (what, req) in [("missing", "./nowhere"), ("missing-with-extension", "./nowhere.lua"), ("missing-parent", "../nowhere"), ("unknown-source", "@nosuch/x"), ("missing-data", "./nowhere.json")] {
        for luau in [false, true] {
            let mode = if luau { ModeCfg::luau() } else { ModeCfg::path() };
            let mut files = BTreeMap::new();
            files.insert("p/src/main.lua".to_string(), json!({"text": entry(req)}));
            v.push(json!({"kind": "malformed", "what": what, "project": "p", "entry": "p/src/main.lua", "mode": mode.to_json(), "files": files, "excludes": [], "generator": "'retain_lines'", "rules": [], "modules_identifier": null}));
            let mut files2 = BTreeMap::new();
            files2.insert("p/src/main.lua".to_string(), json!({"text": entry("./mid")}));
            files2.insert("p/src/mid.lua".to_string(), json!({"text": format!("local function never() return require({}) end\nreturn {{ never = never }}", q(req))}));
            v.push(json!({"kind": "malformed", "what": format!("{}-in-uncalled-function", what), "project": "p", "entry": "p/src/main.lua", "mode": mode.to_json(), "files": files2, "excludes": [], "generator": "'readable'", "rules": [], "modules_identifier": null}));
        }
    }
    // a cycle that only exists through functions never called at require time
    let mut files = BTreeMap::new();
    files.insert("p/src/main.lua".to_string(), json!({"text": entry("./a")}));
    files.insert("p/src/a.lua".to_string(), json!({"text": format!("local function later() return require({}) end\nreturn {{ later = later }}", q("./b"))}));
    files.insert("p/src/b.lua".to_string(), json!({"text": format!("local function later() return require({}) end\nreturn {{ later = later }}", q("./a"))}));
    v.push(json!({"kind": "malformed", "what": "lazy-cycle", "project": "p", "entry": "p/src/main.lua", "mode": ModeCfg::path().to_json(), "files": files, "excludes": [], "generator": "'retain_lines'", "rules": [], "modules_identifier": null}));
    // the cycle is spelled differently on each edge
    let mut files = BTreeMap::new();
    files.insert("p/src/main.lua".to_string(), json!({"text": entry("./a")}));
    files.insert("p/src/a.lua".to_string(), json!({"text": format!("local b = require({})\nreturn {{ b = b }}", q("./x/../b.lua"))}));
    files.insert("p/src/b/init.lua".to_string(), json!({"text": format!("local a = require({})\nreturn {{ a = a }}", q("../a"))}));
    files.insert("p/src/b.lua".to_string(), json!({"text": format!("local b = require({})\nreturn {{ b = b }}", q("./b/init"))}));
    v.push(json!({"kind": "malformed", "what": "cycle-through-spellings", "project": "p", "entry": "p/src/main.lua", "mode": ModeCfg::path().to_json(), "files": files, "excludes": [], "generator": "'retain_lines'", "rules": [], "modules_identifier": null}));
    v
}

/// targeted regression inputs (kept small and readable)
fn directed_cases() -> Vec<Case> {
    let mut v = vec![];
    let mk = |files: Vec<(&str, String)>, mode: ModeCfg, excludes: Vec<&str>, what: &str| -> Case {
        let mut m = BTreeMap::new();
        for (p, t) in files {
            m.insert(p.to_string(), json!({"text": t}));
        }
        json!({"kind": "directed", "what": what, "project": "p", "entry": "p/src/main.lua", "mode": mode.to_json(), "files": m, "excludes": excludes, "generator": "'retain_lines'", "rules": [], "modules_identifier": null})
    };
    let counter = "RUNS = RUNS or {}\nRUNS.a = (RUNS.a or 0) + 1\n";
    // nil / false modules required several times
    for ret in ["nil", "false"] {
        v.push(mk(
            vec![
                ("p/src/main.lua", format!("local x = require({})\nlocal y = require({})\nlocal z = require({})\nreturn {{ x, y, z, RUNS }}", q("./a"), q("./a.lua"), q("./q/../a"))),
                ("p/src/a.lua", format!("{}return {}", counter, ret)),
            ],
            ModeCfg::path(),
            vec![],
            "falsy-module-required-thrice",
        ));
    }
    // a shadowed require inside a *module* (not the entry)
    v.push(mk(
        vec![
            ("p/src/main.lua", format!("local a = require({})\nreturn {{ a.got, a.b.name, RUNS }}", q("./a"))),
            ("p/src/a.lua", format!("{}local b = require({})\nlocal got\ndo local require = function(n) return \"shadowed:\" .. n end; got = require(\"./b\") end\nreturn {{ got = got, b = b }}", counter, q("./b"))),
            ("p/src/b.lua", "return { name = \"b\" }".to_string()),
        ],
        ModeCfg::path(),
        vec![],
        "shadowed-require-in-module",
    ));
    // a module whose only requires are shadowed: must not even need the file
    v.push(mk(
        vec![
            ("p/src/main.lua", format!("local a = require({})\nreturn {{ a.got }}", q("./a"))),
            ("p/src/a.lua", "local function load(require) return require(\"./does-not-exist\") end\nreturn { got = load(function(n) return \"param:\" .. n end) }".to_string()),
        ],
        ModeCfg::path(),
        vec![],
        "shadowed-require-of-missing-file-in-module",
    ));
    // same-named locals in entry and modules, module upvalues stay private
    v.push(mk(
        vec![
            ("p/src/main.lua", format!("local value = \"entry\"\nlocal a = require({})\nlocal b = require({})\nlocal v = \"entry-v\"\nreturn {{ value, v, a.get(), b.get(), a.set(\"changed\"), a.get(), b.get(), value }}", q("./a"), q("./b"))),
            ("p/src/a.lua", "local value = \"a\"\nlocal v = 1\nreturn { get = function() return value end, set = function(x) value = x return v end }".to_string()),
            ("p/src/b.lua", "local value = \"b\"\nlocal v = 2\nreturn { get = function() return value end }".to_string()),
        ],
        ModeCfg::path(),
        vec![],
        "same-named-locals",
    ));
    // excluded module keeps calling the run-time require; a non excluded one with a similar name is inlined
    v.push(mk(
        vec![
            ("p/src/main.lua", format!("local fs = require(\"@lune/fs\")\nlocal again = require(\"@lune/fs\")\nlocal a = require({})\nreturn {{ fs.host, fs == again, a }}", q("@pkg/lune"))),
            ("p/pkg/lune.lua", "return \"pkg-lune\"".to_string()),
        ],
        {
            let mut m = ModeCfg::path();
            m.sources.insert("@pkg".into(), "./pkg".into());
            m
        },
        vec!["@lune/**"],
        "excluded",
    ));
    // many modules in one bundle (the names of the accessors are generated: 53 one-character names, then longer ones,
    // some of which are keywords or start with a digit)
    for (n, mode) in [(60usize, ModeCfg::path()), (60, ModeCfg::luau()), (130, ModeCfg::path()), (320, ModeCfg::path())] {
        let mut files: Vec<(String, String)> = vec![];
        let mut main = String::from("local sum = 0\n");
        for i in 0..n {
            main.push_str(&format!("sum = sum + require({})\n", q(&format!("./m{}", i))));
            files.push((format!("p/src/m{}.lua", i), format!("return {}", i + 1)));
        }
        main.push_str("return { sum, RUNS }");
        files.push(("p/src/main.lua".to_string(), main));
        let fv: Vec<(&str, String)> = files.iter().map(|(p, t)| (p.as_str(), t.clone())).collect();
        v.push(mk(fv, mode, vec![], "many-modules"));
    }
    // the content of data files, value by value
    for (i, (ext, doc, lua)) in DATA_VALUE_DOCS.iter().enumerate() {
        let path = format!("p/src/data{}.{}", i, ext);
        let mut m = BTreeMap::new();
        m.insert("p/src/main.lua".to_string(), json!({"text": format!("local d = require({})\nlocal function plain(v, depth)\n  if type(v) ~= \"table\" or depth > 5 then return v end\n  local c = {{}}\n  for k, x in pairs(v) do c[k] = plain(x, depth + 1) end\n  return c\nend\nreturn {{ plain(d, 0) }}", q(&format!("./data{}.{}", i, ext)))}));
        m.insert(path, json!({"text": doc, "lua": lua}));
        v.push(json!({"kind": "directed", "what": "data-content", "project": "p", "entry": "p/src/main.lua", "mode": ModeCfg::path().to_json(), "files": m, "excludes": [], "generator": if i % 2 == 0 { "'dense'" } else { "'retain_lines'" }, "rules": [], "modules_identifier": null}));
    }
    v
}

/// data documents whose every value is compared (numbers of every kind the formats can write)
const DATA_VALUE_DOCS: [(&str, &str, &str); 8] = [
    ("json", "{\"neg\": -5, \"zero\": 0, \"big\": 9007199254740993, \"minus_big\": -9007199254740993, \"float\": -1.5, \"exp\": 1e21, \"list\": [-1, -2147483649, 4294967296], \"s\": \"x\"}", "{neg=-5, zero=0, big=9007199254740993, minus_big=-9007199254740993, float=-1.5, exp=1e21, list={-1, -2147483649, 4294967296}, s=\"x\"}"),
    ("json", "[-9223372036854775808, 9223372036854775807, 18446744073709551615, -0.0, 0.1]", "{-9223372036854775808, 9223372036854775807, 18446744073709551615, -0.0, 0.1}"),
    ("json5", "{ neg: -7, hex: 0x10, plus: +3, frac: .5, list: [-1, 2,], q: 'it\\'s' }", "{neg=-7, hex=16, plus=3, frac=0.5, list={-1, 2}, q=\"it's\"}"),
    ("yaml", "neg: -12\nfloat: -0.25\nlist:\n  - -3\n  - 4\ntext: \"-5\"\nnothing: ~\n", "{neg=-12, float=-0.25, list={-3, 4}, text=\"-5\"}"),
    ("yml", "- -1\n- 0\n- 1e3\n- true\n", "{-1, 0, 1000, true}"),
    ("toml", "neg = -42\nfloat = -0.5\nlist = [-1, 2, -3]\n[t]\nmin = -9223372036854775808\n", "{neg=-42, float=-0.5, list={-1, 2, -3}, t={min=-9223372036854775808}}"),
    ("toml", "a = [[-1, 1], [0]]\nb = 1_000\n", "{a={{-1, 1}, {0}}, b=1000}"),
    ("txt", "-5\n", "\"-5\\n\""),
];

// ------------------------------------------------------------------------------------------

fn shorten(s: &str, n: usize) -> String {
    if s.chars().count() > n {
        format!("{}…", s.chars().take(n).collect::<String>())
    } else {
        s.to_string()
    }
}

fn project_listing(p: &Project) -> String {
    let mut s = String::new();
    for (k, v) in &p.files {
        s.push_str(&format!("--- {}{}\n{}\n", k, if *k == p.entry { " (entry)" } else { "" }, real_text(&v.text)));
    }
    s
}

impl C05 {
    fn fixed(&mut self) -> &Vec<Case> {
        if self.fixed.is_none() {
            let mut v = directed_cases();
            v.extend(malformed_cases());
            for n in 1..=3usize {
                let ne = n * n;
                for edges in 0..(1u32 << ne) {
                    v.push(small_graph_case(n, edges, false));
                    if n < 3 || edges % 7 == 3 {
                        v.push(small_graph_case(n, edges, true));
                    }
                }
            }
            self.fixed = Some(v);
        }
        self.fixed.as_ref().unwrap()
    }
}

impl Monitor for C05 {
    fn id(&self) -> &'static str {
        "C05"
    }
    fn rule_text(&self) -> String {
        "a case is a project (entry + modules + data files + require mode + bundle options + generator + optional rules after bundling). Deterministic part: directed regressions (falsy modules required thrice, shadowed require inside a module, same-named locals, excluded patterns), malformed projects (module without return / returning 0, 2, 3 values / syntax errors / malformed json, toml, yaml / unsupported extension / missing file / unknown source, each required from the entry and one level down, in both modes), and every directed graph (self loops included) on 1, 2 and 3 files with the entry as node 0 (2 + 16 + 512 graphs; path mode all, luau mode all for n<3 and a seventh for n=3). Random part: DAGs of 1-8 modules over a directory tree (plain files, folder modules, .lua/.luau, sources/aliases, decoy siblings of lower precedence, data files), each dependency written through a random spelling validated by the resolution model (plain, with extension, explicit folder file, redundant dots, alias, @self) and a random syntactic form (19 forms: local, statement, parenthesised, field/call/method prefix, call, argument, select, table constructor, binary, nested function called later, string call, long-string call, shadowed by a local, shadowed by a parameter, non-literal argument, parenthesised argument, excluded pattern); modules return tables, closures, nil, false, numbers, strings or re-export a dependency, keep a private counter and bump a global run counter; the entry walks the graph of returned values and returns counters, the identity matrix of all values reached, the state after bumping every counter, run counts and a probe for leaked globals. Oracle: a problem reachable from the entry in the static require graph (cycle, missing file, malformed module) => `process` must fail, name a file involved and write no output; otherwise the bundle run by the reference interpreter must return exactly what the entry returns under a model `require` (cache keyed by resolved file). A positive case is non-trivial when at least one module is inlined; distinct = hash of the project.".into()
    }
    fn assumptions(&self) -> Vec<String> {
        vec![
            "reference interpreter reflua (Luau dialect) and the resolution model of C15 (c15_model.rs); requires the model cannot decide uniquely discard the case".into(),
            "modules perform no external call at require time; the only require-time effects are per-module global run counters (RUNS[name]), which observe 'ran at most once' directly".into(),
            "requires darklua documents as not inlined (shadowed `require`, non-literal argument, excluded pattern) call the run-time `require`, served identically in both runs (one table per name)".into(),
            "'names the files involved' is judged leniently: the error text must contain the path of the entry or of one file involved in the problem".into(),
            "the static require graph is the one of literal requires of the unshadowed global `require`, called or not (a cycle through uncalled functions counts as a cycle)".into(),
        ]
    }
    fn plan(&self, tier: Tier) -> Plan {
        let mut me = C05::default();
        let det = me.fixed().len() as u64;
        Plan { deterministic: det, max_cases: u64::MAX, budget_s: if tier == Tier::Quick { 40.0 } else { 900.0 } }
    }
    fn floors(&self, _tier: Tier) -> Vec<(String, u64)> {
        vec![("held".into(), 300), ("positive_compared".into(), 150), ("error_cases_confirmed".into(), 25), ("modules_inlined".into(), 500)]
    }
    fn gen(&mut self, tier: Tier, seed: u64, index: u64) -> Option<Case> {
        let f = self.fixed();
        if (index as usize) < f.len() {
            return Some(f[index as usize].clone());
        }
        let mut r = case_rng("C05", seed, index);
        Some(random_graph(&mut r, tier == Tier::Thorough))
    }

    fn run(&mut self, case: &Case, cov: &mut Cov) -> Verdict {
        let p = project_of(case);
        if !p.files.contains_key(&p.entry) {
            return Verdict::discard("no entry");
        }
        let st = analyse(&p);
        if let Some(Problem::Undecided(w)) = st.problems.iter().find(|x| matches!(x, Problem::Undecided(_))) {
            cov.hit("discard:model cannot decide a require");
            return Verdict::discard(format!("resolution model cannot decide: {}", shorten(w, 80)));
        }
        // ---- run darklua
        let mut files: BTreeMap<String, String> = p.files.iter().map(|(k, v)| (k.clone(), real_text(&v.text))).collect();
        let cfg_path = join(&p.project, ".darklua.json");
        let mut extra = String::new();
        if !p.excludes.is_empty() {
            extra.push_str(&format!(", excludes: {}", json!(p.excludes)));
        }
        if let Some(m) = &p.modules_identifier {
            extra.push_str(&format!(", modules_identifier: '{}'", m));
        }
        let config = format!("{{ generator: {}, bundle: {{ require_mode: {}{} }}, rules: [{}] }}", p.generator, p.mode.json5(), extra, p.rules.join(", "));
        files.insert(cfg_path.clone(), config.clone());
        let out_path = join(&p.project, "out/bundle.lua");
        let use_fs = case["fs"].as_bool().unwrap_or(false) && !p.project.starts_with('/');
        let r = if use_fs {
            // the same project on a real directory (directories exist there: `./lib` can be a folder *and* a module)
            let base = match std::env::var_os("DLVERIF_SCRATCH") {
                Some(b) if !b.is_empty() => std::path::PathBuf::from(b),
                _ => std::env::temp_dir(),
            };
            let nanos = std::time::SystemTime::now().duration_since(std::time::UNIX_EPOCH).map(|d| d.subsec_nanos()).unwrap_or(0);
            let root = base.join(format!("dlverif-c05-{}-{}", std::process::id(), nanos));
            let _ = std::fs::remove_dir_all(&root);
            let rs = root.to_string_lossy().to_string();
            let pre = |x: &str| format!("{}/{}", rs, x);
            let files2: BTreeMap<String, String> = files.iter().map(|(k, v)| (pre(k), v.clone())).collect();
            let out = run_darklua(&files2, &pre(&cfg_path), &pre(&p.entry), &pre(&out_path), Some(&rs));
            let _ = std::fs::remove_dir_all(&root);
            cov.hit("backend:file_system");
            out
        } else {
            run_darklua(&files, &cfg_path, &p.entry, &out_path, None)
        };
        let kind = case["kind"].as_str().unwrap_or("graph").to_string();
        let header = format!("mode: {}  generator: {}  rules: [{}]  excludes: {:?}", p.mode.json5(), p.generator, p.rules.join(", "), p.excludes);

        // ---- error side
        if !st.problems.is_empty() {
            let what = match &st.problems[0] {
                Problem::Cycle(_) => "cycle",
                Problem::Missing { .. } => "missing",
                Problem::Malformed { .. } => "malformed",
                Problem::Undecided(_) => "undecided",
            };
            let tag = case["what"].as_str().map(|s| s.to_string()).unwrap_or_else(|| what.to_string());
            let problems_text = st.problems.iter().map(|x| format!("{:?}", x)).collect::<Vec<_>>().join("; ");
            if let Some(pn) = &r.panic {
                return Verdict::violated(format!("panic|{}|{}", what, panic_location_class(pn)), format!("{}\nproblem in the project: {}\ndarklua panics instead of reporting an error: {}\n{}", header, problems_text, pn, project_listing(&p)));
            }
            if r.ok {
                let run = r.output.as_ref().map(|t| run_bundle(t, 100_000).map(|o| describe(&o)).unwrap_or_else(|e| format!("unparsable: {}", e))).unwrap_or_default();
                return Verdict::violated(format!("no-error|{}|{}", what, tag), format!("{}\nproblem in the project: {}\nprocess reports success; running the bundle gives: {}\n{}--- bundle\n{}", header, problems_text, shorten(&run, 300), project_listing(&p), r.output.clone().unwrap_or_default()));
            }
            if r.output.is_some() {
                return Verdict::violated(format!("output-written-despite-error|{}", what), format!("{}\nproblem: {}\nprocess failed ({}) but the output file exists\n{}", header, problems_text, shorten(&r.errors.join(" / "), 300), project_listing(&p)));
            }
            // which files does the text name?
            let text = r.errors.join("\n");
            let mut involved: Vec<String> = vec![];
            for pr in &st.problems {
                match pr {
                    Problem::Cycle(c) => involved.extend(c.iter().cloned()),
                    Problem::Missing { requirer, literal } => {
                        involved.push(requirer.clone());
                        involved.push(literal.trim_start_matches("./").to_string());
                    }
                    Problem::Malformed { file, .. } => involved.push(file.clone()),
                    Problem::Undecided(_) => {}
                }
            }
            let names_involved = involved.iter().any(|f| text.contains(f.as_str()));
            let names_entry = text.contains(p.entry.as_str());
            if !names_involved && !names_entry {
                return Verdict::violated(format!("error-names-no-file|{}|{}", what, tag), format!("{}\nproblem: {}\nerror text: {}\n{}", header, problems_text, text, project_listing(&p)));
            }
            cov.hit("error_cases_confirmed");
            cov.hit(&format!("error:{}:{}", what, if names_involved { "names a file involved" } else { "names only the entry" }));
            if let Problem::Cycle(c) = &st.problems[0] {
                let all = c.iter().all(|f| text.contains(f.as_str()));
                cov.hit(if all { "cycle_error_names_every_file_of_the_cycle" } else { "cycle_error_names_part_of_the_cycle" });
                cov.hit(&format!("cycle_length:{}", c.len()));
            }
            if kind == "malformed" {
                cov.hit(&format!("malformed:{}", tag));
            }
            cov.eval(Some(hash64(serde_json::to_string(&case["files"]).unwrap_or_default().as_bytes()) ^ hash64(p.mode.json5().as_bytes())));
            return Verdict::Held;
        }

        // ---- positive side: reference first (precondition)
        let (ref_out, trouble, loads) = run_reference(&p, 400_000);
        if let Some(t) = trouble {
            cov.hit("discard:reference run in trouble");
            return Verdict::discard(format!("reference run: {}", shorten(&t, 60)));
        }
        match &ref_out.status {
            Status::Done(_) => {}
            Status::Error(e) => {
                cov.hit("discard:entry raises an error under the model require");
                return Verdict::discard(format!("entry raises an error under the model require: {}", shorten(e, 60)));
            }
            _ => return Verdict::discard("reference run out of fuel / depth"),
        }
        if ref_out.uncertain.is_some() {
            return Verdict::discard("reference run depends on unpinned behaviour");
        }
        if let Some(pn) = &r.panic {
            return Verdict::violated(format!("panic|bundle|{}", panic_location_class(pn)), format!("{}\ndarklua panics while bundling a well-formed project: {}\n{}", header, pn, project_listing(&p)));
        }
        if !r.ok {
            let first = shorten(r.errors.first().map(|s| s.as_str()).unwrap_or(""), 300);
            let class = if first.contains("cyclic") { "cyclic" } else if first.contains("unable to find") { "not-found" } else { "other" };
            return Verdict::violated(format!("process-error|{}", class), format!("{}\nthe project is well formed (the entry runs under the model require: {})\nprocess fails: {}\n{}", header, shorten(&describe(&ref_out), 200), first, project_listing(&p)));
        }
        let bundle = match &r.output {
            Some(t) => t.clone(),
            None => return Verdict::violated("no-output", format!("{}\nprocess reports success but there is no output file", header)),
        };
        let fuel = (ref_out.steps as i64) * 30 + 20_000;
        let b = match run_bundle(&bundle, fuel) {
            Ok(o) => o,
            Err(e) => return Verdict::violated("unparsable-bundle", format!("{}\nthe reference parser rejects the bundle: {}\n{}--- bundle\n{}", header, e, project_listing(&p), bundle)),
        };
        if b.uncertain.is_some() {
            return Verdict::discard("bundle run depends on unpinned behaviour");
        }
        let differ = match (&b.status, &ref_out.status) {
            (Status::Done(x), Status::Done(y)) => {
                if x != y {
                    Some("result")
                } else if b.log != ref_out.log {
                    Some("trace")
                } else {
                    None
                }
            }
            (Status::Error(_), _) => Some("error"),
            (Status::Fuel, _) => Some("nontermination"),
            (Status::Depth, _) => return Verdict::discard("bundle exceeds call depth"),
            (Status::Done(_), _) => return Verdict::discard("reference did not finish"),
        };
        if let Some(d) = differ {
            let rules_tag = if p.rules.is_empty() { "" } else { "+rules" };
            let detail = format!("{}\nentry under the model require: {}\nbundle:                         {}\n{}--- bundle\n{}", header, describe(&ref_out), describe(&b), project_listing(&p), bundle);
            return Verdict::violated(format!("{}{}", d, rules_tag), detail);
        }
        // ---- coverage
        cov.hit("positive_compared");
        cov.add("modules_inlined", loads as u64);
        cov.add("static_edges", st.edges as u64);
        cov.add("modules_shared_by_several_requirers", st.shared as u64);
        cov.add("files_reached_through_several_spellings", st.multi_spelled as u64);
        cov.hit(&format!("mode:{}", p.mode.name()));
        cov.hit(&format!("generator:{}", p.generator.split(|c: char| !c.is_alphanumeric() && c != '_').find(|s| !s.is_empty() && *s != "name").unwrap_or("?")));
        cov.hit(if p.rules.is_empty() { "rules:none" } else if p.rules.len() == 1 { "rules:one default rule" } else { "rules:default pipeline" });
        cov.hit(&format!("reachable_files:{}", st.reachable.len().min(10)));
        for f in case["forms"].as_array().cloned().unwrap_or_default() {
            if let Some(s) = f.as_str() {
                cov.hit(&format!("form:{}", s));
            }
        }
        for f in case["spellings"].as_array().cloned().unwrap_or_default() {
            if let Some(s) = f.as_str() {
                cov.hit(&format!("spelling:{}", s));
            }
        }
        for f in st.reachable.iter() {
            let k = file_kind(f);
            if k != "lua" {
                cov.hit(&format!("data_file:{}", extension(f).unwrap_or("")));
            }
        }
        if kind != "graph" {
            cov.hit(&format!("fixed:{}", kind));
        }
        let h = hash64(serde_json::to_string(&case["files"]).unwrap_or_default().as_bytes()) ^ hash64(config.as_bytes());
        cov.eval(if loads > 0 { Some(h) } else { None });
        if cov.want_sample() && loads >= 3 && bundle.len() < 6000 {
            cov.sample(json!({"config": config, "files": p.files.iter().map(|(k, v)| (k.clone(), real_text(&v.text))).collect::<BTreeMap<_, _>>(), "result": describe(&b)}));
        }
        Verdict::Held
    }

    fn shrink(&mut self, case: &Case) -> Vec<Case> {
        let mut out = vec![];
        // simpler configuration
        if case["rules"].as_array().map(|a| !a.is_empty()).unwrap_or(false) {
            let mut c = case.clone();
            c["rules"] = json!([]);
            out.push(c);
            let rules = case["rules"].as_array().cloned().unwrap_or_default();
            if rules.len() > 1 {
                for i in 0..rules.len() {
                    let mut r2 = rules.clone();
                    r2.remove(i);
                    let mut c = case.clone();
                    c["rules"] = json!(r2);
                    out.push(c);
                }
            }
        }
        if case["generator"].as_str() != Some("'retain_lines'") {
            let mut c = case.clone();
            c["generator"] = json!("'retain_lines'");
            out.push(c);
        }
        if !case["modules_identifier"].is_null() {
            let mut c = case.clone();
            c["modules_identifier"] = Value::Null;
            out.push(c);
        }
        let entry = norm(case["entry"].as_str().unwrap_or(""));
        if let Some(files) = case["files"].as_object() {
            // drop a file
            for k in files.keys() {
                if norm(k) != entry {
                    let mut c = case.clone();
                    c["files"].as_object_mut().unwrap().remove(k);
                    out.push(c);
                }
            }
            // drop chunks of lines, then single lines
            for (k, v) in files {
                if file_kind(k) != "lua" {
                    continue; // data files are paired with their model value
                }
                let text = v["text"].as_str().unwrap_or("");
                let lines: Vec<&str> = text.lines().collect();
                if lines.len() < 2 {
                    continue;
                }
                let mut sizes = vec![];
                let mut s = lines.len() / 2;
                while s >= 1 {
                    sizes.push(s);
                    s /= 2;
                }
                for size in sizes {
                    let mut start = 0;
                    while start < lines.len() {
                        let end = (start + size).min(lines.len());
                        let kept: Vec<&str> = lines[..start].iter().chain(lines[end..].iter()).cloned().collect();
                        let mut c = case.clone();
                        c["files"][k]["text"] = json!(kept.join("\n"));
                        out.push(c);
                        start += size;
                        if out.len() > 600 {
                            return out;
                        }
                    }
                }
            }
        }
        out
    }

    fn classify(&mut self, case: &Case, signature: &str) -> String {
        // forms still present in the shrunk witness
        let mut feats: BTreeSet<&str> = BTreeSet::new();
        let entry = norm(case["entry"].as_str().unwrap_or(""));
        if let Some(files) = case["files"].as_object() {
            for (k, v) in files {
                let t = v["text"].as_str().unwrap_or("");
                let in_entry = norm(k) == entry;
                if t.contains("local require") {
                    feats.insert(if in_entry { "shadow-local@entry" } else { "shadow-local@module" });
                }
                if t.contains("(require)") {
                    feats.insert(if in_entry { "shadow-param@entry" } else { "shadow-param@module" });
                }
                if t.contains("return nil") || t.contains("return false") {
                    feats.insert("falsy-module");
                }
                if t.contains("@lune") {
                    feats.insert("excluded");
                }
            }
        }
        if feats.is_empty() {
            signature.to_string()
        } else {
            format!("{}|{}", signature, feats.into_iter().collect::<Vec<_>>().join("+"))
        }
    }
    fn case_cpu_limit_s(&self) -> f64 {
        30.0
    }
}
