//! C03 (retain_lines with no rules is the identity) and C18 (comment / whitespace rules never
//! touch code): byte- and token-level monitors based on the independent lexer.

use crate::corpus;
use crate::dl;
use crate::framework::*;
use crate::gen::layout::{inject_trivia, layout_tokens, tokens_preserved, LayoutOpts};
use crate::gen::prog::{self, Feat};
use crate::gen::shrink::shrink_source;
use crate::reflua::lexer::{lex, Tk, TriviaKind};
use crate::reflua::parser::{parse, Mode};
use crate::reflua::print::{PrintOpts, Printer};
use crate::rng::{hash64, Rng};
use serde_json::{json, Value};

fn corpus_sources() -> Vec<corpus::CorpusItem> {
    let mut v = vec![];
    for it in corpus::load() {
        if it.text.len() > 20000 {
            continue;
        }
        if matches!(guarded(|| dl::parse_tokens(&it.text).is_ok()), Ok(true)) {
            v.push(it);
        }
    }
    v
}

/// generated program printed through the trivia-fuzzing layout
pub fn generated_source(r: &mut Rng, luau: bool, types: bool) -> (String, Vec<(String, bool)>) {
    let mut f = Feat::default();
    f.luau = luau;
    f.types = types;
    f.idioms_refactor = r.bool();
    f.idioms_removal = r.bool();
    f.max_stmts = 5 + r.below(30);
    let (block, _) = prog::generate(r, f);
    let mut p = Printer::new(PrintOpts { quote: if r.bool() { '"' } else { '\'' } });
    p.block(&block);
    let o = LayoutOpts::random(r);
    let (text, gaps) = layout_tokens(&p.toks, r, &o);
    if tokens_preserved(&text, &p.toks) {
        (text, gaps)
    } else {
        let (t2, g2) = layout_tokens(&p.toks, r, &LayoutOpts::plain());
        (t2, g2)
    }
}

// ================================================================================ C03

#[derive(Default)]
pub struct C03 {
    corpus: Vec<corpus::CorpusItem>,
    loaded: bool,
    known: Vec<regex::Regex>,
}

impl C03 {
    fn load(&mut self) {
        if !self.loaded {
            self.loaded = true;
            self.corpus = corpus_sources();
        }
    }
}

const HAND: [&str; 30] = [
    "",
    "\n",
    "-- only a comment",
    "-- only a comment\n",
    "--[[ long ]]",
    "--[==[ long\n]] ]==]\n\n",
    "return",
    "return;",
    "return ;  ",
    ";",
    "local a = 1;;",
    "local t = {1, 2; 3,}\n",
    "local t = { a = 1; b = 2; [3] = 4, }",
    "f 'x' f \"y\" f [[z]] f {1}\n",
    "local s = [==[\nline1\r\nline2]==]",
    "local s = 'a\\\nb'",
    "local s = \"\\z\n   x\"",
    "local n = 0xFF + 0b1010 + 1_000 + 1e-3 + .5 + 5. + 0X1p4",
    "local s = `a{1}b{ `nested{2}` }c`",
    "x = a\r\ny = b\r\n",
    "x = a\ry = b",
    "\tlocal\ta\t=\t1\t",
    "local a <const> = 1",
    "#!/usr/bin/lua\nreturn 1",
    "local a = 1 -- trailing comment without newline",
    "if a then --[[c1]] elseif b then --[[c2]] else --[[c3]] end --[[c4]]",
    "local function f(--[[p]] a --[[q]], --[[r]] ... --[[s]]) --[[t]] end",
    "return function(...) return ... end, (f()), #t, -x, not y",
    "goto continue ::continue::",
    "a.b.c:d(1)(2)[3]'s'{4} = 5",
];

/// one statement around a literal built from raw pieces: text, every escape form, `\z` followed by blanks (a piece whose
/// value is empty), line continuations and - in interpolated strings - holes before, between and after them
fn raw_literal_source(r: &mut crate::rng::Rng) -> String {
    const PIECES: [&str; 16] = ["a", " ", "x=", "\\z  ", "\\z\n\t", "\\z", "\\n", "\\u{41}", "\\065", "\\x41", "\\\\", "\\\"", "\\'", "\\\n", "%", "\\z \\z "];
    const HOLES: [&str; 6] = ["{x}", "{ y }", "{1}", "{f()}", "{`n{z}`}", "{ {1} }"];
    let interp = r.chance(2, 3);
    let mut lit = String::new();
    let n = 1 + r.below(5);
    if interp {
        lit.push('`');
        for _ in 0..n {
            if r.bool() {
                lit.push_str(*r.pick(&HOLES));
            } else {
                let p = *r.pick(&PIECES);
                lit.push_str(if p == "\\'" { "'" } else { p });
            }
        }
        if r.chance(1, 3) {
            lit.push_str("\\{");
        }
        lit.push('`');
    } else {
        let q = if r.bool() { '"' } else { '\'' };
        lit.push(q);
        for _ in 0..n {
            lit.push_str(*r.pick(&PIECES));
        }
        lit.push(q);
    }
    let tail = *r.pick(&["", "\n", " -- c\n", " --[[c]]", ";"]);
    match r.below(4) {
        0 => format!("local s = {}{}", lit, tail),
        1 => format!("return {}{}", lit, tail),
        2 => format!("f({}, {}){}", lit, lit, tail),
        _ => format!("local t = {{ {} }}{}\nreturn t", lit, tail),
    }
}

impl Monitor for C03 {
    fn id(&self) -> &'static str {
        "C03"
    }
    fn set_known(&mut self, signatures: &[String]) {
        self.known = signatures.iter().filter_map(|s| regex::Regex::new(s).ok()).collect();
    }
    fn rule_text(&self) -> String {
        "inputs: hand-written edge files, every corpus file darklua's token-preserving parser accepts (verbatim, then with random trivia injected between tokens), and generated programs printed with whitespace/newlines/comments of every kind in every token gap, LF/CRLF/mixed, tabs, with and without trailing newline. Oracle: D({rules: []}, s) == s bytewise; for inputs with Luau type syntax the text outside the type-annotation spans (found by the independent parser) must be identical and inside a span the token stream may differ only by parentheses. Non-trivial = input contains at least one comment or a multi-line token or non-default literal spelling (measured as: the input is not equal to its own whitespace-normalised token join); distinct = hash of the input text.".into()
    }
    fn assumptions(&self) -> Vec<String> {
        vec!["inputs rejected by darklua's parser are skipped (counted)".into(), "a shebang line is not Lua syntax: such files are skipped".into()]
    }
    fn plan(&self, tier: Tier) -> Plan {
        let mut me = C03::default();
        me.load();
        Plan { deterministic: (HAND.len() + me.corpus.len()) as u64, max_cases: u64::MAX, budget_s: if tier == Tier::Quick { 40.0 } else { 600.0 } }
    }
    fn floors(&self, _tier: Tier) -> Vec<(String, u64)> {
        vec![("held".into(), 500), ("distinct_prefix:gap:".into(), 20)]
    }
    fn gen(&mut self, _tier: Tier, seed: u64, index: u64) -> Option<Case> {
        self.load();
        let i = index as usize;
        if i < HAND.len() {
            return Some(json!({"origin": "hand", "src": HAND[i]}));
        }
        if i < HAND.len() + self.corpus.len() {
            let it = &self.corpus[i - HAND.len()];
            return Some(json!({"origin": format!("corpus:{}", it.name), "src": it.text}));
        }
        let mut r = case_rng("C03", seed, index);
        if r.chance(1, 3) && !self.corpus.is_empty() {
            let it = &self.corpus[r.below(self.corpus.len())];
            let o = LayoutOpts::random(&mut r);
            if let Some(s) = inject_trivia(&it.text, &mut r, &o) {
                return Some(json!({"origin": format!("corpus+trivia:{}", it.name), "src": s}));
            }
        }
        if r.chance(1, 12) {
            // raw string / interpolated-string literals assembled from escape pieces (the generated programs print their
            // strings from values, which never produces `\z`, line continuations or empty-valued pieces)
            return Some(json!({"origin": "raw-literal", "src": raw_literal_source(&mut r)}));
        }
        let luau = r.bool();
        let types = luau && r.bool();
        let (src, gaps) = generated_source(&mut r, luau, types);
        let with_comment: Vec<&String> = gaps.iter().filter(|g| g.1).map(|g| &g.0).collect();
        Some(json!({"origin": "gen", "src": src, "comment_gaps": with_comment}))
    }

    fn run(&mut self, case: &Case, cov: &mut Cov) -> Verdict {
        let src = case["src"].as_str().unwrap_or("");
        if dl::parse_tokens(src).is_err() {
            cov.hit("skipped_unparsable");
            return Verdict::discard("darklua's parser rejects the input");
        }
        let out = match dl::process_one(src, "{ rules: [] }") {
            Ok(o) => o,
            Err(e) => {
                return Verdict::violated("process-error", format!("process with no rules returned an error for a parsable input: {}", e.lines().next().unwrap_or("")));
            }
        };
        let verdict = check_identity(src, &out, &self.known);
        match verdict {
            Ok(kind) => {
                cov.hit(kind);
                if let Some(g) = case["comment_gaps"].as_array() {
                    for k in g {
                        if let Some(k) = k.as_str() {
                            cov.hit(&format!("gap:{}", k));
                        }
                    }
                }
                let lexed_plain = lex(src, true).map(|l| l.code_tokens().join(" ")).unwrap_or_default();
                let nontrivial = lexed_plain.trim() != src.trim();
                cov.eval(if nontrivial { Some(hash64(src.as_bytes())) } else { None });
                if nontrivial && cov.want_sample() && src.len() < 600 {
                    cov.sample(json!({"input": src, "identical": kind == "identical"}));
                }
                Verdict::Held
            }
            Err((sig, detail)) => Verdict::violated(sig, format!("{}\n--- input\n{:?}\n--- output\n{:?}", detail, src, out)),
        }
    }

    fn shrink(&mut self, case: &Case) -> Vec<Case> {
        let src = case["src"].as_str().unwrap_or("");
        let mut out = vec![];
        // line / chunk deletions keep the layout (AST shrinking would normalise it away)
        let lines: Vec<&str> = src.split_inclusive('\n').collect();
        if lines.len() > 1 {
            let mut chunk = lines.len() / 2;
            while chunk >= 1 {
                let mut i = 0;
                while i < lines.len() {
                    let mut v: Vec<&str> = vec![];
                    v.extend_from_slice(&lines[..i]);
                    if i + chunk < lines.len() {
                        v.extend_from_slice(&lines[i + chunk..]);
                    }
                    out.push(json!({"origin": "shrunk", "src": v.concat()}));
                    i += chunk;
                }
                chunk /= 2;
                if out.len() > 300 {
                    break;
                }
            }
        }
        for s in shrink_source(src, 60) {
            out.push(json!({"origin": "shrunk", "src": s}));
        }
        out
    }

}

/// One difference between input and output, found by aligning the code tokens of both texts.
#[derive(Clone, Debug)]
pub struct Diff {
    pub class: String,
    pub detail: String,
}

fn tok_class(kind: &Tk, text: &str) -> String {
    match kind {
        Tk::Name => "<name>".to_string(),
        Tk::Number => "<number>".to_string(),
        Tk::Str => "<string>".to_string(),
        Tk::InterpSimple => "<interp>".to_string(),
        Tk::InterpBegin => "<interp-open>".to_string(),
        Tk::InterpMid | Tk::InterpEnd => "<interp-close>".to_string(),
        Tk::Eof => "<eof>".to_string(),
        _ => text.to_string(),
    }
}

fn trivia_kind(x: &str) -> &'static str {
    let b = x.as_bytes();
    if b.is_empty() {
        "nothing"
    } else if b.iter().all(|c| matches!(c, b' ' | b'\t')) {
        "spaces"
    } else if b.iter().all(|c| matches!(c, b' ' | b'\t' | b'\r' | b'\n' | 0x0b | 0x0c)) {
        "newlines"
    } else {
        "comment"
    }
}

fn comments_of(trivia: &str) -> Vec<String> {
    // comments inside a trivia string (lex it on its own)
    match lex(trivia, true) {
        Ok(lx) => lx.comments().into_iter().map(|s| s.to_string()).collect(),
        Err(_) => vec![trivia.to_string()],
    }
}

struct TokV<'a> {
    text: &'a str,
    class: String,
    trivia: &'a str,
    /// index of the type region containing the token
    region: Option<usize>,
    /// first token after a type region (its leading whitespace counts as the region's spacing)
    after_region: bool,
}

fn tokens_with_trivia<'a>(src: &'a str, spans: &[(usize, usize)]) -> Option<Vec<TokV<'a>>> {
    let lx = lex(src, true).ok()?;
    let mut out: Vec<TokV<'a>> = vec![];
    let mut prev_end = 0usize;
    for t in &lx.tokens {
        let region = if t.kind == Tk::Eof { None } else { spans.iter().position(|(s, e)| t.start >= *s && t.end <= *e) };
        let after_region = region.is_none() && out.last().map(|p| p.region.is_some()).unwrap_or(false);
        out.push(TokV { text: &src[t.start..t.end], class: tok_class(&t.kind, &src[t.start..t.end]), trivia: &src[prev_end..t.start], region, after_region });
        prev_end = t.end;
    }
    Some(out)
}

struct Region {
    tokens: Vec<String>,
    comments: Vec<String>,
    head: String,
}

fn regions_of(toks: &[TokV], n: usize) -> Vec<Region> {
    let mut v: Vec<Region> = (0..n).map(|_| Region { tokens: vec![], comments: vec![], head: String::new() }).collect();
    for t in toks {
        if let Some(r) = t.region {
            if t.text != "(" && t.text != ")" {
                v[r].tokens.push(t.text.to_string());
            }
            if v[r].head.len() < 12 {
                v[r].head.push_str(t.text);
                v[r].head.push(' ');
            }
            v[r].comments.extend(comments_of(t.trivia));
        }
    }
    // the trivia before the first token after a region belongs to the region's spacing: its comments count for the region
    let mut last_region: Option<usize> = None;
    for t in toks {
        if t.after_region {
            if let Some(r) = last_region {
                v[r].comments.extend(comments_of(t.trivia));
            }
        }
        if t.region.is_some() {
            last_region = t.region;
        }
    }
    v
}

/// All differences between `src` and `out` that the identity claim does not allow.
pub fn identity_diffs(src: &str, out: &str) -> Result<Vec<Diff>, String> {
    if src == out {
        return Ok(vec![]);
    }
    let spans_a = match parse(src, Mode::Luau) {
        Ok(p) => merge_spans(&p.type_spans),
        Err(_) => vec![],
    };
    let spans_b = if spans_a.is_empty() {
        vec![]
    } else {
        match parse(out, Mode::Luau) {
            Ok(p) => merge_spans(&p.type_spans),
            Err(e) => return Ok(vec![Diff { class: "output-unparsable".into(), detail: format!("the reference parser rejects the output: {}", e) }]),
        }
    };
    let Some(a) = tokens_with_trivia(src, &spans_a) else { return Err("reference lexer rejects the input".into()) };
    let Some(b) = tokens_with_trivia(out, &spans_b) else {
        return Ok(vec![Diff { class: "output-unlexable".into(), detail: "the reference lexer rejects the output".into() }]);
    };
    let mut diffs: Vec<Diff> = vec![];
    // ---- type regions: same tokens up to parentheses, same comments
    let ra = regions_of(&a, spans_a.len());
    let rb = regions_of(&b, spans_b.len());
    let mut dropped_regions: Vec<usize> = vec![];
    let mut extra_regions: Vec<usize> = vec![];
    {
        let (mut i, mut j) = (0usize, 0usize);
        while i < ra.len() || j < rb.len() {
            if i < ra.len() && j < rb.len() && ra[i].tokens == rb[j].tokens {
                if ra[i].comments != rb[j].comments {
                    let count = |v: &Vec<String>, c: &String| v.iter().filter(|x| *x == c).count();
                    let missing = ra[i].comments.iter().any(|c| count(&rb[j].comments, c) < count(&ra[i].comments, c));
                    diffs.push(Diff {
                        class: if missing { "type-trivia:comment->nothing".into() } else { "type-trivia:comments-reordered-or-added".into() },
                        detail: format!("comments of type region `{}…`: input {:?}, output {:?}", ra[i].head.trim(), ra[i].comments, rb[j].comments),
                    });
                }
                i += 1;
                j += 1;
            } else if i < ra.len() && (j >= rb.len() || ra.len() - i > rb.len() - j) {
                diffs.push(Diff { class: format!("type-region-dropped:{}", ra[i].head.trim()), detail: format!("type region `{}` of the input has no counterpart in the output", ra[i].tokens.join(" ")) });
                dropped_regions.push(i);
                i += 1;
            } else if j < rb.len() && (i >= ra.len() || rb.len() - j > ra.len() - i) {
                diffs.push(Diff { class: format!("type-region-inserted:{}", rb[j].head.trim()), detail: format!("type region `{}` of the output has no counterpart in the input", rb[j].tokens.join(" ")) });
                extra_regions.push(j);
                j += 1;
            } else {
                diffs.push(Diff { class: "type-tokens-differ".into(), detail: format!("type region `{}` became `{}`", ra[i].tokens.join(" "), rb[j].tokens.join(" ")) });
                i += 1;
                j += 1;
            }
        }
    }
    // ---- everything outside type regions: token by token, trivia byte for byte
    let oa: Vec<&TokV> = a.iter().filter(|t| t.region.is_none()).collect();
    let ob: Vec<&TokV> = b.iter().filter(|t| t.region.is_none()).collect();
    let (mut i, mut j) = (0usize, 0usize);
    let mut prev_class = "<start>".to_string();
    while i < oa.len() && j < ob.len() {
        let (x, y) = (oa[i], ob[j]);
        if x.text == y.text {
            if x.trivia != y.trivia {
                let lenient = x.after_region || y.after_region;
                if !lenient {
                    let relation = if y.trivia.len() == x.trivia.len() + 1 && y.trivia.starts_with(x.trivia) && y.trivia.ends_with(' ') {
                        "space-appended".to_string()
                    } else if x.trivia.replace("\r\n", "\n") == y.trivia {
                        "crlf-to-lf".to_string()
                    } else {
                        format!("{}->{}", trivia_kind(x.trivia), trivia_kind(y.trivia))
                    };
                    diffs.push(Diff { class: format!("trivia:{}@{}~{}", relation, prev_class, x.class), detail: format!("before token {:?} (after {}): input has {:?}, output has {:?}", x.text, prev_class, x.trivia, y.trivia) });
                }
            }
            prev_class = x.class.clone();
            i += 1;
            j += 1;
            continue;
        }
        let mut resynced = false;
        for k in 1..=12usize {
            if i + k < oa.len() && oa[i + k].text == y.text {
                let dropped: Vec<&str> = oa[i..i + k].iter().map(|t| t.text).collect();
                diffs.push(Diff { class: format!("token-dropped:{}@{}~{}", oa[i..i + k].iter().map(|t| t.class.clone()).collect::<Vec<_>>().join(" "), prev_class, oa[i + k].class), detail: format!("input tokens {:?} (after {}) are missing from the output", dropped, prev_class) });
                prev_class = format!("{}(dropped)", oa[i + k - 1].class);
                i += k;
                resynced = true;
                break;
            }
            if j + k < ob.len() && ob[j + k].text == x.text {
                let ins: Vec<&str> = ob[j..j + k].iter().map(|t| t.text).collect();
                diffs.push(Diff { class: format!("token-inserted:{}@{}~{}", ob[j..j + k].iter().map(|t| t.class.clone()).collect::<Vec<_>>().join(" "), prev_class, x.class), detail: format!("output has extra tokens {:?} after {}", ins, prev_class) });
                j += k;
                resynced = true;
                break;
            }
        }
        if !resynced {
            diffs.push(Diff { class: format!("tokens-diverge@{}~{}", prev_class, x.class), detail: format!("after {}: input continues with {:?}, output with {:?}", prev_class, x.text, y.text) });
            return Ok(diffs);
        }
    }
    if i < oa.len() || j < ob.len() {
        diffs.push(Diff { class: "length-differs".into(), detail: format!("{} input tokens / {} output tokens left unmatched", oa.len() - i, ob.len() - j) });
    }
    if diffs.is_empty() && spans_a.is_empty() {
        diffs.push(Diff { class: format!("bytes-differ:{}", diff_class(src, out)), detail: first_byte_diff(src, out) });
    }
    Ok(diffs)
}

/// Ok(kind) when the identity claim holds; Err((signature, detail)) otherwise.  Differences whose
/// class matches one of `known` (regexes of open known findings) are reported only when nothing
/// else differs, so a known defect cannot hide a new one.
pub fn check_identity(src: &str, out: &str, known: &[regex::Regex]) -> Result<&'static str, (String, String)> {
    if src == out {
        return Ok("identical");
    }
    let diffs = match identity_diffs(src, out) {
        Ok(d) => d,
        Err(e) => return Err(("unlexable-input".into(), e)),
    };
    if diffs.is_empty() {
        return Ok("identical-outside-types");
    }
    let pick = diffs.iter().find(|d| !known.iter().any(|k| k.is_match(&d.class))).unwrap_or(&diffs[0]);
    let all: Vec<String> = diffs.iter().take(8).map(|d| format!("[{}] {}", d.class, d.detail)).collect();
    Err((pick.class.clone(), format!("{}\nall differences ({}):\n  {}", pick.detail, diffs.len(), all.join("\n  "))))
}

fn merge_spans(spans: &[(usize, usize)]) -> Vec<(usize, usize)> {
    let mut v = spans.to_vec();
    v.sort();
    let mut out: Vec<(usize, usize)> = vec![];
    for (s, e) in v {
        if let Some(last) = out.last_mut() {
            if s <= last.1 {
                if e > last.1 {
                    last.1 = e;
                }
                continue;
            }
        }
        out.push((s, e));
    }
    out
}

/// class of a textual difference: what was removed / inserted
pub fn diff_class(a: &str, b: &str) -> String {
    let ab = a.as_bytes();
    let bb = b.as_bytes();
    let mut p = 0;
    while p < ab.len() && p < bb.len() && ab[p] == bb[p] {
        p += 1;
    }
    let mut s = 0;
    while s < ab.len() - p && s < bb.len() - p && ab[ab.len() - 1 - s] == bb[bb.len() - 1 - s] {
        s += 1;
    }
    format!("{}->{}", trivia_kind(&String::from_utf8_lossy(&ab[p..ab.len() - s])), trivia_kind(&String::from_utf8_lossy(&bb[p..bb.len() - s])))
}

fn first_byte_diff(a: &str, b: &str) -> String {
    let ab = a.as_bytes();
    let bb = b.as_bytes();
    let mut i = 0;
    while i < ab.len() && i < bb.len() && ab[i] == bb[i] {
        i += 1;
    }
    let ctx = |s: &[u8]| String::from_utf8_lossy(&s[i.saturating_sub(20)..(i + 20).min(s.len())]).to_string();
    format!("first difference at byte {} (input {} bytes, output {} bytes): input …{:?}… output …{:?}…", i, ab.len(), bb.len(), ctx(ab), ctx(bb))
}

// ================================================================================ C18

#[derive(Default)]
pub struct C18 {
    corpus: Vec<corpus::CorpusItem>,
    loaded: bool,
    known: Vec<regex::Regex>,
}

const HOSTILE_TEXTS: [&str; 22] = ["hello", "", " ", "]]", "]=]", "[[", "[=[", "[[ x", "x ]", "]", "a\nb", "a\rb", "a\r\nb", "--", "--[[", "]] print('injected') --[[", "\n", "é", "multi\nline\n]]\n]=]", "end", "[==[", "\t"];
const FILE_SHAPES: [&str; 8] = ["", "\n", "-- c", "-- c\n", "return 1", "return 1\n", "local a = 1 -- t", "local a = 1\nlocal b = 2 --[[x]]\nreturn a + b\n"];
const EXCEPT_SETS: [&[&str]; 8] = [&[], &["^--!"], &["keep"], &["^--%[%["], &["todo", "^--!"], &[".*"], &["^$"], &["^--\\[=*\\["]];

impl C18 {
    fn load(&mut self) {
        if !self.loaded {
            self.loaded = true;
            self.corpus = corpus_sources().into_iter().filter(|c| c.text.len() < 4000).collect();
        }
    }
}

fn json_str(s: &str) -> String {
    serde_json::to_string(s).unwrap()
}

/// number of consecutive expected comments, starting at `i`, whose concatenation is exactly the comment found (>= 2)
fn merge_len(want: &[(String, &'static str)], i: usize, got: Option<&String>) -> Option<usize> {
    let got = got?;
    if i + 1 >= want.len() || !got.starts_with(want[i].0.as_str()) || got.len() <= want[i].0.len() {
        return None;
    }
    let mut acc = String::new();
    let mut m = 0usize;
    while i + m < want.len() && got.starts_with(&format!("{}{}", acc, want[i + m].0)) {
        acc.push_str(&want[i + m].0);
        m += 1;
        if acc.len() == got.len() {
            break;
        }
    }
    if m >= 2 && &acc == got {
        Some(m)
    } else {
        None
    }
}

/// edit script between the expected comments (with position tags) and the comments found
fn comment_edits(want: &[(String, &'static str)], got: &[String]) -> Vec<Diff> {
    let mut diffs = vec![];
    let (mut i, mut j) = (0usize, 0usize);
    while i < want.len() || j < got.len() {
        if i < want.len() && j < got.len() && want[i].0 == got[j] {
            i += 1;
            j += 1;
            continue;
        }
        // several consecutive comments written as one
        if let Some(m) = merge_len(want, i, got.get(j)) {
            diffs.push(Diff { class: "comments-merged".into(), detail: format!("{} consecutive comments were merged into {:?}", m, got[j]) });
            i += m;
            j += 1;
            continue;
        }
        let mut ok = false;
        for k in 1..=10usize {
            if j < got.len() && i + k < want.len() && (want[i + k].0 == got[j] || merge_len(want, i + k, got.get(j)).is_some()) || (j >= got.len() && i + k == want.len()) {
                for d in &want[i..i + k] {
                    diffs.push(Diff { class: format!("{}-comment-dropped", d.1), detail: format!("comment {:?} ({} position) is missing from the output", d.0, d.1) });
                }
                i += k;
                ok = true;
                break;
            }
            if i < want.len() && j + k < got.len() && got[j + k] == want[i].0 || (i >= want.len() && j + k == got.len()) {
                for d in &got[j..j + k] {
                    diffs.push(Diff { class: "comment-inserted".into(), detail: format!("unexpected comment {:?} in the output", d) });
                }
                j += k;
                ok = true;
                break;
            }
        }
        if !ok {
            diffs.push(Diff { class: "comments-diverge".into(), detail: format!("expected comment {:?}, found {:?}", want.get(i).map(|x| &x.0), got.get(j)) });
            break;
        }
    }
    diffs
}

/// does the text contain a `-` token whose next token is preceded by a comment (with only blanks before it)?
fn minus_then_comment(text: &str) -> bool {
    let Ok(lx) = lex(text, true) else { return false };
    for w in lx.tokens.windows(2) {
        if lx.text(&w[0]) == "-" {
            for tr in &w[1].leading {
                match tr.kind {
                    TriviaKind::Whitespace => {}
                    TriviaKind::LineComment | TriviaKind::LongComment => return true,
                    _ => break,
                }
            }
        }
    }
    false
}

/// alignment of two code-token sequences (texts only)
fn code_token_diffs(a: &[String], b: &[String]) -> Vec<Diff> {
    let class_of = |t: &str| -> String {
        let c = t.as_bytes()[0];
        if crate::reflua::lexer::is_keyword(t) {
            t.to_string()
        } else if c.is_ascii_alphabetic() || c == b'_' {
            "<name>".into()
        } else if c.is_ascii_digit() || (c == b'.' && t.len() > 1 && t.as_bytes()[1].is_ascii_digit()) {
            "<number>".into()
        } else if c == b'"' || c == b'\'' || (c == b'[' && t.len() > 1) {
            "<string>".into()
        } else if c == b'`' || (c == b'}' && t.len() > 1) {
            "<interp>".into()
        } else {
            t.to_string()
        }
    };
    let mut diffs = vec![];
    let (mut i, mut j) = (0usize, 0usize);
    let mut prev = "<start>".to_string();
    while i < a.len() && j < b.len() {
        if a[i] == b[j] {
            prev = class_of(&a[i]);
            i += 1;
            j += 1;
            continue;
        }
        let mut ok = false;
        for k in 1..=12usize {
            if i + k < a.len() && a[i + k] == b[j] {
                diffs.push(Diff { class: format!("token-dropped:{}@{}~{}", a[i..i + k].iter().map(|t| class_of(t)).collect::<Vec<_>>().join(" "), prev, class_of(&a[i + k])), detail: format!("code tokens {:?} after {} are missing from the output", &a[i..i + k], prev) });
                i += k;
                ok = true;
                break;
            }
            if j + k < b.len() && b[j + k] == a[i] {
                diffs.push(Diff { class: format!("token-inserted:{}@{}~{}", b[j..j + k].iter().map(|t| class_of(t)).collect::<Vec<_>>().join(" "), prev, class_of(&a[i])), detail: format!("the output has extra code tokens {:?} after {}", &b[j..j + k], prev) });
                j += k;
                ok = true;
                break;
            }
        }
        if !ok {
            diffs.push(Diff { class: format!("tokens-diverge@{}~{}", prev, class_of(&a[i])), detail: format!("after {}: expected {:?}, output has {:?}", prev, a[i], b[j]) });
            return diffs;
        }
    }
    if i < a.len() {
        diffs.push(Diff { class: format!("token-dropped:{}@{}~<eof>", a[i..].iter().take(6).map(|t| class_of(t)).collect::<Vec<_>>().join(" "), prev), detail: format!("code tokens {:?} at the end are missing from the output", &a[i..a.len().min(i + 8)]) });
    } else if j < b.len() {
        diffs.push(Diff { class: format!("token-inserted:{}@{}~<eof>", b[j..].iter().take(6).map(|t| class_of(t)).collect::<Vec<_>>().join(" "), prev), detail: format!("the output has extra code tokens {:?} at the end", &b[j..b.len().min(j + 8)]) });
    }
    diffs
}

struct Lexd {
    code: Vec<String>,
    code_lines: Vec<u32>,
    comments: Vec<String>,
    /// position class of each comment: "plain", "type" (inside / directly after a type annotation), "interp-hole" (before the `}` of a hole)
    tags: Vec<&'static str>,
    line_comment_in_type: bool,
}

fn lexd(s: &str) -> Option<Lexd> {
    let lx = lex(s, true).ok()?;
    // parentheses inside type annotations may legitimately come and go (C03 allows it): ignore them
    let spans = match parse(s, Mode::Luau) {
        Ok(p) => merge_spans(&p.type_spans),
        Err(_) => vec![],
    };
    let mut code = vec![];
    let mut code_lines = vec![];
    let mut comments = vec![];
    let mut tags: Vec<&'static str> = vec![];
    let mut prev_in_type = false;
    let mut line_comment_in_type = false;
    for t in &lx.tokens {
        let in_type = t.kind != Tk::Eof && spans.iter().any(|(a, b)| t.start >= *a && t.end <= *b);
        let interp_close = matches!(t.kind, Tk::InterpMid | Tk::InterpEnd);
        for tr in &t.leading {
            if matches!(tr.kind, TriviaKind::LineComment | TriviaKind::LongComment) {
                comments.push(lx.trivia_text(tr).to_string());
                if in_type || prev_in_type {
                    tags.push("type");
                    if tr.kind == TriviaKind::LineComment {
                        line_comment_in_type = true;
                    }
                } else if interp_close {
                    tags.push("interp-hole");
                } else {
                    tags.push("plain");
                }
            }
        }
        prev_in_type = in_type;
        if t.kind != Tk::Eof {
            let txt = lx.text(t);
            if (txt == "(" || txt == ")") && in_type {
                continue;
            }
            code.push(txt.to_string());
            code_lines.push(t.line);
        }
    }
    Some(Lexd { code, code_lines, comments, tags, line_comment_in_type })
}

impl Monitor for C18 {
    fn id(&self) -> &'static str {
        "C18"
    }
    fn set_known(&mut self, signatures: &[String]) {
        self.known = signatures.iter().filter_map(|s| regex::Regex::new(s).ok()).collect();
    }
    fn rule_text(&self) -> String {
        "deterministic: hostile comment texts x location {start,end} x file shapes (empty, only comment, ending in a line comment, no trailing newline) for append_text_comment; every corpus file x {remove_spaces, remove_comments with 8 except-sets}; random: generated programs in fuzzed layouts x the three rules (alone and after remove_spaces) x the three generators. Oracle (independent lexer): code-token sequence unchanged; surviving comments == input comments matching an except regex (retain_lines generator); appended text appears inside exactly one new comment, no code token appears/disappears, and with location 'end' no code token changes line. Non-trivial = the input has at least one comment (or the rule is append_text_comment); distinct = hash(input, rule).".into()
    }
    fn assumptions(&self) -> Vec<String> {
        vec!["except patterns are matched with the regex crate against the whole comment text including its delimiters, as the rule's documentation shows".into(), "dense/readable generators drop all comments by design: only the code-token clause is checked for them".into()]
    }
    fn plan(&self, tier: Tier) -> Plan {
        let mut me = C18::default();
        me.load();
        let det = HOSTILE_TEXTS.len() * 2 * FILE_SHAPES.len() + me.corpus.len() * 2;
        Plan { deterministic: det as u64, max_cases: u64::MAX, budget_s: if tier == Tier::Quick { 40.0 } else { 600.0 } }
    }
    fn floors(&self, _tier: Tier) -> Vec<(String, u64)> {
        vec![("held".into(), 300)]
    }
    fn gen(&mut self, _tier: Tier, seed: u64, index: u64) -> Option<Case> {
        self.load();
        let mut i = index as usize;
        let n1 = HOSTILE_TEXTS.len() * 2 * FILE_SHAPES.len();
        if i < n1 {
            let text = HOSTILE_TEXTS[i % HOSTILE_TEXTS.len()];
            i /= HOSTILE_TEXTS.len();
            let loc = if i % 2 == 0 { "start" } else { "end" };
            i /= 2;
            let shape = FILE_SHAPES[i];
            return Some(json!({"src": shape, "rules": [format!("{{ rule: 'append_text_comment', text: {}, location: '{}' }}", json_str(text), loc)], "generator": "'retain_lines'", "kind": "append", "text": text, "location": loc}));
        }
        i -= n1;
        if i < self.corpus.len() * 2 {
            let it = &self.corpus[i / 2];
            if i % 2 == 0 {
                return Some(json!({"src": it.text, "rules": ["'remove_spaces'"], "generator": "'retain_lines'", "kind": "spaces"}));
            }
            let ex = EXCEPT_SETS[(i / 2) % EXCEPT_SETS.len()];
            let ex_json: Vec<String> = ex.iter().map(|e| json_str(e)).collect();
            return Some(json!({"src": it.text, "rules": [format!("{{ rule: 'remove_comments', except: [{}] }}", ex_json.join(", "))], "generator": "'retain_lines'", "kind": "comments", "except": ex}));
        }
        let mut r = case_rng("C18", seed, index);
        let luau = r.bool();
        let (src, _) = if r.chance(1, 4) && !self.corpus.is_empty() {
            let it = &self.corpus[r.below(self.corpus.len())];
            let o = LayoutOpts { comment_pct: 30, ..LayoutOpts::random(&mut r) };
            (inject_trivia(&it.text, &mut r, &o).unwrap_or_else(|| it.text.clone()), vec![])
        } else {
            { let ty = luau && r.bool(); generated_source(&mut r, luau, ty) }
        };
        let generator = match r.below(5) {
            0 => "'dense'".to_string(),
            1 => "'readable'".to_string(),
            _ => "'retain_lines'".to_string(),
        };
        let pre_spaces = r.chance(1, 3);
        match r.below(3) {
            0 => {
                let mut rules = vec![];
                if pre_spaces {
                    rules.push("'remove_comments'".to_string());
                }
                rules.push("'remove_spaces'".to_string());
                let kind = if pre_spaces { "comments" } else { "spaces" };
                Some(json!({"src": src, "rules": rules, "generator": generator, "kind": kind, "except": []}))
            }
            1 => {
                let ex = *r.pick(&EXCEPT_SETS);
                let ex_json: Vec<String> = ex.iter().map(|e| json_str(e)).collect();
                let mut rules = vec![];
                if pre_spaces {
                    rules.push("'remove_spaces'".to_string());
                }
                rules.push(format!("{{ rule: 'remove_comments', except: [{}] }}", ex_json.join(", ")));
                Some(json!({"src": src, "rules": rules, "generator": generator, "kind": "comments", "except": ex}))
            }
            _ => {
                let text = *r.pick(&HOSTILE_TEXTS);
                let loc = if r.bool() { "start" } else { "end" };
                let mut rules = vec![];
                if pre_spaces {
                    rules.push("'remove_spaces'".to_string());
                }
                rules.push(format!("{{ rule: 'append_text_comment', text: {}, location: '{}' }}", json_str(text), loc));
                Some(json!({"src": src, "rules": rules, "generator": generator, "kind": "append", "text": text, "location": loc}))
            }
        }
    }

    fn run(&mut self, case: &Case, cov: &mut Cov) -> Verdict {
        let src = case["src"].as_str().unwrap_or("");
        let rules: Vec<String> = case["rules"].as_array().map(|a| a.iter().filter_map(|x| x.as_str().map(|s| s.to_string())).collect()).unwrap_or_default();
        let generator = case["generator"].as_str().unwrap_or("'retain_lines'");
        let kind = case["kind"].as_str().unwrap_or("");
        if dl::parse_tokens(src).is_err() {
            return Verdict::discard("darklua's parser rejects the input");
        }
        let config = dl::config_json(&rules, generator);
        let out = match dl::process_one(src, &config) {
            Ok(o) => o,
            Err(e) => {
                if e.starts_with("config:") {
                    return Verdict::discard(format!("configuration rejected: {}", e.chars().take(80).collect::<String>()));
                }
                return Verdict::violated("process-error", format!("error for a parsable input: {}", e.lines().next().unwrap_or("")));
            }
        };
        // baseline: the same pipeline without the rule under test (the last rule), so that only that rule is judged
        let base_text = if rules.len() > 1 {
            match dl::process_one(src, &dl::config_json(&rules[..rules.len() - 1], generator)) {
                Ok(o) => o,
                Err(_) => return Verdict::discard("baseline pipeline failed"),
            }
        } else if generator.contains("retain_lines") {
            src.to_string()
        } else {
            // what the generator alone does to the file
            match dl::process_one(src, &dl::config_json(&[], generator)) {
                Ok(o) => o,
                Err(_) => return Verdict::discard("baseline pipeline failed"),
            }
        };
        let Some(a) = lexd(&base_text) else { return Verdict::discard("reference lexer rejects the baseline text") };
        if rules.len() > 1 {
            // an earlier rule of the pipeline already damaged the file: that is reported by that rule's own cases
            match lexd(src) {
                Some(s0) if s0.code == a.code && s0.comments == a.comments => {}
                _ => return Verdict::discard("the baseline pipeline already changed the code tokens or comments"),
            }
        }
        let Some(b) = lexd(&out) else {
            return Verdict::violated(format!("{}:output-unlexable", kind), format!("the reference lexer rejects the output\n--- input\n{:?}\n--- output\n{:?}", src, out));
        };
        let retain = generator.contains("retain_lines");
        let mut diffs: Vec<Diff> = vec![];
        // 1. code tokens: identical sequence (for every generator: the baseline went through the same generator)
        diffs.extend(code_token_diffs(&a.code, &b.code));
        if !diffs.is_empty() && a.line_comment_in_type && diffs[0].class.starts_with("token-dropped:") {
            let d = diffs.remove(0);
            diffs = vec![Diff { class: "line-comment-in-type-swallows-code".into(), detail: format!("a line comment inside a type annotation: the line break after it moved past the next token ({})", d.detail) }];
        }
        if !diffs.is_empty() && minus_then_comment(&base_text) && rules.last().map(|r| r.contains("remove_spaces")).unwrap_or(false) {
            // `- --comment`: after the fusion the damage is arbitrary, name the trigger instead
            let d = diffs.remove(0);
            diffs = vec![Diff { class: "minus-then-comment-fused".into(), detail: format!("a `-` directly followed by a comment lost its separating space ({})", d.detail) }];
        }
        // 2. comments (retain_lines keeps them; dense/readable drop them all by design)
        if retain && diffs.is_empty() {
            let tagged: Vec<(String, &'static str)> = a.comments.iter().cloned().zip(a.tags.iter().cloned()).collect();
            match kind {
                "spaces" => diffs.extend(comment_edits(&tagged, &b.comments)),
                "comments" => {
                    let ex: Vec<String> = case["except"].as_array().map(|a| a.iter().filter_map(|x| x.as_str().map(|s| s.to_string())).collect()).unwrap_or_default();
                    let mut regs = vec![];
                    for e in &ex {
                        match regex::Regex::new(e) {
                            Ok(r) => regs.push(r),
                            Err(_) => return Verdict::discard("invalid regex in the harness' except set"),
                        }
                    }
                    let want: Vec<(String, &'static str)> = tagged.into_iter().filter(|c| regs.iter().any(|r| r.is_match(&c.0))).collect();
                    for mut d in comment_edits(&want, &b.comments) {
                        if d.class == "comment-inserted" {
                            d.class = "comment-not-matching-except-survived".into();
                        }
                        d.detail = format!("except {:?}: {}", ex, d.detail);
                        diffs.push(d);
                    }
                }
                "append" => {
                    let text = case["text"].as_str().unwrap_or("");
                    let loc = case["location"].as_str().unwrap_or("start");
                    let norm = |s: &str| s.replace("\r\n", "\n");
                    let mut got = b.comments.clone();
                    let mut edits: Vec<Diff> = vec![];
                    if !text.is_empty() {
                        // exactly one comment holding the text is expected, at the requested end of the file; a file ending
                        // (starting) with a line comment may legitimately get the text merged with that comment
                        let holds = |c: &str| norm(c).contains(&norm(text));
                        // the comment the rule writes: `--text` or a long comment around "\ntext\n"
                        let exact = |c: &str| -> bool {
                            let c = norm(c);
                            let t = norm(text);
                            // (a line comment runs to the end of its line: blanks that followed the insertion point belong to it)
                            if c.trim_end() == format!("--{}", t).trim_end() {
                                return true;
                            }
                            if let Some(rest) = c.strip_prefix("--[") {
                                let eqs = rest.bytes().take_while(|b| *b == b'=').count();
                                let open = eqs + 1;
                                if rest.len() >= open * 2 + 1 && rest.as_bytes().get(eqs) == Some(&b'[') {
                                    let body = &rest[open..rest.len() - (eqs + 2)];
                                    return body == format!("\n{}\n", t);
                                }
                            }
                            false
                        };
                        // candidates: comments of the output that are not original comments (multiset difference)
                        let mut pool: Vec<&String> = a.comments.iter().collect();
                        let mut novel: Vec<usize> = vec![];
                        for (i, c) in got.iter().enumerate() {
                            if let Some(p) = pool.iter().position(|o| *o == c) {
                                pool.remove(p);
                            } else {
                                novel.push(i);
                            }
                        }
                        let pick = |pred: &dyn Fn(&str) -> bool| -> Option<usize> {
                            if loc == "start" {
                                novel.iter().copied().find(|i| pred(&got[*i]))
                            } else {
                                novel.iter().copied().rev().find(|i| pred(&got[*i]))
                            }
                        };
                        let idx = pick(&exact).or_else(|| pick(&holds)).or_else(|| if loc == "start" { got.iter().position(|c| exact(c)) } else { got.iter().rposition(|c| exact(c)) });
                        // a new comment spelled exactly like an original one: the copy at the requested end of the file is the new one
                        let idx = idx.map(|ix| if loc == "start" { got.iter().position(|c| *c == got[ix]).unwrap_or(ix) } else { got.iter().rposition(|c| *c == got[ix]).unwrap_or(ix) });
                        match idx {
                            None => edits.push(Diff { class: "text-not-in-comment".into(), detail: format!("text {:?} at {}: no comment of the output contains it: {:?}", text, loc, b.comments.iter().take(6).collect::<Vec<_>>()) }),
                            Some(ix) => {
                                let c = got.remove(ix);
                                // the new comment may have been written directly before / after an original line comment,
                                // which then forms one comment with it: the original text is still there
                                let mut merged = false;
                                if !exact(&c) {
                                    let mut at = ix.min(got.len());
                                    for o in a.comments.iter() {
                                        let have = got.iter().filter(|x| *x == o).count();
                                        let need = a.comments.iter().filter(|x| *x == o).count();
                                        if have < need && c.contains(o.as_str()) && c != *o {
                                            got.insert(at, o.clone());
                                            at += 1;
                                            merged = true;
                                        }
                                    }
                                }
                                cov.hit(if merged { "append:merged-into-existing-comment" } else { "append:separate-comment" });
                            }
                        }
                    }
                    edits.extend(comment_edits(&tagged, &got));
                    diffs.extend(edits);
                    if loc == "end" && a.code_lines != b.code_lines && a.code == b.code {
                        let shift: Vec<i64> = a.code_lines.iter().zip(b.code_lines.iter()).map(|(x, y)| *y as i64 - *x as i64).collect();
                        let uniform = shift.windows(2).all(|w| w[0] == w[1]);
                        diffs.push(Diff { class: if uniform { "end-shifts-all-lines".into() } else { "end-moves-lines".into() }, detail: format!("text {:?} at end: code token lines changed from {:?} to {:?}", text, &a.code_lines[..a.code_lines.len().min(12)], &b.code_lines[..b.code_lines.len().min(12)]) });
                    }
                }
                _ => {}
            }
        }
        if !diffs.is_empty() {
            let pick = diffs.iter().find(|d| !self.known.iter().any(|k| k.is_match(&format!("{}:{}", kind, d.class)))).unwrap_or(&diffs[0]);
            let all: Vec<String> = diffs.iter().take(6).map(|d| format!("[{}] {}", d.class, d.detail)).collect();
            return Verdict::violated(format!("{}:{}", kind, pick.class), format!("{}\nall differences: {}\n--- rules {:?} generator {}\n--- input\n{:?}\n--- baseline (pipeline without the last rule)\n{:?}\n--- output\n{:?}", pick.detail, all.join(" | "), rules, generator, src, base_text, out));
        }
        cov.hit(&format!("kind:{}", kind));
        cov.hit(&format!("generator:{}", generator.trim_matches('\'')));
        let nontrivial = !a.comments.is_empty() || kind == "append";
        cov.add("input_comments_seen", a.comments.len() as u64);
        cov.add("output_comments_seen", b.comments.len() as u64);
        cov.eval(if nontrivial { Some(hash64(format!("{}|{:?}", src, rules).as_bytes())) } else { None });
        if nontrivial && cov.want_sample() && src.len() < 400 {
            cov.sample(json!({"input": src, "rules": rules, "output": out}));
        }
        Verdict::Held
    }

    fn shrink(&mut self, case: &Case) -> Vec<Case> {
        let src = case["src"].as_str().unwrap_or("");
        let mut out: Vec<Value> = vec![];
        let lines: Vec<&str> = src.split_inclusive('\n').collect();
        for i in 0..lines.len().min(200) {
            let mut v = lines.clone();
            v.remove(i);
            let mut c = case.clone();
            c["src"] = json!(v.concat());
            out.push(c);
        }
        for s in shrink_source(src, 40) {
            let mut c = case.clone();
            c["src"] = json!(s);
            out.push(c);
        }
        if case["generator"].as_str() != Some("'retain_lines'") {
            let mut c = case.clone();
            c["generator"] = json!("'retain_lines'");
            out.push(c);
        }
        out
    }

    fn classify(&mut self, case: &Case, signature: &str) -> String {
        if case["kind"] == "append" {
            let text = case["text"].as_str().unwrap_or("");
            let class = if text.contains('\r') {
                "text-with-cr"
            } else if text.starts_with("[[") || text.starts_with("[=") {
                "text-starting-with-long-bracket"
            } else if text.contains('\n') {
                "multiline-text"
            } else {
                "single-line-text"
            };
            // with a hostile text the exact damage depends on the file: keep only its kind
            // where the comment is attached: a type declaration as last (first) statement gets it in its middle
            let src = case["src"].as_str().unwrap_or("");
            let loc = case["location"].as_str().unwrap_or("");
            let mut site = "";
            if let Ok(b) = crate::reflua::parser::parse_block(src, Mode::Luau) {
                use crate::reflua::ast::Stmt;
                let st = if loc == "end" { b.stmts.last() } else { b.stmts.first() };
                if matches!(st, Some(Stmt::TypeDecl { .. } | Stmt::TypeFunction { .. })) {
                    site = "|attached-to-type-declaration";
                }
            }
            return format!("{}|{}|{}{}", signature, loc, class, site);
        }
        signature.to_string()
    }
}
