//! Worker/driver framework: cases, verdicts, coverage, journaling, watchdog, confirmation,
//! known findings, evidence and exit codes.  See DESIGN.md §1, §4.

use crate::rng::{hash64, Rng};
use serde_json::{json, Map, Value};
use std::collections::{BTreeMap, BTreeSet, HashSet};
use std::io::Write;
use std::path::{Path, PathBuf};
use std::process::{Command, Stdio};
use std::sync::atomic::{AtomicBool, AtomicU64, Ordering};
use std::sync::Arc;
use std::time::{Duration, Instant};

pub type Case = Value;

#[derive(Clone, Copy, Debug, PartialEq, Eq)]
pub enum Tier {
    Quick,
    Thorough,
}
impl Tier {
    pub fn name(self) -> &'static str {
        match self {
            Tier::Quick => "quick",
            Tier::Thorough => "thorough",
        }
    }
    pub fn parse(s: &str) -> Option<Tier> {
        match s {
            "quick" => Some(Tier::Quick),
            "thorough" => Some(Tier::Thorough),
            _ => None,
        }
    }
}

#[derive(Debug, Clone)]
pub enum Verdict {
    /// property held on this case
    Held,
    /// precondition not met / oracle cannot decide: counted by reason, never a violation
    Discard(String),
    /// refuting observation
    Violated {
        /// narrow classification of the failure (used for dedup and known findings)
        signature: String,
        /// human readable: expected vs observed
        detail: String,
        /// optional narrower case reproducing the same failure (for batch cases)
        narrowed: Option<Case>,
    },
}

impl Verdict {
    pub fn violated(signature: impl Into<String>, detail: impl Into<String>) -> Verdict {
        Verdict::Violated { signature: signature.into(), detail: detail.into(), narrowed: None }
    }
    pub fn discard(reason: impl Into<String>) -> Verdict {
        Verdict::Discard(reason.into())
    }
    pub fn is_violation(&self) -> bool {
        matches!(self, Verdict::Violated { .. })
    }
}

/// Coverage accumulated by a worker.
#[derive(Default)]
pub struct Cov {
    pub counters: BTreeMap<String, u64>,
    pub distinct: HashSet<u64>,
    pub samples: Vec<Value>,
    pub sample_cap: usize,
    pub evaluations: u64,
}

impl Cov {
    pub fn new() -> Cov {
        Cov { sample_cap: 4, ..Default::default() }
    }
    pub fn hit(&mut self, key: &str) {
        *self.counters.entry(key.to_string()).or_insert(0) += 1;
    }
    pub fn add(&mut self, key: &str, n: u64) {
        *self.counters.entry(key.to_string()).or_insert(0) += n;
    }
    /// one evaluation of the oracle; `nontrivial` = Some(hash of the normal form of the case)
    /// when the case is non-trivial by the monitor's stated rule
    pub fn eval(&mut self, nontrivial: Option<u64>) {
        self.evaluations += 1;
        if let Some(h) = nontrivial {
            self.distinct.insert(h);
        }
    }
    pub fn sample(&mut self, v: Value) {
        if self.samples.len() < self.sample_cap {
            self.samples.push(v);
        }
    }
    pub fn want_sample(&self) -> bool {
        self.samples.len() < self.sample_cap
    }
}

pub struct Plan {
    /// number of seed-independent cases at the start of the index space
    pub deterministic: u64,
    /// hard cap on the number of cases (deterministic + random)
    pub max_cases: u64,
    /// default time budget in seconds for the random part
    pub budget_s: f64,
}

pub trait Monitor {
    fn id(&self) -> &'static str;
    /// text for evidence.coverage.rule
    fn rule_text(&self) -> String;
    fn assumptions(&self) -> Vec<String> {
        vec![]
    }
    fn plan(&self, tier: Tier) -> Plan;
    /// case number `index` (a pure function of tier, seed, index)
    fn gen(&mut self, tier: Tier, seed: u64, index: u64) -> Option<Case>;
    fn run(&mut self, case: &Case, cov: &mut Cov) -> Verdict;
    /// candidates that are simpler than `case`; the framework keeps a candidate if it still fails
    /// with the same signature
    fn shrink(&mut self, _case: &Case) -> Vec<Case> {
        vec![]
    }
    /// lazy shrinking (optional, for monitors with many / expensive candidates): number of candidates of `case` ...
    fn shrink_count(&mut self, _case: &Case) -> Option<usize> {
        None
    }
    /// ... and the i-th one (None = that edit is a no-op)
    fn shrink_candidate(&mut self, _case: &Case, _i: usize) -> Option<Case> {
        None
    }
    /// fine-grained signature of a (shrunk) failing case: used for de-duplication and for matching
    /// known findings; computed after shrinking, so it may look at the minimal witness
    fn classify(&mut self, _case: &Case, signature: &str) -> String {
        signature.to_string()
    }
    /// regexes of the open known findings of this property (called once, before any case runs)
    fn set_known(&mut self, _signatures: &[String]) {}
    /// counters that must reach a minimum for the run to count (else exit 2, inconclusive)
    fn floors(&self, _tier: Tier) -> Vec<(String, u64)> {
        vec![]
    }
    /// CPU seconds allowed for one case before the watchdog fires
    fn case_cpu_limit_s(&self) -> f64 {
        20.0
    }
    /// whether a reproducible crash/hang of the process is a violation of this property
    fn death_is_violation(&self) -> bool {
        true
    }
    /// extra coverage keys computed at the end by the driver from merged counters
    fn exhaustive_note(&self, _tier: Tier) -> Option<String> {
        None
    }
}

// ---------------------------------------------------------------------------------------------
// utilities

pub fn cpu_time_s() -> f64 {
    let mut ts = libc::timespec { tv_sec: 0, tv_nsec: 0 };
    unsafe {
        libc::clock_gettime(libc::CLOCK_PROCESS_CPUTIME_ID, &mut ts);
    }
    ts.tv_sec as f64 + ts.tv_nsec as f64 * 1e-9
}

thread_local! {
    static LAST_PANIC: std::cell::RefCell<Option<String>> = std::cell::RefCell::new(None);
}

pub fn install_panic_hook() {
    std::panic::set_hook(Box::new(|info| {
        let msg = if let Some(s) = info.payload().downcast_ref::<&str>() {
            s.to_string()
        } else if let Some(s) = info.payload().downcast_ref::<String>() {
            s.clone()
        } else {
            "<non-string panic>".to_string()
        };
        let loc = info.location().map(|l| format!("{}:{}", l.file(), l.line())).unwrap_or_default();
        LAST_PANIC.with(|p| *p.borrow_mut() = Some(format!("{} @ {}", msg, loc)));
    }));
}

pub fn take_panic() -> Option<String> {
    LAST_PANIC.with(|p| p.borrow_mut().take())
}

/// run a closure catching panics; returns Err(message @ location)
pub fn guarded<T>(f: impl FnOnce() -> T) -> Result<T, String> {
    let r = std::panic::catch_unwind(std::panic::AssertUnwindSafe(f));
    match r {
        Ok(v) => Ok(v),
        Err(_) => Err(take_panic().unwrap_or_else(|| "panic".to_string())),
    }
}

pub fn panic_location_class(msg: &str) -> String {
    // "message @ file:line" -> "file:line" with the registry prefix stripped
    let loc = msg.rsplit(" @ ").next().unwrap_or("");
    let loc = loc.rsplit("/src/").next().unwrap_or(loc);
    loc.to_string()
}

fn run_case_guarded(mon: &mut dyn Monitor, case: &Case, cov: &mut Cov) -> Verdict {
    match guarded(|| mon.run(case, cov)) {
        Ok(v) => v,
        Err(msg) => Verdict::Violated {
            signature: format!("panic:{}", panic_location_class(&msg)),
            detail: format!("panic during case: {}", msg),
            narrowed: None,
        },
    }
}

fn write_atomic(path: &Path, bytes: &[u8]) {
    let tmp = path.with_extension("part");
    if let Ok(mut f) = std::fs::File::create(&tmp) {
        let _ = f.write_all(bytes);
        let _ = std::fs::rename(&tmp, path);
    }
}

fn truncate_value(v: &Value, max: usize) -> Value {
    match v {
        Value::String(s) if s.len() > max => {
            let mut end = max;
            while !s.is_char_boundary(end) {
                end -= 1;
            }
            Value::String(format!("{}…[{} bytes]", &s[..end], s.len()))
        }
        Value::Array(a) => Value::Array(a.iter().take(40).map(|x| truncate_value(x, max)).collect()),
        Value::Object(o) => {
            let mut m = Map::new();
            for (k, x) in o.iter().take(40) {
                m.insert(k.clone(), truncate_value(x, max));
            }
            Value::Object(m)
        }
        _ => v.clone(),
    }
}

// ---------------------------------------------------------------------------------------------
// worker

pub struct WorkArgs {
    pub tier: Tier,
    pub seed: u64,
    pub shard: u64,
    pub nshards: u64,
    pub start: u64,
    pub budget_s: f64,
    pub dir: PathBuf,
    pub verif_dir: PathBuf,
}

pub fn shrink_case(mon: &mut dyn Monitor, case: &Case, signature: &str, time_limit: Duration) -> (Case, String, u32) {
    let t0 = Instant::now();
    let mut best = case.clone();
    let mut best_detail = String::new();
    let mut steps = 0u32;
    let mut scratch = Cov::new();
    // candidates are tried in order; after a success the scan continues from the same position in the new
    // candidate list (earlier positions were just tried on an almost identical case), wrapping around once
    let mut pos = 0usize;
    let mut since_success = 0usize;
    loop {
        if t0.elapsed() > time_limit {
            break;
        }
        let lazy_n = guarded(|| mon.shrink_count(&best)).ok().flatten();
        let cands: Vec<Case> = if lazy_n.is_some() {
            vec![]
        } else {
            match guarded(|| mon.shrink(&best)) {
                Ok(c) => c,
                Err(_) => break,
            }
        };
        let n = lazy_n.unwrap_or(cands.len());
        if n == 0 {
            break;
        }
        let mut progressed = false;
        let mut tried = 0usize;
        while tried < n {
            if t0.elapsed() > time_limit {
                break;
            }
            let idx = (pos + tried) % n;
            tried += 1;
            since_success += 1;
            let cand: Case = if lazy_n.is_some() {
                match guarded(|| mon.shrink_candidate(&best, idx)) {
                    Ok(Some(c)) => c,
                    _ => continue,
                }
            } else {
                cands[idx].clone()
            };
            if let Verdict::Violated { signature: s, detail, .. } = run_case_guarded(mon, &cand, &mut scratch) {
                if s == signature {
                    best = cand;
                    best_detail = detail;
                    steps += 1;
                    pos = idx;
                    since_success = 0;
                    progressed = true;
                    break;
                }
            }
        }
        if !progressed || since_success > 3 * n {
            break;
        }
    }
    (best, best_detail, steps)
}

pub fn worker_main(mon: &mut dyn Monitor, args: WorkArgs) -> i32 {
    install_panic_hook();
    let known_sigs = open_known_signatures(&args.verif_dir, mon.id());
    let known_res: Vec<regex::Regex> = known_sigs.iter().filter_map(|s| regex::Regex::new(s).ok()).collect();
    mon.set_known(&known_sigs);
    let plan = mon.plan(args.tier);
    let tag = format!("s{}.k{}", args.shard, args.start);
    let journal_path = args.dir.join(format!("s{}.journal", args.shard));
    let report_path = args.dir.join(format!("{}.report.json", tag));
    let hashes_path = args.dir.join(format!("{}.hashes", tag));
    let viol_path = args.dir.join(format!("s{}.viol.jsonl", args.shard));

    // watchdog
    let case_cpu_start = Arc::new(AtomicU64::new(f64::to_bits(-1.0)));
    let case_index = Arc::new(AtomicU64::new(0));
    let done = Arc::new(AtomicBool::new(false));
    {
        let case_cpu_start = case_cpu_start.clone();
        let case_index = case_index.clone();
        let done = done.clone();
        let limit = mon.case_cpu_limit_s();
        let dir = args.dir.clone();
        let shard = args.shard;
        std::thread::spawn(move || loop {
            std::thread::sleep(Duration::from_millis(200));
            if done.load(Ordering::SeqCst) {
                return;
            }
            let st = f64::from_bits(case_cpu_start.load(Ordering::SeqCst));
            if st >= 0.0 && cpu_time_s() - st > limit {
                let idx = case_index.load(Ordering::SeqCst);
                let _ = std::fs::write(dir.join(format!("s{}.timeout", shard)), format!("{}", idx));
                std::process::exit(3);
            }
        });
    }

    let mut cov = Cov::new();
    let mut discards: BTreeMap<String, u64> = BTreeMap::new();
    let mut cases_run = 0u64;
    let mut held = 0u64;
    let mut violations_found = 0u64;
    let mut sig_counts: BTreeMap<String, u32> = BTreeMap::new();
    let mut known_classes: BTreeSet<String> = BTreeSet::new();
    let t0 = Instant::now();
    let mut last_flush = Instant::now();
    let mut journal = std::fs::OpenOptions::new().create(true).write(true).truncate(true).open(&journal_path).ok();

    let flush = |cov: &Cov, discards: &BTreeMap<String, u64>, cases_run: u64, held: u64, finished: bool, next_index: u64| {
        let rep = json!({
            "shard": args.shard, "start": args.start, "cases": cases_run, "held": held,
            "evaluations": cov.evaluations, "counters": cov.counters, "discards": discards,
            "samples": cov.samples, "finished": finished, "next_index": next_index,
            "wall_s": t0.elapsed().as_secs_f64(),
        });
        write_atomic(&report_path, serde_json::to_vec(&rep).unwrap().as_slice());
        let mut bytes = Vec::with_capacity(cov.distinct.len() * 8);
        for h in &cov.distinct {
            bytes.extend_from_slice(&h.to_le_bytes());
        }
        write_atomic(&hashes_path, &bytes);
    };

    let mut index = args.start;
    // align to this shard
    while index % args.nshards != args.shard {
        index += 1;
    }
    let hard_deadline = args.budget_s * 4.0 + 60.0;
    loop {
        if index >= plan.max_cases {
            break;
        }
        let elapsed = t0.elapsed().as_secs_f64();
        if index >= plan.deterministic && elapsed > args.budget_s {
            break;
        }
        if elapsed > hard_deadline {
            cov.hit("deterministic_prefix_cut_by_hard_deadline");
            break;
        }
        let case = match guarded(|| mon.gen(args.tier, args.seed, index)) {
            Ok(Some(c)) => c,
            Ok(None) => break,
            Err(msg) => {
                // a generator panic is a harness defect: report as broken, not as violation
                let _ = std::fs::write(args.dir.join(format!("s{}.broken", args.shard)), format!("generator panic at index {}: {}", index, msg));
                flush(&cov, &discards, cases_run, held, false, index);
                done.store(true, Ordering::SeqCst);
                return 2;
            }
        };
        // journal
        if let Some(j) = journal.as_mut() {
            use std::io::Seek;
            let bytes = serde_json::to_vec(&json!({"index": index, "case": case})).unwrap();
            let _ = j.seek(std::io::SeekFrom::Start(0));
            let _ = j.write_all(&bytes);
            let _ = j.set_len(bytes.len() as u64);
        }
        case_index.store(index, Ordering::SeqCst);
        case_cpu_start.store(f64::to_bits(cpu_time_s()), Ordering::SeqCst);
        let verdict = run_case_guarded(mon, &case, &mut cov);
        case_cpu_start.store(f64::to_bits(-1.0), Ordering::SeqCst);
        cases_run += 1;
        match verdict {
            Verdict::Held => held += 1,
            Verdict::Discard(r) => *discards.entry(r).or_insert(0) += 1,
            Verdict::Violated { signature, detail, narrowed } => {
                violations_found += 1;
                // de-duplicate on the fine signature of the unshrunk case (rules + trigger class), so that different
                // defects sharing a coarse failure kind all get a witness
                let base0 = narrowed.clone().unwrap_or_else(|| case.clone());
                let mut pre_key = guarded(|| mon.classify(&base0, &signature)).unwrap_or_else(|_| signature.clone());
                // everything explained by the same open known finding is one class (and does not count towards the cap)
                if let Some(ix) = known_res.iter().position(|r| r.is_match(&pre_key)) {
                    pre_key = format!("known-finding#{}", ix);
                    known_classes.insert(pre_key.clone());
                }
                let seen = sig_counts.entry(pre_key).or_insert(0u32);
                *seen += 1;
                if *seen > 2 {
                    // enough witnesses of this class from this worker; keep exploring
                    cov.hit("violation_candidates_not_recorded_(class_already_has_2)");
                    index += args.nshards;
                    continue;
                }
                let base = narrowed.unwrap_or_else(|| case.clone());
                // shrinking may be slow: no watchdog while shrinking (bounded by its own timer)
                // no shrinking for failures that already match an open known finding
                let pre = guarded(|| mon.classify(&base, &signature)).unwrap_or_else(|_| signature.clone());
                let is_known = known_res.iter().any(|r| r.is_match(&pre));
                let (shrunk, sdetail, steps) = if is_known { (base.clone(), String::new(), 0) } else { shrink_case(mon, &base, &signature, Duration::from_secs(8)) };
                let fine = guarded(|| mon.classify(&shrunk, &signature)).unwrap_or_else(|_| signature.clone());
                let rec = json!({
                    "index": index, "signature": fine, "coarse_signature": signature,
                    "detail": if sdetail.is_empty() { detail.clone() } else { sdetail },
                    "original_detail": detail,
                    "case": base, "shrunk": shrunk, "shrink_steps": steps, "kind": "verdict",
                });
                if let Ok(mut f) = std::fs::OpenOptions::new().create(true).append(true).open(&viol_path) {
                    let _ = writeln!(f, "{}", serde_json::to_string(&rec).unwrap());
                }
                if sig_counts.len() - known_classes.len() >= 200 {
                    cov.hit("stopped_after_200_distinct_violation_classes");
                    break;
                }
            }
        }
        if last_flush.elapsed() > Duration::from_secs(3) {
            flush(&cov, &discards, cases_run, held, false, index + args.nshards);
            last_flush = Instant::now();
        }
        index += args.nshards;
    }
    flush(&cov, &discards, cases_run, held, true, index);
    done.store(true, Ordering::SeqCst);
    0
}

// ---------------------------------------------------------------------------------------------
// replay of one case in this process (used by `replay`, and by the driver for confirmation)

pub fn replay_case(mon: &mut dyn Monitor, case: &Case) -> Value {
    install_panic_hook();
    if let Some(seq) = case.get("__sequence") {
        // a failure that needs the cases the same worker ran before it (state carried from one run to the next inside a
        // process): the generated cases of the given indices are run one after the other, the last one is judged
        let tier = seq["tier"].as_str().and_then(Tier::parse).unwrap_or(Tier::Quick);
        let seed = seq["seed"].as_u64().unwrap_or(1);
        let indices: Vec<u64> = seq["indices"].as_array().map(|a| a.iter().filter_map(|x| x.as_u64()).collect()).unwrap_or_default();
        let mut cov = Cov::new();
        let mut last = json!({"verdict": "held"});
        for (k, idx) in indices.iter().enumerate() {
            let Some(c) = mon.gen(tier, seed, *idx) else { continue };
            let v = run_case_guarded(mon, &c, &mut cov);
            if k + 1 == indices.len() {
                last = match v {
                    Verdict::Held => json!({"verdict": "held"}),
                    Verdict::Discard(r) => json!({"verdict": "discard", "reason": r}),
                    Verdict::Violated { signature, detail, narrowed } => {
                        let base = narrowed.clone().unwrap_or_else(|| c.clone());
                        let fine = guarded(|| mon.classify(&base, &signature)).unwrap_or_else(|_| signature.clone());
                        json!({"verdict": "violated", "signature": format!("{}@after-earlier-cases", fine), "detail": format!("(reproduces only after the generated cases {:?} have run in the same process: state is carried from one run to the next)\n{}", &indices[..indices.len() - 1], detail)})
                    }
                };
            }
        }
        return last;
    }
    let mut cov = Cov::new();
    let v = run_case_guarded(mon, case, &mut cov);
    match v {
        Verdict::Held => json!({"verdict": "held"}),
        Verdict::Discard(r) => json!({"verdict": "discard", "reason": r}),
        Verdict::Violated { signature, detail, narrowed } => {
            // a case that bundles several evaluations names the failing one: classify that
            let base = narrowed.clone().unwrap_or_else(|| case.clone());
            let fine = guarded(|| mon.classify(&base, &signature)).unwrap_or_else(|_| signature.clone());
            json!({"verdict": "violated", "signature": fine, "detail": detail, "narrowed": narrowed})
        }
    }
}

// ---------------------------------------------------------------------------------------------
// driver

pub struct DriveArgs {
    pub tier: Tier,
    pub seed: u64,
    pub jobs: u64,
    pub budget_s: Option<f64>,
    pub verif_dir: PathBuf,
}

#[derive(Debug)]
struct Candidate {
    signature: String,
    detail: String,
    case: Case,
    shrunk: Case,
    index: u64,
    kind: String,
}

fn self_exe() -> PathBuf {
    std::env::current_exe().expect("current_exe")
}

/// run `dlverif replay-case <id> <file>` in a subprocess with a wall-clock limit.
/// returns (status, json) where status in {"ok","timeout","died:<sig/code>"}
pub fn replay_in_subprocess(id: &str, case: &Case, dir: &Path, wall_limit_s: f64) -> (String, Value) {
    let file = dir.join(format!("confirm-{}.json", hash64(serde_json::to_string(case).unwrap().as_bytes())));
    let _ = std::fs::write(&file, serde_json::to_vec(case).unwrap());
    let mut child = match Command::new(self_exe())
        .arg("replay-case")
        .arg(id)
        .arg(&file)
        .arg("--verif-dir")
        .arg(std::env::var("DLVERIF_VERIF_DIR").unwrap_or_else(|_| "/verif".into()))
        .stdin(Stdio::null())
        .stdout(Stdio::piped())
        .stderr(Stdio::null())
        .spawn()
    {
        Ok(c) => c,
        Err(e) => return (format!("spawn-failed:{}", e), Value::Null),
    };
    let t0 = Instant::now();
    loop {
        match child.try_wait() {
            Ok(Some(status)) => {
                let mut out = String::new();
                if let Some(mut so) = child.stdout.take() {
                    use std::io::Read;
                    let _ = so.read_to_string(&mut out);
                }
                let _ = std::fs::remove_file(&file);
                if status.success() || status.code() == Some(1) {
                    let v: Value = out.lines().rev().find_map(|l| serde_json::from_str(l).ok()).unwrap_or(Value::Null);
                    return ("ok".to_string(), v);
                }
                use std::os::unix::process::ExitStatusExt;
                let how = match (status.code(), status.signal()) {
                    (Some(3), _) => "timeout".to_string(),
                    (Some(c), _) => format!("died:exit{}", c),
                    (None, Some(s)) => format!("died:signal{}", s),
                    _ => "died:unknown".to_string(),
                };
                return (how, Value::Null);
            }
            Ok(None) => {
                if t0.elapsed().as_secs_f64() > wall_limit_s {
                    let _ = child.kill();
                    let _ = child.wait();
                    let _ = std::fs::remove_file(&file);
                    return ("timeout".to_string(), Value::Null);
                }
                std::thread::sleep(Duration::from_millis(20));
            }
            Err(e) => return (format!("wait-failed:{}", e), Value::Null),
        }
    }
}

#[derive(serde::Deserialize, Debug, Clone)]
pub struct KnownFinding {
    pub property: String,
    pub key: String,
    pub status: String, // open | fixed
    /// anchored regular expression over the fine signature of a failing case
    pub signature: String,
    #[serde(default)]
    pub witness: Option<String>,
    pub what: String,
    #[serde(default)]
    pub commit: Option<String>,
}

impl KnownFinding {
    pub fn matches(&self, sig: &str) -> bool {
        match regex::Regex::new(&format!("^(?:{})$", self.signature)) {
            Ok(r) => r.is_match(sig),
            Err(_) => self.signature == sig,
        }
    }
}

pub fn open_known_signatures(verif_dir: &Path, id: &str) -> Vec<String> {
    load_known(verif_dir).into_iter().filter(|k| k.property == id && k.status == "open").map(|k| format!("^(?:{})$", k.signature)).collect()
}

pub fn load_known(verif_dir: &Path) -> Vec<KnownFinding> {
    let p = verif_dir.join("known_findings.json");
    match std::fs::read_to_string(&p) {
        Ok(s) => serde_json::from_str::<Vec<KnownFinding>>(&s).unwrap_or_else(|e| {
            eprintln!("known_findings.json does not parse: {}", e);
            std::process::exit(2);
        }),
        Err(_) => vec![],
    }
}

pub fn drive(id: &str, make: &dyn Fn() -> Box<dyn Monitor>, args: DriveArgs) -> i32 {
    let t0 = Instant::now();
    std::env::set_var("DLVERIF_VERIF_DIR", &args.verif_dir);
    let mut mon = make();
    let plan = mon.plan(args.tier);
    let budget = args.budget_s.unwrap_or(plan.budget_s);
    let tmp_root = std::env::var("TMPDIR").unwrap_or_else(|_| "/tmp".to_string());
    let dir = PathBuf::from(tmp_root).join(format!("dlverif-{}-{}", id, std::process::id()));
    let _ = std::fs::remove_dir_all(&dir);
    std::fs::create_dir_all(&dir).expect("create run dir");
    let known: Vec<KnownFinding> = load_known(&args.verif_dir).into_iter().filter(|k| k.property == id).collect();

    let mut out_lines: Vec<String> = vec![];
    let mut known_seen: BTreeSet<String> = BTreeSet::new();
    let mut violations: Vec<(Candidate, String)> = vec![]; // (candidate, confirm status)
    let mut notes: Vec<String> = vec![];

    // 1. replay stored witnesses of known findings (open: produce KNOWN-FINDING; fixed: must hold)
    let mut witness_replays = 0u64;
    for k in &known {
        if let Some(w) = &k.witness {
            let wp = args.verif_dir.join(w);
            let Ok(text) = std::fs::read_to_string(&wp) else {
                notes.push(format!("witness {} missing", w));
                continue;
            };
            let Ok(v) = serde_json::from_str::<Value>(&text) else {
                notes.push(format!("witness {} unparsable", w));
                continue;
            };
            let case = v.get("shrunk").cloned().or_else(|| v.get("case").cloned()).unwrap_or(v.clone());
            witness_replays += 1;
            let (status, res) = replay_in_subprocess(id, &case, &dir, mon.case_cpu_limit_s() * 4.0 + 30.0);
            let (violated, sig, detail) = classify_replay(&status, &res, mon.death_is_violation());
            if violated {
                if k.status == "open" && k.matches(&sig) {
                    known_seen.insert(k.key.clone());
                } else {
                    // a fixed finding came back, or the witness now fails differently
                    violations.push((
                        Candidate { signature: sig, detail: format!("stored witness {} of finding '{}' ({}) fails: {}", w, k.key, k.status, detail), case: case.clone(), shrunk: case, index: u64::MAX, kind: "witness".into() },
                        status,
                    ));
                }
            } else if k.status == "open" {
                notes.push(format!("open finding '{}' no longer reproduces on its stored witness", k.key));
            }
        }
    }

    // 2. workers
    let jobs = args.jobs.max(1);
    let mut children: Vec<(u64, u64, std::process::Child)> = vec![]; // shard, start, child
    let spawn = |shard: u64, start: u64, budget_s: f64| -> std::process::Child {
        Command::new(self_exe())
            .arg("work")
            .arg(id)
            .arg("--tier")
            .arg(args.tier.name())
            .arg("--seed")
            .arg(args.seed.to_string())
            .arg("--shard")
            .arg(shard.to_string())
            .arg("--nshards")
            .arg(jobs.to_string())
            .arg("--start")
            .arg(start.to_string())
            .arg("--budget")
            .arg(format!("{}", budget_s))
            .arg("--dir")
            .arg(&dir)
            .arg("--verif-dir")
            .arg(&args.verif_dir)
            .stdin(Stdio::null())
            .stdout(Stdio::null())
            .stderr(Stdio::piped())
            .spawn()
            .expect("spawn worker")
    };
    for shard in 0..jobs {
        children.push((shard, 0, spawn(shard, 0, budget)));
    }
    let mut candidates: Vec<Candidate> = vec![];
    let mut restarts = 0u64;
    let mut broken: Vec<String> = vec![];
    let mut deaths = 0u64;
    while let Some((shard, start, mut child)) = children.pop() {
        let status = child.wait().expect("wait worker");
        let mut errtxt = String::new();
        if let Some(mut se) = child.stderr.take() {
            use std::io::Read;
            let _ = se.read_to_string(&mut errtxt);
        }
        if status.success() {
            continue;
        }
        if status.code() == Some(2) {
            let msg = std::fs::read_to_string(dir.join(format!("s{}.broken", shard))).unwrap_or_default();
            broken.push(format!("shard {}: {}", shard, msg));
            continue;
        }
        // abnormal: timeout (3) or death
        use std::os::unix::process::ExitStatusExt;
        let how = match (status.code(), status.signal()) {
            (Some(3), _) => "timeout".to_string(),
            (Some(c), _) => format!("exit{}", c),
            (None, Some(s)) => format!("signal{}", s),
            _ => "unknown".to_string(),
        };
        deaths += 1;
        let jr = std::fs::read_to_string(dir.join(format!("s{}.journal", shard))).ok().and_then(|s| serde_json::from_str::<Value>(&s).ok());
        let mut next = start;
        if let Some(j) = jr {
            let idx = j["index"].as_u64().unwrap_or(0);
            next = idx + jobs;
            let tail: String = errtxt.lines().rev().take(6).collect::<Vec<_>>().into_iter().rev().collect::<Vec<_>>().join(" | ");
            let sigclass = if how == "timeout" { "hang".to_string() } else { format!("death:{}", abort_class(&errtxt, &how)) };
            candidates.push(Candidate { signature: sigclass, detail: format!("worker {} while running case {}: {}", how, idx, tail), case: j["case"].clone(), shrunk: j["case"].clone(), index: idx, kind: how.clone() });
        } else {
            broken.push(format!("shard {} died ({}) without a journal: {}", shard, how, errtxt.chars().take(400).collect::<String>()));
            continue;
        }
        if restarts < 40 {
            restarts += 1;
            // remaining budget
            let remaining = (budget - t0.elapsed().as_secs_f64()).max(5.0);
            children.push((shard, next, spawn(shard, next, remaining)));
        } else {
            notes.push("restart limit reached".to_string());
        }
    }

    // 3. merge reports
    let mut counters: BTreeMap<String, u64> = BTreeMap::new();
    let mut discards: BTreeMap<String, u64> = BTreeMap::new();
    let mut distinct: HashSet<u64> = HashSet::new();
    let mut samples: Vec<Value> = vec![];
    let mut evaluations = 0u64;
    let mut cases = 0u64;
    let mut held = 0u64;
    let mut unfinished = 0u64;
    if let Ok(rd) = std::fs::read_dir(&dir) {
        let mut entries: Vec<PathBuf> = rd.filter_map(|e| e.ok().map(|e| e.path())).collect();
        entries.sort();
        for p in entries {
            let name = p.file_name().unwrap().to_string_lossy().to_string();
            if name.ends_with(".report.json") {
                if let Ok(v) = serde_json::from_str::<Value>(&std::fs::read_to_string(&p).unwrap_or_default()) {
                    cases += v["cases"].as_u64().unwrap_or(0);
                    held += v["held"].as_u64().unwrap_or(0);
                    evaluations += v["evaluations"].as_u64().unwrap_or(0);
                    if v["finished"].as_bool() != Some(true) {
                        unfinished += 1;
                    }
                    if let Some(o) = v["counters"].as_object() {
                        for (k, n) in o {
                            *counters.entry(k.clone()).or_insert(0) += n.as_u64().unwrap_or(0);
                        }
                    }
                    if let Some(o) = v["discards"].as_object() {
                        for (k, n) in o {
                            *discards.entry(k.clone()).or_insert(0) += n.as_u64().unwrap_or(0);
                        }
                    }
                    if let Some(a) = v["samples"].as_array() {
                        for s in a {
                            if samples.len() < 6 {
                                samples.push(truncate_value(s, 1500));
                            }
                        }
                    }
                }
            } else if name.ends_with(".hashes") {
                if let Ok(b) = std::fs::read(&p) {
                    for ch in b.chunks_exact(8) {
                        distinct.insert(u64::from_le_bytes(ch.try_into().unwrap()));
                    }
                }
            } else if name.ends_with(".viol.jsonl") {
                if let Ok(s) = std::fs::read_to_string(&p) {
                    for l in s.lines() {
                        if let Ok(v) = serde_json::from_str::<Value>(l) {
                            candidates.push(Candidate {
                                signature: v["signature"].as_str().unwrap_or("").to_string(),
                                detail: v["detail"].as_str().unwrap_or("").to_string(),
                                case: v["case"].clone(),
                                shrunk: v["shrunk"].clone(),
                                index: v["index"].as_u64().unwrap_or(0),
                                kind: "verdict".into(),
                            });
                        }
                    }
                }
            }
        }
    }

    // 4. dedupe candidates by signature (keep the smallest shrunk case), confirm in fresh processes
    candidates.sort_by_key(|c| (c.signature.clone(), serde_json::to_string(&c.shrunk).map(|s| s.len()).unwrap_or(0)));
    let total_candidates = candidates.len();
    let mut by_sig: BTreeMap<String, Candidate> = BTreeMap::new();
    let mut per_sig_count: BTreeMap<String, u64> = BTreeMap::new();
    for c in candidates {
        *per_sig_count.entry(c.signature.clone()).or_insert(0) += 1;
        by_sig.entry(c.signature.clone()).or_insert(c);
    }
    let mut unconfirmed = 0u64;
    for (_sig, c) in by_sig {
        // candidates already explained by an open known finding need no confirmation run
        if let Some(k) = known.iter().find(|k| k.status == "open" && k.matches(&c.signature)) {
            known_seen.insert(k.key.clone());
            continue;
        }
        let limit = mon.case_cpu_limit_s() * 3.0 + 30.0;
        let (status, res) = replay_in_subprocess(id, &c.shrunk, &dir, limit);
        let (violated, sig2, detail2) = classify_replay(&status, &res, mon.death_is_violation());
        if !violated && c.index != u64::MAX && status == "ok" {
            // does it reproduce after the cases the same worker ran before it?
            let jobs = args.jobs.max(1);
            let mut idxs: Vec<u64> = vec![];
            let mut j = c.index;
            for _ in 0..12 {
                if j >= jobs {
                    j -= jobs;
                    idxs.push(j);
                } else {
                    break;
                }
            }
            idxs.reverse();
            idxs.push(c.index);
            let seq_case = json!({"__sequence": {"tier": args.tier.name(), "seed": args.seed, "indices": idxs}});
            let (status2, res2) = replay_in_subprocess(id, &seq_case, &dir, limit * 4.0);
            let (violated2, sig2, detail2) = classify_replay(&status2, &res2, false);
            if violated2 {
                if let Some(k) = known.iter().find(|k| k.status == "open" && k.matches(&sig2)) {
                    known_seen.insert(k.key.clone());
                    continue;
                }
                let mut c = c;
                c.detail = detail2;
                c.signature = sig2;
                c.shrunk = seq_case.clone();
                c.case = seq_case;
                violations.push((c, status2));
                continue;
            }
        }
        if !violated {
            unconfirmed += 1;
            notes.push(format!("candidate '{}' at index {} not reproduced in a fresh process ({}): inconclusive", c.signature, c.index, status));
            continue;
        }
        // known finding?
        if let Some(k) = known.iter().find(|k| k.status == "open" && k.matches(&sig2)) {
            known_seen.insert(k.key.clone());
            continue;
        }
        let mut c = c;
        if !detail2.is_empty() {
            c.detail = detail2;
        }
        if res["narrowed"].is_object() {
            c.shrunk = res["narrowed"].clone();
        }
        c.signature = sig2;
        violations.push((c, status));
    }

    // 5. output
    for k in &known {
        if known_seen.contains(&k.key) {
            out_lines.push(format!("KNOWN-FINDING: property={} {} [{}]", id, k.what, k.key));
        }
    }
    let replay_dir = args.verif_dir.join("replays").join(id);
    let mut viol_written = 0usize;
    for (c, status) in &violations {
        if viol_written >= std::env::var("DLVERIF_MAX_VIOL").ok().and_then(|v| v.parse().ok()).unwrap_or(10usize) {
            break;
        }
        let _ = std::fs::create_dir_all(&replay_dir);
        let h = hash64(serde_json::to_string(&c.shrunk).unwrap().as_bytes());
        let path = replay_dir.join(format!("{:016x}.json", h));
        let rec = json!({
            "property": id, "tier": args.tier.name(), "seed": args.seed, "index": c.index,
            "signature": c.signature, "detail": c.detail, "kind": c.kind, "confirm_status": status,
            "case": c.case, "shrunk": c.shrunk,
        });
        let _ = std::fs::write(&path, serde_json::to_string_pretty(&rec).unwrap());
        out_lines.push(format!("VIOLATION property={} replay={}", id, path.display()));
        out_lines.push(format!("  signature: {}", c.signature));
        let d: String = c.detail.chars().take(1200).collect();
        out_lines.push(format!("  detail: {}", d.replace('\n', "\n    ")));
        viol_written += 1;
    }

    // floors
    let mut floor_failures: Vec<String> = vec![];
    counters.insert("cases".into(), cases);
    counters.insert("held".into(), held);
    for (k, min) in mon.floors(args.tier) {
        let have = if k == "evaluations" {
            evaluations
        } else if k == "distinct_nontrivial" {
            distinct.len() as u64
        } else if let Some(prefix) = k.strip_prefix("distinct_prefix:") {
            counters.keys().filter(|c| c.starts_with(prefix)).count() as u64
        } else {
            *counters.get(&k).unwrap_or(&0)
        };
        if have < min {
            floor_failures.push(format!("{}: {} < floor {}", k, have, min));
        }
    }

    let wall = t0.elapsed().as_secs_f64();
    let mut coverage = Map::new();
    coverage.insert("evaluations".into(), json!(evaluations));
    coverage.insert("distinct_nontrivial".into(), json!(distinct.len()));
    coverage.insert("rule".into(), json!(mon.rule_text()));
    coverage.insert("samples".into(), Value::Array(samples));
    coverage.insert("cases".into(), json!(cases));
    coverage.insert("held".into(), json!(held));
    coverage.insert("discarded_by_reason".into(), json!(discards));
    coverage.insert("counters".into(), json!(counters));
    coverage.insert("deterministic_cases".into(), json!(plan.deterministic));
    coverage.insert("workers".into(), json!(jobs));
    coverage.insert("worker_deaths".into(), json!(deaths));
    coverage.insert("candidates".into(), json!(total_candidates));
    coverage.insert("candidates_by_signature".into(), json!(per_sig_count));
    coverage.insert("unconfirmed_candidates".into(), json!(unconfirmed));
    coverage.insert("known_findings_seen".into(), json!(known_seen.iter().collect::<Vec<_>>()));
    coverage.insert("known_witness_replays".into(), json!(witness_replays));
    coverage.insert("notes".into(), json!(notes));
    if let Some(n) = mon.exhaustive_note(args.tier) {
        coverage.insert("exhaustive_subspaces".into(), json!(n));
    }
    if unfinished > 0 {
        coverage.insert("unfinished_worker_reports".into(), json!(unfinished));
    }
    let evidence = json!({
        "property_id": id, "tier": args.tier.name(), "seed": args.seed, "level": "exploration",
        "coverage": Value::Object(coverage), "assumptions": mon.assumptions(), "wall_s": wall,
        "violations": violations.len(),
    });
    let ev_dir = args.verif_dir.join("evidence");
    let _ = std::fs::create_dir_all(&ev_dir);
    let _ = std::fs::write(ev_dir.join(format!("{}.json", id)), serde_json::to_string_pretty(&evidence).unwrap());
    let _ = std::fs::remove_dir_all(&dir);

    for l in &out_lines {
        println!("{}", l);
    }
    println!(
        "{} {} seed={} cases={} evaluations={} distinct_nontrivial={} held={} discarded={} violations={} known={} wall={:.1}s",
        id, args.tier.name(), args.seed, cases, evaluations, distinct.len(), held, discards.values().sum::<u64>(), violations.len(), known_seen.len(), wall
    );
    if !violations.is_empty() {
        return 1;
    }
    if !broken.is_empty() {
        for b in &broken {
            println!("BROKEN: {}", b);
        }
        return 2;
    }
    if !floor_failures.is_empty() {
        for f in &floor_failures {
            println!("INCONCLUSIVE: coverage floor not met: {}", f);
        }
        return 2;
    }
    if unconfirmed >= 3 {
        println!("INCONCLUSIVE: {} failures seen by the workers reproduced neither alone nor after their predecessor cases in a fresh process", unconfirmed);
        for n in notes.iter().take(5) {
            println!("  {}", n);
        }
        return 2;
    }
    0
}

fn abort_class(stderr: &str, how: &str) -> String {
    if stderr.contains("has overflowed its stack") || stderr.contains("stack overflow") {
        "stack-overflow".to_string()
    } else if stderr.contains("memory allocation of") {
        "alloc-failure".to_string()
    } else {
        how.to_string()
    }
}

fn classify_replay(status: &str, res: &Value, death_is_violation: bool) -> (bool, String, String) {
    if status == "ok" {
        if res["verdict"] == "violated" {
            return (true, res["signature"].as_str().unwrap_or("").to_string(), res["detail"].as_str().unwrap_or("").to_string());
        }
        return (false, String::new(), String::new());
    }
    if status == "timeout" {
        return (death_is_violation, "hang".to_string(), "case exceeded 3x the CPU/wall budget when run alone in a fresh process".to_string());
    }
    if let Some(how) = status.strip_prefix("died:") {
        return (death_is_violation, format!("death:{}", how), format!("process died ({}) when the case was run alone", how));
    }
    (false, String::new(), String::new())
}

/// helper for monitors: derive a per-case RNG
pub fn case_rng(id: &str, seed: u64, index: u64) -> Rng {
    Rng::derive(seed, id, index)
}
