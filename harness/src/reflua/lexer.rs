//! Independent lexer for Lua 5.1 + Luau, written from the reference manuals.  Shares no code
//! with darklua or full_moon.  Keeps byte ranges, lines and leading trivia of every token.

#[derive(Clone, Debug, PartialEq, Eq)]
pub enum Tk {
    Name,
    Keyword,
    Number,
    /// short or long string literal (whole literal text incl. quotes / brackets)
    Str,
    /// `...` without holes
    InterpSimple,
    /// `...{
    InterpBegin,
    /// }...{
    InterpMid,
    /// }...`
    InterpEnd,
    Sym,
    Eof,
}

#[derive(Clone, Debug, PartialEq, Eq)]
pub enum TriviaKind {
    Whitespace,
    LineComment,
    LongComment,
    Shebang,
}

#[derive(Clone, Debug)]
pub struct Trivia {
    pub kind: TriviaKind,
    pub start: usize,
    pub end: usize,
}

#[derive(Clone, Debug)]
pub struct Token {
    pub kind: Tk,
    pub start: usize,
    pub end: usize,
    /// 1-based line of the first byte of the token
    pub line: u32,
    /// trivia before the token
    pub leading: Vec<Trivia>,
}

#[derive(Clone, Debug)]
pub struct LexError {
    pub pos: usize,
    pub msg: String,
}

pub const KEYWORDS: [&str; 21] = [
    "and", "break", "do", "else", "elseif", "end", "false", "for", "function", "if", "in", "local", "nil", "not", "or", "repeat", "return", "then", "true", "until", "while",
];

pub fn is_keyword(s: &str) -> bool {
    KEYWORDS.contains(&s)
}

pub struct Lexed<'a> {
    pub src: &'a str,
    pub tokens: Vec<Token>,
}

impl<'a> Lexed<'a> {
    pub fn text(&self, t: &Token) -> &'a str {
        &self.src[t.start..t.end]
    }
    pub fn trivia_text(&self, t: &Trivia) -> &'a str {
        &self.src[t.start..t.end]
    }
    /// code tokens as strings (no trivia, no Eof)
    pub fn code_tokens(&self) -> Vec<&'a str> {
        self.tokens.iter().filter(|t| t.kind != Tk::Eof).map(|t| self.text(t)).collect()
    }
    /// all comments in order of appearance
    pub fn comments(&self) -> Vec<&'a str> {
        let mut v = vec![];
        for t in &self.tokens {
            for tr in &t.leading {
                if matches!(tr.kind, TriviaKind::LineComment | TriviaKind::LongComment) {
                    v.push(self.trivia_text(tr));
                }
            }
        }
        v
    }
}

struct Lx<'a> {
    s: &'a [u8],
    src: &'a str,
    pos: usize,
    line: u32,
    luau: bool,
    /// for each active interpolated string: number of open `{` inside the current hole
    interp: Vec<u32>,
}

fn is_alpha(c: u8) -> bool {
    c.is_ascii_alphabetic() || c == b'_'
}
fn is_alnum(c: u8) -> bool {
    c.is_ascii_alphanumeric() || c == b'_'
}
fn is_space(c: u8) -> bool {
    c == b' ' || c == b'\t' || c == b'\n' || c == b'\r' || c == 0x0b || c == 0x0c
}

impl<'a> Lx<'a> {
    fn peek(&self) -> u8 {
        *self.s.get(self.pos).unwrap_or(&0)
    }
    fn peek_at(&self, o: usize) -> u8 {
        *self.s.get(self.pos + o).unwrap_or(&0)
    }
    fn eof(&self) -> bool {
        self.pos >= self.s.len()
    }
    fn err<T>(&self, pos: usize, msg: &str) -> Result<T, LexError> {
        Err(LexError { pos, msg: msg.to_string() })
    }
    fn bump(&mut self) {
        self.pos += 1;
    }

    /// if at `[=*[` returns the level
    fn long_bracket_level(&self, at: usize) -> Option<usize> {
        if self.s.get(at) != Some(&b'[') {
            return None;
        }
        let mut i = at + 1;
        let mut level = 0;
        while self.s.get(i) == Some(&b'=') {
            level += 1;
            i += 1;
        }
        if self.s.get(i) == Some(&b'[') {
            Some(level)
        } else {
            None
        }
    }

    /// consumes a long bracket body starting at `[=*[`; pos ends after the closing bracket
    fn read_long(&mut self, level: usize, what: &str) -> Result<(), LexError> {
        let start = self.pos;
        self.pos += level + 2;
        loop {
            if self.eof() {
                return self.err(start, &format!("unfinished long {}", what));
            }
            if self.peek() == b']' {
                let mut i = self.pos + 1;
                let mut l = 0;
                while self.s.get(i) == Some(&b'=') {
                    l += 1;
                    i += 1;
                }
                if l == level && self.s.get(i) == Some(&b']') {
                    self.pos = i + 1;
                    return Ok(());
                }
                self.pos += 1;
            } else {
                self.bump();
            }
        }
    }

    fn trivia(&mut self, out: &mut Vec<Trivia>) -> Result<(), LexError> {
        loop {
            let c = self.peek();
            if self.eof() {
                return Ok(());
            }
            if is_space(c) {
                let st = self.pos;
                while !self.eof() && is_space(self.peek()) {
                    self.bump();
                }
                out.push(Trivia { kind: TriviaKind::Whitespace, start: st, end: self.pos });
            } else if c == b'-' && self.peek_at(1) == b'-' {
                let st = self.pos;
                if let Some(level) = self.long_bracket_level(self.pos + 2) {
                    self.pos += 2;
                    self.read_long(level, "comment")?;
                    out.push(Trivia { kind: TriviaKind::LongComment, start: st, end: self.pos });
                } else {
                    // a line comment ends at LF or CR (both Lua 5.1 and Luau stop at '\r')
                    while !self.eof() && self.peek() != b'\n' && self.peek() != b'\r' {
                        self.pos += 1;
                    }
                    out.push(Trivia { kind: TriviaKind::LineComment, start: st, end: self.pos });
                }
            } else {
                return Ok(());
            }
        }
    }

    fn read_short_string(&mut self) -> Result<(), LexError> {
        let start = self.pos;
        let q = self.peek();
        self.pos += 1;
        loop {
            if self.eof() {
                return self.err(start, "unfinished string");
            }
            let c = self.peek();
            if c == q {
                self.pos += 1;
                return Ok(());
            }
            match c {
                b'\n' | b'\r' => return self.err(start, "unfinished string (newline)"),
                b'\\' => {
                    self.pos += 1;
                    if self.eof() {
                        return self.err(start, "unfinished string");
                    }
                    let e = self.peek();
                    if e == b'\r' {
                        self.pos += 1;
                        if self.peek() == b'\n' {
                            self.bump();
                        }
                    } else if e == b'z' && self.luau {
                        self.pos += 1;
                        while !self.eof() && is_space(self.peek()) {
                            self.bump();
                        }
                    } else {
                        self.bump();
                    }
                }
                _ => self.pos += 1,
            }
        }
    }

    /// reads the body of an interpolated string from the current position (after ` or })
    /// returns true when it stopped at `{` (a hole begins), false when it found the closing backtick
    fn read_interp_body(&mut self, start: usize) -> Result<bool, LexError> {
        loop {
            if self.eof() {
                return self.err(start, "unfinished interpolated string");
            }
            let c = self.peek();
            match c {
                b'`' => {
                    self.pos += 1;
                    return Ok(false);
                }
                b'{' => {
                    if self.peek_at(1) == b'{' {
                        return self.err(self.pos, "double braces are not permitted within interpolated strings");
                    }
                    self.pos += 1;
                    return Ok(true);
                }
                b'\n' | b'\r' => return self.err(start, "unfinished interpolated string (newline)"),
                b'\\' => {
                    self.pos += 1;
                    if self.eof() {
                        return self.err(start, "unfinished interpolated string");
                    }
                    let e = self.peek();
                    if e == b'\r' {
                        self.pos += 1;
                        if self.peek() == b'\n' {
                            self.bump();
                        }
                    } else if e == b'z' {
                        self.pos += 1;
                        while !self.eof() && is_space(self.peek()) {
                            self.bump();
                        }
                    } else if e == b'u' && self.peek_at(1) == b'{' {
                        // \u{XXXX}: the brace belongs to the escape
                        self.pos += 2;
                        while !self.eof() && self.peek() != b'}' && self.peek() != b'`' && self.peek() != b'\n' {
                            self.pos += 1;
                        }
                        if self.peek() == b'}' {
                            self.pos += 1;
                        }
                    } else {
                        self.bump();
                    }
                }
                _ => self.pos += 1,
            }
        }
    }

    fn read_number(&mut self) -> Result<(), LexError> {
        let start = self.pos;
        if self.luau {
            // Luau's readNumber
            loop {
                self.pos += 1;
                let c = self.peek();
                if !(c.is_ascii_digit() || c == b'.' || c == b'_') {
                    break;
                }
            }
            if self.peek() == b'e' || self.peek() == b'E' {
                self.pos += 1;
                if self.peek() == b'+' || self.peek() == b'-' {
                    self.pos += 1;
                }
            }
            while is_alnum(self.peek()) {
                self.pos += 1;
            }
        } else {
            // Lua 5.1 read_numeral
            while self.peek().is_ascii_digit() || self.peek() == b'.' {
                self.pos += 1;
            }
            if self.peek() == b'e' || self.peek() == b'E' {
                self.pos += 1;
                if self.peek() == b'+' || self.peek() == b'-' {
                    self.pos += 1;
                }
            }
            while is_alnum(self.peek()) {
                self.pos += 1;
            }
        }
        let text = &self.src[start..self.pos];
        if !valid_number(text, self.luau) {
            return self.err(start, &format!("malformed number '{}'", text));
        }
        Ok(())
    }

    fn next(&mut self) -> Result<Token, LexError> {
        let mut leading = vec![];
        let p0 = self.pos;
        self.trivia(&mut leading)?;
        let start = self.pos;
        for b in &self.s[p0..start] {
            if *b == b'\n' {
                self.line += 1;
            }
        }
        let line = self.line;
        if self.eof() {
            return Ok(Token { kind: Tk::Eof, start, end: start, line, leading });
        }
        let c = self.peek();
        let kind;
        if is_alpha(c) {
            while is_alnum(self.peek()) {
                self.pos += 1;
            }
            kind = if is_keyword(&self.src[start..self.pos]) { Tk::Keyword } else { Tk::Name };
        } else if c.is_ascii_digit() || (c == b'.' && self.peek_at(1).is_ascii_digit()) {
            self.read_number()?;
            kind = Tk::Number;
        } else if c == b'"' || c == b'\'' {
            self.read_short_string()?;
            kind = Tk::Str;
        } else if c == b'`' && self.luau {
            self.pos += 1;
            if self.read_interp_body(start)? {
                self.interp.push(0);
                kind = Tk::InterpBegin;
            } else {
                kind = Tk::InterpSimple;
            }
        } else if c == b'[' && self.long_bracket_level(self.pos).is_some() {
            let level = self.long_bracket_level(self.pos).unwrap();
            self.read_long(level, "string")?;
            kind = Tk::Str;
        } else if c == b'}' && self.interp.last() == Some(&0) {
            self.pos += 1;
            if self.read_interp_body(start)? {
                kind = Tk::InterpMid;
            } else {
                self.interp.pop();
                kind = Tk::InterpEnd;
            }
        } else {
            // symbols, longest match
            let three = &self.s[self.pos..(self.pos + 3).min(self.s.len())];
            let two = &self.s[self.pos..(self.pos + 2).min(self.s.len())];
            let luau = self.luau;
            let len = if three == b"..." || (luau && (three == b"..=" || three == b"//=")) {
                3
            } else if two == b"==" || two == b"~=" || two == b"<=" || two == b">=" || two == b".." {
                2
            } else if luau && (two == b"::" || two == b"+=" || two == b"-=" || two == b"*=" || two == b"/=" || two == b"%=" || two == b"^=" || two == b"->" || two == b"//") {
                2
            } else {
                let ok = b"+-*/%^#<>=(){}[];:,.".contains(&c) || (luau && b"?|&@".contains(&c));
                if !ok {
                    return self.err(start, &format!("unexpected character {:?}", c as char));
                }
                1
            };
            self.pos += len;
            if len == 1 {
                if c == b'{' {
                    if let Some(top) = self.interp.last_mut() {
                        *top += 1;
                    }
                } else if c == b'}' {
                    if let Some(top) = self.interp.last_mut() {
                        if *top > 0 {
                            *top -= 1;
                        }
                    }
                }
            }
            kind = Tk::Sym;
        }
        // count newlines inside the token (long strings)
        for b in &self.s[start..self.pos] {
            if *b == b'\n' {
                self.line += 1;
            }
        }
        Ok(Token { kind, start, end: self.pos, line, leading })
    }
}

/// validity of a number literal text (after maximal munch)
pub fn valid_number(text: &str, luau: bool) -> bool {
    let b = text.as_bytes();
    if b.is_empty() {
        return false;
    }
    if luau {
        let t: Vec<u8> = b.iter().copied().filter(|c| *c != b'_').collect();
        if t.len() >= 2 && t[0] == b'0' && (t[1] == b'x' || t[1] == b'X') {
            // Luau: hex integer only; underscores allowed after the prefix
            if b.len() >= 2 && !(b[1] == b'x' || b[1] == b'X') {
                return false; // "0_x1"
            }
            return t.len() > 2 && t[2..].iter().all(|c| c.is_ascii_hexdigit());
        }
        if t.len() >= 2 && t[0] == b'0' && (t[1] == b'b' || t[1] == b'B') {
            if b.len() >= 2 && !(b[1] == b'b' || b[1] == b'B') {
                return false;
            }
            return t.len() > 2 && t[2..].iter().all(|c| *c == b'0' || *c == b'1');
        }
        if b[0] == b'_' {
            return false;
        }
        return valid_decimal(&t);
    }
    if b.len() >= 2 && b[0] == b'0' && (b[1] == b'x' || b[1] == b'X') {
        return b.len() > 2 && b[2..].iter().all(|c| c.is_ascii_hexdigit());
    }
    valid_decimal(b)
}

fn valid_decimal(t: &[u8]) -> bool {
    // digits [. digits] [e[+-]digits] with at least one digit in the mantissa
    let mut i = 0;
    let mut digits = 0;
    while i < t.len() && t[i].is_ascii_digit() {
        i += 1;
        digits += 1;
    }
    if i < t.len() && t[i] == b'.' {
        i += 1;
        while i < t.len() && t[i].is_ascii_digit() {
            i += 1;
            digits += 1;
        }
    }
    if digits == 0 {
        return false;
    }
    if i < t.len() && (t[i] == b'e' || t[i] == b'E') {
        i += 1;
        if i < t.len() && (t[i] == b'+' || t[i] == b'-') {
            i += 1;
        }
        let st = i;
        while i < t.len() && t[i].is_ascii_digit() {
            i += 1;
        }
        if i == st {
            return false;
        }
    }
    i == t.len()
}

pub fn lex(src: &str, luau: bool) -> Result<Lexed<'_>, LexError> {
    let mut lx = Lx { s: src.as_bytes(), src, pos: 0, line: 1, luau, interp: vec![] };
    let mut tokens = vec![];
    let mut first_trivia: Vec<Trivia> = vec![];
    // shebang
    if src.starts_with('#') && luau {
        // full_moon/Luau accept a shebang line
        if src.starts_with("#!") {
            while !lx.eof() && lx.peek() != b'\n' {
                lx.pos += 1;
            }
            first_trivia.push(Trivia { kind: TriviaKind::Shebang, start: 0, end: lx.pos });
        }
    } else if src.starts_with('#') {
        while !lx.eof() && lx.peek() != b'\n' {
            lx.pos += 1;
        }
        first_trivia.push(Trivia { kind: TriviaKind::Shebang, start: 0, end: lx.pos });
    }
    loop {
        let mut t = lx.next()?;
        if tokens.is_empty() && !first_trivia.is_empty() {
            let mut l = std::mem::take(&mut first_trivia);
            l.extend(t.leading);
            t.leading = l;
        }
        let eof = t.kind == Tk::Eof;
        tokens.push(t);
        if eof {
            break;
        }
    }
    if !lx.interp.is_empty() {
        return Err(LexError { pos: src.len(), msg: "unfinished interpolated string".into() });
    }
    Ok(Lexed { src, tokens })
}
