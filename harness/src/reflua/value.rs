//! Values of the reference interpreter.

use super::ast::FuncBody;
use std::cell::RefCell;
use std::collections::BTreeMap;
use std::rc::Rc;

#[derive(Clone)]
pub enum Value {
    Nil,
    Bool(bool),
    Num(f64),
    Str(Rc<[u8]>),
    Table(Rc<TableObj>),
    Func(Rc<Closure>),
    Builtin(Builtin),
    /// universal-environment proxy (stands for an unknown global and anything derived from it)
    Proxy(Rc<ProxyObj>),
}

pub struct ProxyObj {
    pub id: u32,
    pub name: String,
}

#[derive(Clone, Copy, PartialEq, Eq, Debug)]
pub struct Builtin {
    pub id: u16,
    pub name: &'static str,
}

pub struct TableObj {
    pub id: u32,
    /// 0 = ordinary table; otherwise the serial number of a hostile (logging) object
    pub hostile: u32,
    pub data: RefCell<TableData>,
}

#[derive(Default)]
pub struct TableData {
    /// values for keys 1..=arr.len() (may contain Nil holes in the middle)
    pub arr: Vec<Value>,
    pub hash: BTreeMap<Key, Value>,
    pub meta: Option<Rc<TableObj>>,
}

pub struct Closure {
    pub id: u32,
    pub proto: Rc<FuncBody>,
    pub env: Rc<Scope>,
    /// implicit `self` parameter (method definitions)
    pub has_self: bool,
    pub name: String,
}

pub struct Scope {
    pub vars: RefCell<Vec<(Rc<str>, Rc<RefCell<Value>>)>>,
    pub parent: Option<Rc<Scope>>,
}

// Tables, scopes and closures reference each other in cycles (`_G._G`, a local function captured by its own scope),
// which reference counting never frees.  Every table and scope is therefore registered here, and when the last live
// interpreter of the thread is dropped the registered objects are emptied, which breaks every cycle.
thread_local! {
    static REG_TABLES: RefCell<Vec<std::rc::Weak<TableObj>>> = RefCell::new(Vec::new());
    static REG_SCOPES: RefCell<Vec<std::rc::Weak<Scope>>> = RefCell::new(Vec::new());
    static LIVE_INTERPS: std::cell::Cell<u32> = std::cell::Cell::new(0);
}

pub fn interp_created() {
    LIVE_INTERPS.with(|c| c.set(c.get() + 1));
}

pub fn interp_dropped() {
    let left = LIVE_INTERPS.with(|c| {
        c.set(c.get().saturating_sub(1));
        c.get()
    });
    if left > 0 {
        return;
    }
    let tables: Vec<std::rc::Weak<TableObj>> = REG_TABLES.with(|r| std::mem::take(&mut *r.borrow_mut()));
    let scopes: Vec<std::rc::Weak<Scope>> = REG_SCOPES.with(|r| std::mem::take(&mut *r.borrow_mut()));
    // take the contents out first, drop them afterwards (dropping may run arbitrary Drop code of nested values)
    let mut garbage_t = Vec::new();
    for w in &tables {
        if let Some(t) = w.upgrade() {
            if let Ok(mut d) = t.data.try_borrow_mut() {
                garbage_t.push(std::mem::take(&mut *d));
            }
        }
    }
    let mut garbage_s = Vec::new();
    for w in &scopes {
        if let Some(sc) = w.upgrade() {
            if let Ok(mut v) = sc.vars.try_borrow_mut() {
                garbage_s.push(std::mem::take(&mut *v));
            }
        }
    }
    // the variable cells themselves may be shared with closures: empty them too
    for vars in &garbage_s {
        for (_, cell) in vars {
            if let Ok(mut c) = cell.try_borrow_mut() {
                *c = Value::Nil;
            }
        }
    }
    drop(garbage_t);
    drop(garbage_s);
}

impl TableObj {
    pub fn alloc(id: u32, hostile: u32) -> Rc<TableObj> {
        let t = Rc::new(TableObj { id, hostile, data: RefCell::new(TableData::default()) });
        REG_TABLES.with(|r| r.borrow_mut().push(Rc::downgrade(&t)));
        t
    }
}

impl Scope {
    pub fn new(parent: Option<Rc<Scope>>) -> Rc<Scope> {
        let s = Rc::new(Scope { vars: RefCell::new(Vec::new()), parent });
        REG_SCOPES.with(|r| r.borrow_mut().push(Rc::downgrade(&s)));
        s
    }
    pub fn declare(&self, name: &str, v: Value) {
        self.vars.borrow_mut().push((Rc::from(name), Rc::new(RefCell::new(v))));
    }
    pub fn lookup(self: &Rc<Scope>, name: &str) -> Option<Rc<RefCell<Value>>> {
        let mut cur: Option<&Rc<Scope>> = Some(self);
        while let Some(s) = cur {
            let vars = s.vars.borrow();
            for (n, cell) in vars.iter().rev() {
                if &**n == name {
                    return Some(cell.clone());
                }
            }
            drop(vars);
            cur = s.parent.as_ref();
        }
        None
    }
}

#[derive(Clone, PartialEq, Eq, PartialOrd, Ord, Debug)]
pub enum Key {
    Bool(bool),
    /// total order on the bit pattern of a non-NaN number (negative zero normalised)
    Num(u64),
    Str(Rc<[u8]>),
    /// identity of a table / function / builtin / proxy: (kind, id)
    Obj(u8, u32),
}

fn order_bits(f: f64) -> u64 {
    let f = if f == 0.0 { 0.0 } else { f };
    let b = f.to_bits();
    if b >> 63 == 1 {
        !b
    } else {
        b | (1 << 63)
    }
}

pub fn key_num(f: f64) -> Key {
    Key::Num(order_bits(f))
}

pub fn key_to_value_num(bits: u64) -> f64 {
    let b = if bits >> 63 == 1 { bits & !(1 << 63) } else { !bits };
    f64::from_bits(b)
}

impl Value {
    pub fn str(s: &str) -> Value {
        Value::Str(Rc::from(s.as_bytes()))
    }
    pub fn bytes(b: &[u8]) -> Value {
        Value::Str(Rc::from(b))
    }
    pub fn truthy(&self) -> bool {
        !matches!(self, Value::Nil | Value::Bool(false))
    }
    pub fn type_name(&self) -> &'static str {
        match self {
            Value::Nil => "nil",
            Value::Bool(_) => "boolean",
            Value::Num(_) => "number",
            Value::Str(_) => "string",
            Value::Table(_) => "table",
            Value::Func(_) | Value::Builtin(_) => "function",
            Value::Proxy(_) => "userdata",
        }
    }
    pub fn to_key(&self) -> Option<Key> {
        match self {
            Value::Nil => None,
            Value::Bool(b) => Some(Key::Bool(*b)),
            Value::Num(n) => {
                if n.is_nan() {
                    None
                } else {
                    Some(key_num(*n))
                }
            }
            Value::Str(s) => Some(Key::Str(s.clone())),
            Value::Table(t) => Some(Key::Obj(0, t.id)),
            Value::Func(f) => Some(Key::Obj(1, f.id)),
            Value::Builtin(b) => Some(Key::Obj(2, b.id as u32)),
            Value::Proxy(p) => Some(Key::Obj(3, p.id)),
        }
    }
    pub fn raw_equals(&self, o: &Value) -> bool {
        match (self, o) {
            (Value::Nil, Value::Nil) => true,
            (Value::Bool(a), Value::Bool(b)) => a == b,
            (Value::Num(a), Value::Num(b)) => a == b,
            (Value::Str(a), Value::Str(b)) => a == b,
            (Value::Table(a), Value::Table(b)) => Rc::ptr_eq(a, b),
            (Value::Func(a), Value::Func(b)) => Rc::ptr_eq(a, b),
            (Value::Builtin(a), Value::Builtin(b)) => a.id == b.id,
            (Value::Proxy(a), Value::Proxy(b)) => Rc::ptr_eq(a, b),
            _ => false,
        }
    }
}

impl TableData {
    pub fn get(&self, k: &Value) -> Value {
        if let Value::Num(n) = k {
            let i = *n as usize;
            if i as f64 == *n && i >= 1 && i <= self.arr.len() {
                return self.arr[i - 1].clone();
            }
        }
        match k.to_key() {
            Some(key) => self.hash.get(&key).cloned().unwrap_or(Value::Nil),
            None => Value::Nil,
        }
    }
    pub fn get_str(&self, k: &str) -> Value {
        let key = Key::Str(Rc::from(k.as_bytes()));
        self.hash.get(&key).cloned().unwrap_or(Value::Nil)
    }
    /// raw set; the key must not be nil/NaN (checked by the caller)
    pub fn set(&mut self, k: &Value, v: Value) {
        if let Value::Num(n) = k {
            let i = *n as usize;
            if i as f64 == *n && i >= 1 {
                if i <= self.arr.len() {
                    self.arr[i - 1] = v;
                    // trim trailing nils
                    while matches!(self.arr.last(), Some(Value::Nil)) {
                        self.arr.pop();
                    }
                    return;
                }
                if i == self.arr.len() + 1 {
                    if matches!(v, Value::Nil) {
                        self.hash.remove(&key_num(*n));
                        return;
                    }
                    self.hash.remove(&key_num(*n));
                    self.arr.push(v);
                    // migrate following keys
                    loop {
                        let next = key_num((self.arr.len() + 1) as f64);
                        match self.hash.remove(&next) {
                            Some(x) => self.arr.push(x),
                            None => break,
                        }
                    }
                    return;
                }
            }
        }
        if let Some(key) = k.to_key() {
            if matches!(v, Value::Nil) {
                self.hash.remove(&key);
            } else {
                self.hash.insert(key, v);
            }
        }
    }
    /// border; None when the sequence part has holes (result is implementation-defined)
    pub fn length(&self) -> Option<usize> {
        if self.arr.iter().any(|v| matches!(v, Value::Nil)) {
            return None;
        }
        // positive integer keys left in the hash beyond the array part make the border ambiguous
        let n = self.arr.len();
        for k in self.hash.keys() {
            if let Key::Num(bits) = k {
                let f = key_to_value_num(*bits);
                if f >= 1.0 && f.fract() == 0.0 && f > n as f64 {
                    return None;
                }
            }
        }
        Some(n)
    }
}
