//! number -> string conversion of the two dialects (DESIGN.md appendix A1)

/// Lua 5.1: C's "%.14g"
pub fn fmt_l51(v: f64) -> String {
    fmt_g(v, 14)
}

/// C's %.{prec}g
pub fn fmt_g(v: f64, prec: usize) -> String {
    if v.is_nan() {
        return if v.is_sign_negative() { "-nan".into() } else { "nan".into() };
    }
    if v.is_infinite() {
        return if v > 0.0 { "inf".into() } else { "-inf".into() };
    }
    if v == 0.0 {
        return if v.is_sign_negative() { "-0".into() } else { "0".into() };
    }
    let prec = prec.max(1);
    let sci = format!("{:.*e}", prec - 1, v); // d.ddddde-X
    let (mant, exp) = sci.split_once('e').unwrap();
    let x: i32 = exp.parse().unwrap();
    if x < -4 || x >= prec as i32 {
        let mut m = mant.to_string();
        if m.contains('.') {
            while m.ends_with('0') {
                m.pop();
            }
            if m.ends_with('.') {
                m.pop();
            }
        }
        let sign = if x < 0 { '-' } else { '+' };
        format!("{}e{}{:02}", m, sign, x.abs())
    } else {
        let decimals = (prec as i32 - 1 - x).max(0) as usize;
        let mut s = format!("{:.*}", decimals, v);
        if s.contains('.') {
            while s.ends_with('0') {
                s.pop();
            }
            if s.ends_with('.') {
                s.pop();
            }
        }
        s
    }
}

/// shortest round-trip digits and decimal point position: value = 0.DIGITS * 10^dot
pub fn shortest_digits(v: f64) -> (String, i32) {
    let s = format!("{:e}", v.abs()); // d.ddde-X or de-X
    let (mant, exp) = s.split_once('e').unwrap();
    let x: i32 = exp.parse().unwrap();
    let digits: String = mant.chars().filter(|c| *c != '.').collect();
    (digits, x + 1)
}

fn luau_fixed(neg: bool, digits: &str, dot: i32) -> String {
    let mut s = String::new();
    if neg {
        s.push('-');
    }
    let n = digits.len() as i32;
    if dot <= 0 {
        s.push_str("0.");
        for _ in 0..(-dot) {
            s.push('0');
        }
        s.push_str(digits);
    } else if dot >= n {
        s.push_str(digits);
        for _ in 0..(dot - n) {
            s.push('0');
        }
    } else {
        s.push_str(&digits[..dot as usize]);
        s.push('.');
        s.push_str(&digits[dot as usize..]);
    }
    s
}

fn luau_sci(neg: bool, digits: &str, dot: i32) -> String {
    let mut s = String::new();
    if neg {
        s.push('-');
    }
    s.push_str(&digits[..1]);
    if digits.len() > 1 {
        s.push('.');
        s.push_str(&digits[1..]);
    }
    let x = dot - 1;
    s.push('e');
    s.push(if x < 0 { '-' } else { '+' });
    s.push_str(&format!("{:02}", x.abs()));
    s
}

/// Luau: shortest round trip; fixed notation when -5 <= dot <= 21.
/// Returns (canonical, certain): `certain` is false in the band where the reference does not
/// trust its memory of the notation switch.
pub fn fmt_luau(v: f64) -> (String, bool) {
    if v.is_nan() {
        return ("nan".into(), true);
    }
    if v.is_infinite() {
        return (if v > 0.0 { "inf".into() } else { "-inf".into() }, true);
    }
    if v == 0.0 {
        return (if v.is_sign_negative() { "-0".into() } else { "0".into() }, true);
    }
    let neg = v < 0.0;
    let (digits, dot) = shortest_digits(v);
    let certain = !((-8..=-5).contains(&dot) || ((16..=24).contains(&dot) && (digits.len() as i32) < dot));
    if (-5..=21).contains(&dot) {
        (luau_fixed(neg, &digits, dot), certain)
    } else {
        (luau_sci(neg, &digits, dot), certain)
    }
}

/// every spelling a real implementation of either dialect may produce for tostring(v)
pub fn acceptable_spellings(v: f64) -> Vec<String> {
    let mut out = vec![];
    if v.is_nan() {
        return vec!["nan".into(), "-nan".into(), "nan(ind)".into(), "-nan(ind)".into()];
    }
    out.push(fmt_l51(v));
    let (c, _) = fmt_luau(v);
    out.push(c);
    if v.is_finite() && v != 0.0 {
        let (digits, dot) = shortest_digits(v);
        if (-8..=24).contains(&dot) {
            out.push(luau_fixed(v < 0.0, &digits, dot));
            out.push(luau_sci(v < 0.0, &digits, dot));
        }
    }
    out.sort();
    out.dedup();
    out
}
